"""Translator for property C07: Python `ast` -> the mini heap language of lean/ExoModel/PyHeap.lean.

For every function / method / nested function / lambda of the anchored source files this extracts
the heap-relevant statements (bindings classified by where the bound object comes from, and
mutation sites) and writes lean/ExoModel/Gen/PyMut.lean (deterministic: no timestamps, source
order).  The freshness analysis itself is NOT done here: it is `Exo.PyHeap.inferT / checkGroup`
and the obligation `AllMutationsFresh Gen.PyMut.functions` is decided by Lean.

What is structural here (and therefore trusted, see docs/C07.md):
  * scoping: which Python name is which variable; a local that a nested function / lambda /
    generator expression refers to, and every `self.<attr>`, is a *weak* variable of the group;
  * statements directly in a function body become `top` items (in order), compound statements
    (`if/for/while/try/with/match`) become one `soup` of all the statements inside them;
  * classification of right-hand sides (RULES below) and of mutation sites (MUTATORS below);
  * the whitelist: sites that are not emitted as mutations, each with a reason that is written
    into the generated file (`whitelist`).

Usage:  python pymut.py [--out FILE] [--json FILE]      (EXO_REPO selects the tree)
"""
from __future__ import annotations

import ast
import json
import os
import sys
from pathlib import Path

HERE = Path(__file__).resolve().parent
ROOT = HERE.parent.parent
REPO = Path(os.environ.get("EXO_REPO", "/repo"))

FILES = [
    "rewrite/LoopIR_scheduling.py",
    "core/internal_cursors.py",
    "core/LoopIR.py",
    "API.py",
    "API_scheduling.py",
    "rewrite/new_eff.py",
    "rewrite/LoopIR_unification.py",
]

# ------------------------------------------------------------------------------------ rules
# method names that edit their receiver in place, and the mutator kind of the mini language
MUTATORS = {
    "append": "append", "extend": "extend", "insert": "insert", "pop": "pop", "remove": "remove",
    "sort": "sort", "reverse": "reverse", "clear": "clear",
    # dict / set / deque spellings of the same thing
    "add": "append", "discard": "remove", "setdefault": "setitem", "popitem": "pop",
    "appendleft": "insert", "popleft": "pop", "extendleft": "extend",
    "intersection_update": "iadd", "difference_update": "iadd", "symmetric_difference_update": "iadd",
    "update": "extend",       # only with a positional argument; keyword-only = ADT functional update
    "__setitem__": "setitem", "__delitem__": "delitem", "__iadd__": "iadd", "__setattr__": "setattr",
}
# calls whose result is a new object
FRESH_FUNCS = {
    "list", "dict", "set", "frozenset", "tuple", "sorted", "reversed", "range", "zip", "map", "filter",
    "enumerate", "len", "int", "str", "float", "bool", "repr", "sum", "any", "all", "abs", "isinstance",
    "issubclass", "hasattr", "id", "hash", "type", "iter", "format", "ord", "chr", "divmod", "round",
    "ChainMap", "defaultdict", "OrderedDict", "deque", "Counter", "deepcopy", "copy",
    "replace",  # dataclasses.replace: a new dataclass instance
}
FRESH_METHODS = {
    "copy", "items", "keys", "values", "join", "format", "split", "strip", "lstrip", "rstrip", "lower",
    "upper", "title", "startswith", "endswith", "new_child", "union", "intersection", "difference",
    "symmetric_difference", "count", "index", "find", "isdigit", "replace", "splitlines", "encode",
}
# calls that hand out a stored list of an existing object
NODEFIELD_METHODS = {"shape"}
# augmented assignments that edit a list / set / dict in place
INPLACE_OPS = (ast.Add, ast.BitOr, ast.BitAnd, ast.Sub, ast.BitXor, ast.Mult)
CONSTRUCTORS = {"__init__", "__post_init__", "__new__", "__attrs_post_init__"}

# classes whose instances are private working state of one call (visitor / rewriter objects that are
# constructed, run and dropped inside one scheduling operation or query): `self` is a fresh object
# in every method and `self.<attr>` fields are weak variables of the class group.  Every other class
# is *persistent*: outside constructors `self` is a parameter and `self.<attr>` is a node field.
EPHEMERAL_BASES = {
    "LoopIR_Rewrite": "rewriter object: built, run once over a proc and dropped inside one call",
    "LoopIR_Do": "visitor object: built, run once over a proc and dropped inside one call",
    "Cursor_Rewrite": "rewriter object: built, run once over a proc and dropped inside one call",
    "LoopIR_Compare": "comparison visitor: built, run once and dropped inside one call",
}

EPHEMERAL_CLASSES = {
    "DoFissionLoops": "rewriter object (does not derive from LoopIR_Rewrite but is used the same way): built by "
                      "DoFissionAfterSimple-style entry points, run once and dropped inside one call",
    "Unification": "solver state of one `replace` call: built in DoReplace/unification entry, result() read, dropped",
    "BufVar": "unknown of one Unification instance: created by it, lives in its dictionaries only",
    "ContextExtraction": "analysis helper: built for one Check_* call and dropped",
}

# sites that are not emitted as mutations: (file, function regex (fullmatch), site regex (search), reason[, finding key])
# the reason ends up in Gen/PyMut.lean `whitelist`; a rule with a finding key is a GENUINE defect that is
# reported (harness/props/c07.py) and recorded in known_findings.json rather than accepted
WHITELIST = [
    ("API_scheduling.py", r"ArgumentProcessor\.setdata", r"^self\.(i|arg_name|f_name) = ",
     "setdata is called only by the @sched_op decorator right after the processor objects are built, at import "
     "time (API_scheduling.py sched_op / OptionalA.setdata / ListA.setdata): never during a scheduling call"),
    ("API_scheduling.py", r"CursorArgumentProcessor\.__call__", r"^cur\[i\] = p\.forward\(cur\[i\]\)",
     "GENUINE: a list of cursors passed by the caller (ExprCursorA(many=True): commute_expr) is overwritten "
     "element-wise with the forwarded cursors", "CursorArgumentProcessor.__call__:caller-list-forwarded-in-place"),
    ("API_scheduling.py", r"AtomicSchedulingOp\.__call__", r"^bargs\[nm\] = argp\(",
     "bargs is bound_args.arguments of the inspect.BoundArguments object made two statements above by "
     "self.sig.bind(*args, **kwargs): a dict created for this call"),
    ("core/LoopIR.py", r"Alpha_Rename\.__init__", r"^self\.node \+= ",
     "self.node is the list literal bound four lines above on this path (`self.node = []`); the other binding of "
     "self.node (apply_proc's result) is in the other branch of the same if"),
    ("rewrite/LoopIR_scheduling.py", r"CheckFoldBuffer\.update_access_window(_within_s)?", r"\|= (bounds|new_bounds)",
     "the operands are IndexRange objects (annotated parameter type); IndexRange defines __or__ but no __ior__ "
     "(no class under src/exo defines __ior__, checked on this run), so `|=` builds a new object and rebinds",
     None, "no_ior"),
    ("core/LoopIR.py", r"LoopIR_Dependencies\..*", r"(self\._depends\[.*\]\.(add|update)\(|^depends\.update\(d\))",
     "an element of self._depends, the defaultdict(set) built in __init__ of this visitor: its values are only ever "
     "the sets made by its default factory"),
    ("rewrite/new_eff.py", r"possible_config_writes\.Find_RHS\..*", r"self\.writes\[key\]\.add\(",
     "an element of self.writes, a dict built in __init__ of this visitor whose values are the `set()` stored two "
     "lines above / the fresh `exprs` set of filter()"),
]
WL_RULES = None


def wl_rules():
    global WL_RULES
    if WL_RULES is None:
        import re
        WL_RULES = [(r[0], re.compile(r[1]), re.compile(r[2]), r[3], (r[4] if len(r) > 4 else None),
                     (r[5] if len(r) > 5 else None)) for r in WHITELIST]
    return WL_RULES


def norm(node) -> str:
    return " ".join(ast.unparse(node).split())


# ------------------------------------------------------------------------------------ data
class FuncT:
    def __init__(self, name, line):
        self.name = name
        self.line = line
        self.strong = {}   # name -> idx
        self.items = []    # ("top", stmt) | ("soup", [stmt])

    def svar(self, name):
        if name not in self.strong:
            self.strong[name] = len(self.strong)
        return ("s", self.strong[name])


class GroupT:
    def __init__(self, name, file):
        self.name = name
        self.file = file
        self.weak = {}
        self.funcs = []

    def wvar(self, name):
        if name not in self.weak:
            self.weak[name] = len(self.weak)
        return ("w", self.weak[name])


# ------------------------------------------------------------------------------------ scopes
SCOPE_NODES = (ast.FunctionDef, ast.AsyncFunctionDef, ast.Lambda, ast.GeneratorExp)


def iter_scope_body(node):
    """child nodes of a scope node that belong to the scope itself"""
    if isinstance(node, (ast.FunctionDef, ast.AsyncFunctionDef)):
        return list(node.body)
    if isinstance(node, ast.Lambda):
        return [node.body]
    if isinstance(node, ast.GeneratorExp):
        return [node.elt] + [g.iter for g in node.generators[1:]] + [c for g in node.generators for c in g.ifs]
    raise TypeError(node)


def walk_own(nodes):
    """walk nodes without entering nested scopes or class bodies (but yields the nested scope node)"""
    todo = list(nodes)
    while todo:
        n = todo.pop()
        yield n
        if isinstance(n, SCOPE_NODES) or isinstance(n, ast.ClassDef):
            # decorators / defaults / bases / first generator iter belong to the enclosing scope
            if isinstance(n, (ast.FunctionDef, ast.AsyncFunctionDef)):
                todo.extend(n.decorator_list)
                todo.extend(n.args.defaults)
                todo.extend(d for d in n.args.kw_defaults if d is not None)
            elif isinstance(n, ast.Lambda):
                todo.extend(n.args.defaults)
            elif isinstance(n, ast.GeneratorExp):
                todo.append(n.generators[0].iter)
            elif isinstance(n, ast.ClassDef):
                todo.extend(n.decorator_list)
                todo.extend(n.bases)
            continue
        todo.extend(ast.iter_child_nodes(n))


def target_names(t):
    if isinstance(t, ast.Name):
        yield t.id
    elif isinstance(t, (ast.Tuple, ast.List)):
        for e in t.elts:
            yield from target_names(e)
    elif isinstance(t, ast.Starred):
        yield from target_names(t.value)


COMP_NODES = (ast.ListComp, ast.SetComp, ast.DictComp)


class Scope:
    """name resolution for one function-like scope"""

    def __init__(self, node, parent, qual):
        self.node = node
        self.parent = parent      # enclosing Scope or None (module / class body level)
        self.qual = qual
        self.locals = set()
        self.globals_decl = set()
        self.nonlocal_decl = set()
        self.children = []
        self.refs = set()         # names referenced in this scope itself
        self.captured = set()     # locals referred to by nested scopes
        self._collect()

    def params(self):
        n = self.node
        if isinstance(n, ast.GeneratorExp):
            return []
        a = n.args
        out = [x.arg for x in a.posonlyargs + a.args + a.kwonlyargs]
        return out

    def _collect(self):
        n = self.node
        comp_targets = set()
        if isinstance(n, ast.GeneratorExp):
            for g in n.generators:
                self.locals.update(target_names(g.target))
        else:
            a = n.args
            for x in a.posonlyargs + a.args + a.kwonlyargs:
                self.locals.add(x.arg)
            if a.vararg:
                self.locals.add(a.vararg.arg)
            if a.kwarg:
                self.locals.add(a.kwarg.arg)
        own = list(walk_own(iter_scope_body(n)))
        comp_target_nodes = set()
        for x in own:
            if isinstance(x, COMP_NODES):
                for g in x.generators:
                    for y in ast.walk(g.target):
                        if isinstance(y, ast.Name):
                            comp_target_nodes.add(id(y))
        for x in own:
            if isinstance(x, ast.Name):
                self.refs.add(x.id)
                if isinstance(x.ctx, (ast.Store, ast.Del)) and id(x) not in comp_target_nodes:
                    self.locals.add(x.id)
            elif isinstance(x, (ast.FunctionDef, ast.AsyncFunctionDef, ast.ClassDef)):
                self.locals.add(x.name)
            elif isinstance(x, ast.Global):
                self.globals_decl.update(x.names)
            elif isinstance(x, ast.Nonlocal):
                self.nonlocal_decl.update(x.names)
            elif isinstance(x, (ast.Import, ast.ImportFrom)):
                for al in x.names:
                    self.locals.add((al.asname or al.name).split(".")[0])
            elif isinstance(x, ast.ExceptHandler) and x.name:
                self.locals.add(x.name)
            elif isinstance(x, COMP_NODES):
                for g in x.generators:
                    comp_targets.update(target_names(g.target))
            elif isinstance(x, ast.MatchAs) and x.name:
                self.locals.add(x.name)
        # comprehension targets are renamed apart by the translator: they are not locals of the
        # function unless also assigned outside a comprehension -- approximated: remove names that
        # are only ever stored inside comprehensions
        self.comp_targets = comp_targets
        self.locals -= self.globals_decl
        self.locals -= self.nonlocal_decl


def build_scopes(node, parent, qual):
    sc = Scope(node, parent, qual)
    sc.method_of = None
    for x in walk_own(iter_scope_body(node)):
        if isinstance(x, SCOPE_NODES):
            nm = x.name if isinstance(x, (ast.FunctionDef, ast.AsyncFunctionDef)) else (
                f"<lambda@{x.lineno}:{x.col_offset}>" if isinstance(x, ast.Lambda) else f"<genexpr@{x.lineno}:{x.col_offset}>")
            sc.children.append(build_scopes(x, sc, qual + "." + nm))
        elif isinstance(x, ast.ClassDef):
            # methods of a class defined inside a function: nested scopes of the function
            for y in x.body:
                if isinstance(y, (ast.FunctionDef, ast.AsyncFunctionDef)):
                    c = build_scopes(y, sc, qual + "." + x.name + "." + y.name)
                    c.method_of = x
                    sc.children.append(c)
    sc.children.sort(key=lambda c: (c.node.lineno, c.node.col_offset))
    return sc


def scopes_in(sc, stmt):
    """the child scopes of `sc` that are created inside top-level statement `stmt`"""
    ids = set()
    for x in walk_own([stmt]):
        if isinstance(x, SCOPE_NODES):
            ids.add(id(x))
        elif isinstance(x, ast.ClassDef):
            for y in x.body:
                ids.add(id(y))
    return [c for c in sc.children if id(c.node) in ids]


def free_names(sc: Scope):
    """names a scope (or its descendants) needs from enclosing scopes"""
    need = set(sc.refs) | set(sc.nonlocal_decl)
    for c in sc.children:
        need |= free_names(c)
    mine = sc.locals - sc.nonlocal_decl
    return need - mine


def mark_captured(sc: Scope):
    for c in sc.children:
        for n in free_names(c):
            # find the defining scope upwards from sc
            s = sc
            while s is not None:
                if n in s.locals:
                    s.captured.add(n)
                    break
                s = s.parent
        mark_captured(c)


# ------------------------------------------------------------------------------------ module info
class ModInfo:
    def __init__(self, rel):
        self.rel = rel
        self.path = REPO / "src" / "exo" / rel
        self.src = self.path.read_text()
        self.tree = ast.parse(self.src)
        for n in ast.walk(self.tree):
            for c in ast.iter_child_nodes(n):
                c._parent = n
        self.names = set()
        self.classes = {}
        for x in self.tree.body:
            for y in walk_own([x]):
                if isinstance(y, ast.Name) and isinstance(y.ctx, ast.Store):
                    self.names.add(y.id)
                elif isinstance(y, (ast.FunctionDef, ast.AsyncFunctionDef, ast.ClassDef)):
                    if y in self.tree.body:
                        self.names.add(y.name)
                elif isinstance(y, (ast.Import, ast.ImportFrom)):
                    for al in y.names:
                        self.names.add((al.asname or al.name).split(".")[0])
            if isinstance(x, ast.ClassDef):
                self.classes[x.name] = x
        self.pymod = None

    def resolve_class(self, expr):
        """does the dotted expression denote a class (constructor call = fresh object)?  Resolved in
        the imported module when possible, by naming convention otherwise."""
        parts = []
        e = expr
        while isinstance(e, ast.Attribute):
            parts.append(e.attr)
            e = e.value
        if not isinstance(e, ast.Name):
            return False
        parts.append(e.id)
        parts.reverse()
        if self.pymod is not None:
            try:
                o = getattr(self.pymod, parts[0])
                for p in parts[1:]:
                    o = getattr(o, p)
                return isinstance(o, type)
            except Exception:
                pass
        return False


# ------------------------------------------------------------------------------------ translation
class Translator:
    def __init__(self, import_modules=True):
        self.mods = {rel: ModInfo(rel) for rel in FILES}
        self.all_classes = {}  # name -> (rel, ClassDef)
        for rel, m in self.mods.items():
            for cn, c in m.classes.items():
                self.all_classes.setdefault(cn, (rel, c))
        if import_modules:
            self._import()
        self.groups = []
        self.all_src = {}       # every file under src/exo: rel -> (text, ast) (lazy)
        self.ephemeral_checks = {}
        self.whitelisted = []   # dicts
        self.skipped = []       # sites recognised as not-a-mutation, with the rule
        self.used_wl = set()
        self.nsites = 0

    def _import(self):
        src = str(REPO / "src")
        if src not in sys.path:
            sys.path.insert(0, src)
        import importlib
        for rel, m in self.mods.items():
            name = "exo." + rel[:-3].replace("/", ".")
            try:
                m.pymod = importlib.import_module(name)
            except BaseException as e:  # a mutated tree may not import: fall back to syntax only
                m.pymod = None
                m.import_error = f"{type(e).__name__}: {e}"

    # ---- class hierarchy
    def ancestors(self, cname, seen=None):
        seen = seen if seen is not None else []
        if cname not in self.all_classes or cname in seen:
            return seen
        seen.append(cname)
        rel, c = self.all_classes[cname]
        for b in c.bases:
            bn = b.attr if isinstance(b, ast.Attribute) else (b.id if isinstance(b, ast.Name) else None)
            if bn:
                self.ancestors(bn, seen)
        return seen

    def base_names(self, cname):
        out = []
        todo = [cname]
        seen = set()
        while todo:
            c = todo.pop()
            if c in seen:
                continue
            seen.add(c)
            out.append(c)
            if c in self.all_classes:
                for b in self.all_classes[c][1].bases:
                    bn = b.attr if isinstance(b, ast.Attribute) else (b.id if isinstance(b, ast.Name) else None)
                    if bn:
                        todo.append(bn)
        return out

    def ephemeral_reason(self, cname):
        if cname in EPHEMERAL_CLASSES:
            return EPHEMERAL_CLASSES[cname]
        for b in self.base_names(cname):
            if b in EPHEMERAL_BASES:
                return EPHEMERAL_BASES[b]
            if b in EPHEMERAL_CLASSES and b != cname:
                return EPHEMERAL_CLASSES[b]
        return None

    # ---- whole-tree facts used by the self-checking whitelist rules
    def sources(self):
        if not self.all_src:
            base = REPO / "src" / "exo"
            for pth in sorted(base.rglob("*.py")):
                rel = str(pth.relative_to(base))
                try:
                    txt = pth.read_text()
                    self.all_src[rel] = (txt, ast.parse(txt))
                except Exception:
                    continue
        return self.all_src

    def instantiation_sites(self, cname):
        """(file, line, inside_function) of every call `cname(...)` / `x.cname(...)` under src/exo"""
        out = []
        for rel, (txt, tree) in self.sources().items():
            if cname not in txt:
                continue
            def rec(node, inside):
                for c in ast.iter_child_nodes(node):
                    ins = inside or isinstance(c, (ast.FunctionDef, ast.AsyncFunctionDef, ast.Lambda))
                    if isinstance(c, ast.Call):
                        f = c.func
                        nm = f.id if isinstance(f, ast.Name) else (f.attr if isinstance(f, ast.Attribute) else None)
                        if nm == cname:
                            out.append((rel, c.lineno, inside))
                    rec(c, ins)
            rec(tree, False)
        return out

    def check_ephemeral(self, cname):
        """syntactic evidence for `ephemeral`: the class is never instantiated at module / class-body level"""
        if cname not in self.ephemeral_checks:
            sites = self.instantiation_sites(cname)
            bad = [(f, l) for (f, l, ins) in sites if not ins]
            self.ephemeral_checks[cname] = {"instantiations": len(sites), "at_module_level": bad}
        return not self.ephemeral_checks[cname]["at_module_level"]

    def defines_dunder(self, name):
        hits = []
        for rel, (txt, tree) in self.sources().items():
            if name in txt:
                for n in ast.walk(tree):
                    if isinstance(n, (ast.FunctionDef, ast.AsyncFunctionDef)) and n.name == name:
                        hits.append((rel, n.lineno))
        return hits

    # ---- driver
    def run(self):
        for rel in FILES:
            m = self.mods[rel]
            # module-level code
            g = GroupT("<module>", rel)
            fb = FuncBuilder(self, m, g, None, "<module>", 1, cls=None)
            fb.module_level = True
            fb.emit_block([x for x in m.tree.body if not isinstance(x, (ast.FunctionDef, ast.AsyncFunctionDef, ast.ClassDef))])
            # class bodies (class attributes) also run at import time
            g.funcs.append(fb.func)
            fb.flush_children()
            self.groups.append(g)
            for x in m.tree.body:
                if isinstance(x, (ast.FunctionDef, ast.AsyncFunctionDef)):
                    g = GroupT(x.name, rel)
                    sc = build_scopes(x, None, x.name)
                    mark_captured(sc)
                    self.emit_function(m, g, sc, Ctx())
                    self.groups.append(g)
                elif isinstance(x, ast.ClassDef):
                    self.emit_class(m, x)
        return self

    def emit_class(self, m, cdef):
        g = GroupT(cdef.name, m.rel)
        eph = self.ephemeral_reason(cdef.name)
        if eph is not None and not self.check_ephemeral(cdef.name):
            eph = None      # instantiated at module level: not private to one call
        g.ephemeral = eph
        chain = list(reversed(self.ancestors(cdef.name)))   # base classes first: shared numbering of their fields
        for cn in chain:
            rel, c = self.all_classes[cn]
            cm = self.mods[rel]
            # class body statements (class attributes shared by all instances): fields bound at import
            fb = FuncBuilder(self, cm, g, None, f"{cn}.<classbody>", c.lineno, cls=cn)
            fb.class_body = True
            fb.fields_visible = True
            fb.emit_block([y for y in c.body if not isinstance(y, (ast.FunctionDef, ast.AsyncFunctionDef, ast.ClassDef))])
            if fb.func.items:
                g.funcs.append(fb.func)
                fb.flush_children()
            for y in c.body:
                if isinstance(y, (ast.FunctionDef, ast.AsyncFunctionDef)):
                    decos = [norm(d) for d in y.decorator_list]
                    static = any(d.endswith("staticmethod") for d in decos)
                    clsm = any(d.endswith("classmethod") for d in decos)
                    sc = build_scopes(y, None, f"{cn}.{y.name}")
                    mark_captured(sc)
                    params = sc.params()
                    selfname = params[0] if (params and not static and not clsm) else None
                    ctor = y.name in CONSTRUCTORS
                    vis = bool(selfname) and (eph is not None or ctor)
                    self.emit_function(cm, g, sc, Ctx(cls=cn, cls_node=c, selfname=selfname, self_scope=sc,
                                                      fields=vis, self_fresh=vis, prefix=""))
        self.groups.append(g)

    def emit_function(self, m, g, sc, ctx):
        if getattr(sc, "method_of", None) is not None:
            # a method of a class defined inside a function
            cdef = sc.method_of
            decos = [norm(d) for d in sc.node.decorator_list]
            static = any(d.endswith("staticmethod") or d.endswith("classmethod") for d in decos)
            params = sc.params()
            selfname = params[0] if (params and not static) else None
            eph = None
            for b in cdef.bases:
                bn = b.attr if isinstance(b, ast.Attribute) else (b.id if isinstance(b, ast.Name) else None)
                if bn and self.ephemeral_reason(bn):
                    eph = self.ephemeral_reason(bn)
            if eph is not None and not self.check_ephemeral(cdef.name):
                eph = None
            vis = bool(selfname) and (eph is not None or sc.node.name in CONSTRUCTORS)
            ctx = Ctx(cls=cdef.name, cls_node=cdef, selfname=selfname, self_scope=sc, fields=vis, self_fresh=vis,
                      prefix=f"{cdef.name}::")
        fb = FuncBuilder(self, m, g, sc, sc.qual, sc.node.lineno, cls=ctx.cls)
        fb.ctx = ctx
        fb.selfname = ctx.selfname
        fb.self_scope = ctx.self_scope
        fb.fields_visible = ctx.fields
        fb.self_fresh = ctx.self_fresh
        fb.prefix = ctx.prefix
        fb.emit_scope()
        g.funcs.append(fb.func)
        for c in sc.children:
            self.emit_function(m, g, c, ctx)


class Ctx:
    """the class context of a function: whose `self` is it, are fields visible"""

    def __init__(self, cls=None, cls_node=None, selfname=None, self_scope=None, fields=False, self_fresh=False, prefix=""):
        self.cls = cls
        self.cls_node = cls_node
        self.selfname = selfname
        self.self_scope = self_scope
        self.fields = fields
        self.self_fresh = self_fresh
        self.prefix = prefix


class FuncBuilder:
    def __init__(self, tr: Translator, m: ModInfo, g: GroupT, sc, qual, line, cls):
        self.tr = tr
        self.m = m
        self.g = g
        self.sc = sc
        self.func = FuncT(qual, line)
        self.cls = cls
        self.selfname = None
        self.self_scope = None
        self.fields_visible = False
        self.self_fresh = False
        self.module_level = False
        self.class_body = False
        self.comp_env = []      # stack of dict name -> unique name
        self.tmp = 0
        self.pending_children = []
        self.prefix = ""
        self.ctx = Ctx()
        self.cur_index = None   # index of the top-level statement being translated (function bodies)
        self.capture_pos = {}   # captured local -> index of the first top-level statement creating a closure over it

    def flush_children(self):
        """lambdas / generator expressions in module-level or class-body statements"""
        for node in self.pending_children:
            for x in walk_own([node]):
                if isinstance(x, (ast.Lambda, ast.GeneratorExp)):
                    nm = f"<lambda@{x.lineno}:{x.col_offset}>" if isinstance(x, ast.Lambda) else f"<genexpr@{x.lineno}:{x.col_offset}>"
                    sc = build_scopes(x, None, self.func.name + "." + nm)
                    mark_captured(sc)
                    self.tr.emit_function(self.m, self.g, sc, Ctx())

    # ---- variables
    def resolve(self, name):
        """-> ("var", var) | ("global",) | ("builtin",)"""
        for env in reversed(self.comp_env):
            if name in env:
                return ("var", self.func.svar(env[name]))
        if self.sc is None:
            # module level / class body: every name is a local of the pseudo function
            if self.class_body:
                if name in self.class_locals:
                    return ("var", self.g.wvar(self.prefix + "self." + name))
                return ("global",) if name in self.m.names else ("builtin",)
            if name in self.m.names:
                return ("var", self.func.svar(name))
            return ("builtin",)
        s = self.sc
        first = True
        while s is not None:
            if first and name in s.globals_decl:
                return ("global",) if name in self.m.names else ("builtin",)
            if name in s.locals and not (first and name in s.nonlocal_decl):
                if first and name not in s.captured:
                    return ("var", self.func.svar(name))
                if first and self.cur_index is not None and self.cur_index < self.capture_pos.get(name, -1):
                    # no closure over `name` exists yet in this activation: still a private local
                    return ("var", self.func.svar(name))
                return ("var", self.g.wvar(f"{s.qual}.{name}"))
            first = False
            s = s.parent
        if name in self.m.names:
            return ("global",)
        return ("builtin",)

    def is_self(self, e):
        """is expression `e` the name of the receiver of the enclosing method?"""
        if not (isinstance(e, ast.Name) and self.selfname and e.id == self.selfname):
            return False
        for env in reversed(self.comp_env):
            if e.id in env:
                return False
        # not shadowed by a nested scope's own local
        s = self.sc
        while s is not None and s is not self.self_scope:
            if e.id in s.locals:
                return False
            s = s.parent
        return s is self.self_scope

    def newtmp(self, node):
        self.tmp += 1
        return self.func.svar(f"$t{getattr(node, 'lineno', 0)}:{getattr(node, 'col_offset', 0)}#{self.tmp}")

    # ---- right-hand sides
    def rhs(self, e, out):
        """alternatives for the object expression `e` evaluates to; heap-relevant sub-statements of `e`
        (mutator calls, walrus bindings, comprehension targets) are appended to `out`"""
        self.visit_effects(e, out)
        return self.rhs_pure(e)

    def rhs_pure(self, e):
        if isinstance(e, ast.Name):
            r = self.resolve(e.id)
            if r[0] == "var":
                return [("alias", r[1])]
            if r[0] == "global":
                return [("global",)]
            return [("fresh",)] if e.id in ("None", "True", "False", "NotImplemented", "Ellipsis") else [("unknown",)]
        if isinstance(e, (ast.Constant, ast.JoinedStr, ast.FormattedValue)):
            return [("fresh",)]
        if isinstance(e, (ast.List, ast.Tuple, ast.Set, ast.Dict, ast.ListComp, ast.SetComp, ast.DictComp,
                          ast.GeneratorExp, ast.Lambda)):
            return [("fresh",)]
        if isinstance(e, (ast.BinOp, ast.UnaryOp, ast.Compare)):
            return [("fresh",)]
        if isinstance(e, ast.BoolOp):
            out = []
            for v in e.values:
                out += self.rhs_pure(v)
            return out
        if isinstance(e, ast.IfExp):
            return self.rhs_pure(e.body) + self.rhs_pure(e.orelse)
        if isinstance(e, ast.NamedExpr):
            return self.rhs_pure(e.value)
        if isinstance(e, ast.Starred):
            return self.rhs_pure(e.value)
        if isinstance(e, ast.Subscript):
            if isinstance(e.slice, ast.Slice):
                return [("fresh",)]          # a slice of a list is a new list
            return [("unknown",)]            # an element of a container
        if isinstance(e, ast.Attribute):
            if e.attr in ("parents", "maps"):
                # ChainMap.parents is a new ChainMap over the *same* underlying dicts: editing it edits
                # a dict of the receiver -> same origin as the receiver
                return self.rhs_pure(e.value)
            if self.is_self(e.value) and self.fields_visible:
                return [("alias", self.g.wvar(self.prefix + "self." + e.attr))]
            return [("nodeField",)]
        if isinstance(e, ast.Call):
            f = e.func
            if isinstance(f, ast.Name):
                if f.id == "ChainMap" and (e.args or e.keywords):
                    return [("unknown",)]   # a view: writes go to the first dict given
                if f.id in FRESH_FUNCS and self.resolve(f.id)[0] != "var":
                    return [("fresh",)]
                if self.resolve(f.id)[0] != "var" and self.m.resolve_class(f):
                    return [("fresh",)]
                if self.resolve(f.id)[0] == "builtin" and f.id[:1].isupper() and self.m.pymod is None:
                    return [("fresh",)]
                return [("unknown",)]
            if isinstance(f, ast.Attribute):
                if f.attr in ("new_child", "ChainMap") and (e.args or e.keywords):
                    return [("unknown",)]
                if f.attr in FRESH_METHODS:
                    return [("fresh",)]
                if f.attr in NODEFIELD_METHODS:
                    return [("nodeField",)]
                if f.attr in FRESH_FUNCS and isinstance(f.value, ast.Name) and f.value.id in ("dataclasses", "copy", "collections", "functools", "itertools"):
                    return [("fresh",)]
                root = f
                while isinstance(root, ast.Attribute):
                    root = root.value
                if isinstance(root, ast.Name) and self.resolve(root.id)[0] != "var":
                    if self.m.resolve_class(f):
                        return [("fresh",)]
                    if self.m.pymod is None and f.attr[:1].isupper():
                        return [("fresh",)]
                return [("unknown",)]
            return [("unknown",)]
        if isinstance(e, (ast.Await, ast.Yield, ast.YieldFrom)):
            return [("unknown",)]
        return [("unknown",)]

    # ---- mutation sites
    def site(self, kind, target_expr, site_node, out, text=None):
        """a mutation of the object `target_expr` evaluates to"""
        self.tr.nsites += 1
        text = text or norm(site_node)
        line = getattr(site_node, "lineno", self.func.line)
        reason, finding = None, None
        for ri, (wf, wfunc, wsite, wreason, wfinding, wcheck) in enumerate(wl_rules()):
            if wf == self.m.rel and wfunc.fullmatch(self.func.name) and wsite.search(text):
                if wcheck == "no_ior" and self.tr.defines_dunder("__ior__"):
                    continue     # the stated reason does not hold on this tree: the site stays a mutation
                reason, finding = wreason, wfinding
                self.tr.used_wl.add(ri)
                break
        if reason is None:
            reason = self.auto_whitelist(kind, target_expr, site_node)
        if reason is not None:
            self.tr.whitelisted.append({"file": self.m.rel, "func": self.func.name, "group": self.g.name,
                                        "line": line, "site": text, "kind": kind, "reason": reason,
                                        "finding": finding})
            return
        alts = self.rhs_pure(target_expr) if target_expr is not None else [("unknown",)]
        if len(alts) == 1 and alts[0][0] == "alias":
            var = alts[0][1]
        else:
            var = self.newtmp(site_node)
            for a in alts:
                out.append(("bind", line, var, a))
            if len(alts) > 1:
                out.append(("multi",))
        out.append(("mut", line, kind, var))

    # ---- self-checking whitelist rules (the reason states what was checked on this run)
    def auto_whitelist(self, kind, target_expr, site_node):
        if isinstance(site_node, ast.expr) and getattr(site_node, "_deco", None) == "cached_property":
            return ("functools.cached_property stores the value of a method that only reads frozen data "
                    "(self._root, self._path) in the instance __dict__ on first use: memoisation, the visible "
                    "fields of the cursor are not touched")
        if isinstance(site_node, ast.expr) and getattr(site_node, "_deco", None) == "lru_cache":
            return ("functools cache of a method: add-only, keyed by the (hashable) arguments; the cache is not "
                    "reachable from any Procedure or cursor")
        r = self.global_cache_rule(kind, target_expr, site_node)
        if r:
            return r
        r = self.accumulator_rule(kind, target_expr, site_node)
        if r:
            return r
        return None

    def global_cache_rule(self, kind, target_expr, site_node):
        """`G[k] = v` directly under `if k not in G:` for a module-level dict G that is touched nowhere else"""
        if kind != "setitem" or not isinstance(site_node, ast.Assign) or not isinstance(target_expr, ast.Name):
            return None
        G = target_expr.id
        if self.resolve(G)[0] != "global" or len(site_node.targets) != 1:
            return None
        tgt = site_node.targets[0]
        par = getattr(site_node, "_parent", None)
        if not (isinstance(par, ast.If) and site_node in par.body and isinstance(par.test, ast.Compare)
                and len(par.test.ops) == 1 and isinstance(par.test.ops[0], ast.NotIn)
                and isinstance(par.test.comparators[0], ast.Name) and par.test.comparators[0].id == G
                and ast.dump(par.test.left) == ast.dump(tgt.slice)):
            return None
        # every other occurrence of G in the module: definition `G = dict()/{}`, `k [not] in G`, `G[k]` loads
        n_def = 0
        for n in ast.walk(self.m.tree):
            if isinstance(n, ast.Name) and n.id == G:
                pn = getattr(n, "_parent", None)
                if isinstance(n.ctx, ast.Store):
                    ok = (isinstance(pn, ast.Assign) and pn in self.m.tree.body and
                          norm(pn.value) in ("dict()", "{}", "WeakKeyDictionary()"))
                    n_def += 1
                    if not ok:
                        return None
                elif isinstance(pn, ast.Compare) and n in pn.comparators:
                    continue
                elif isinstance(pn, ast.Subscript) and pn.value is n:
                    if isinstance(pn.ctx, ast.Load):
                        continue
                    if isinstance(pn.ctx, ast.Store) and getattr(pn, "_parent", None) is site_node:
                        continue
                    return None
                else:
                    return None
        if n_def != 1:
            return None
        for rel, (txt, _) in self.tr.sources().items():
            if rel != self.m.rel and G in txt:
                return None
        return (f"add-only cache: `{G}` is a module-level dict whose only store under src/exo is this `{G}[k] = v` "
                f"directly under `if k not in {G}:`; every other use is a membership test or a lookup (checked "
                "syntactically on this run).  Entries are never replaced, removed or edited by the cache code; keys "
                "are frozen LoopIR.proc nodes hashed by id() (LoopIR.py: proc.__hash__) and kept alive by the dict, "
                "so an entry is only returned for the very proc it was computed from")

    def accumulator_rule(self, kind, target_expr, site_node):
        """a parameter that only the function's own recursion ever passes (an explicit accumulator)"""
        if not isinstance(target_expr, ast.Name) or self.sc is None:
            return None
        name = target_expr.id
        # the scope that owns the parameter
        s = self.sc
        while s is not None and name not in s.locals:
            s = s.parent
        if s is None or isinstance(s.node, (ast.Lambda, ast.GeneratorExp)):
            return None
        fn = s.node
        a = fn.args
        allp = [x.arg for x in a.posonlyargs + a.args]
        if name not in allp and name not in [x.arg for x in a.kwonlyargs]:
            return None
        # inside the function the name is rebound exactly by `name = name or <fresh>` (at least once)
        nreb = 0
        for n in walk_own(fn.body):
            if isinstance(n, ast.Name) and n.id == name and isinstance(n.ctx, ast.Store):
                pn = getattr(n, "_parent", None)
                if not (isinstance(pn, ast.Assign) and isinstance(pn.value, ast.BoolOp) and isinstance(pn.value.op, ast.Or)
                        and isinstance(pn.value.values[0], ast.Name) and pn.value.values[0].id == name
                        and self.rhs_pure(pn.value.values[1]) == [("fresh",)]):
                    return None
                nreb += 1
        if nreb == 0:
            return None
        idx = allp.index(name) if name in allp else None
        fname = fn.name
        passing, outside = 0, []
        for rel, (txt, tree) in self.tr.sources().items():
            if fname not in txt:
                continue
            same_file = (rel == self.m.rel)
            for n in ast.walk(tree):
                if isinstance(n, ast.Call):
                    f = n.func
                    nm = f.id if isinstance(f, ast.Name) else (f.attr if isinstance(f, ast.Attribute) else None)
                    if nm != fname:
                        continue
                    passes = any(k.arg == name or k.arg is None for k in n.keywords) or \
                        (idx is not None and (len(n.args) > idx or any(isinstance(x, ast.Starred) for x in n.args)))
                    if not passes:
                        continue
                    passing += 1
                    inside = same_file and fn.lineno <= n.lineno <= fn.end_lineno
                    # passed a brand-new container: `f(x, dict(), [])`
                    arg = None
                    if idx is not None and len(n.args) > idx:
                        arg = n.args[idx]
                    for k in n.keywords:
                        if k.arg == name:
                            arg = k.value
                    fresh_arg = arg is not None and isinstance(arg, (ast.List, ast.Dict, ast.Set, ast.Call)) and \
                        norm(arg) in ("[]", "{}", "set()", "dict()", "list()")
                    if not inside and not (same_file and fresh_arg):
                        outside.append((rel, n.lineno))
        if outside:
            return None
        return (f"accumulator parameter: `{name}` of {fname} is passed only by {fname}'s own recursive calls, or as a "
                f"brand-new empty container ({passing} passing call sites under src/exo, checked syntactically on this "
                "run); every outside caller leaves it at its default, so the object edited here was created by the "
                f"outermost activation (`{name} = {name} or <new>`)")

    def visit_effects(self, e, out):
        """post-order walk of an expression: mutator calls, walrus, comprehension targets"""
        if e is None:
            return
        if isinstance(e, SCOPE_NODES):
            # body is a separate function; defaults / first iterable are evaluated here
            if isinstance(e, ast.Lambda):
                for d in e.args.defaults:
                    self.visit_effects(d, out)
            elif isinstance(e, ast.GeneratorExp):
                self.visit_effects(e.generators[0].iter, out)
            return
        if isinstance(e, COMP_NODES):
            env = {}
            self.comp_env.append(env)
            inner = []
            for gi, gen in enumerate(e.generators):
                # the iterable is evaluated before the target is bound
                saved = dict(env)
                self.visit_effects(gen.iter, inner)
                for n in target_names(gen.target):
                    env[n] = f"{n}@{e.lineno}:{e.col_offset}"
                    inner.append(("bind", e.lineno, self.func.svar(env[n]), ("unknown",)))
                for c in gen.ifs:
                    self.visit_effects(c, inner)
            if isinstance(e, ast.DictComp):
                self.visit_effects(e.key, inner)
                self.visit_effects(e.value, inner)
            else:
                self.visit_effects(e.elt, inner)
            self.comp_env.pop()
            if any(s[0] in ("mut",) for s in inner) or any(s[0] == "walrus" for s in inner):
                inner.append(("multi",))
            out.extend(inner)
            return
        if isinstance(e, ast.NamedExpr):
            self.visit_effects(e.value, out)
            self.bind_target(e.target, self.rhs_pure(e.value), e, out)
            out.append(("walrus",))
            return
        if isinstance(e, ast.Call):
            f = e.func
            if isinstance(f, ast.Attribute):
                self.visit_effects(f.value, out)
            else:
                self.visit_effects(f, out)
            for a in e.args:
                self.visit_effects(a, out)
            for k in e.keywords:
                self.visit_effects(k.value, out)
            if isinstance(f, ast.Attribute) and f.attr in MUTATORS:
                self.mutator_call(e, f, out)
            return
        for c in ast.iter_child_nodes(e):
            if isinstance(c, ast.expr):
                self.visit_effects(c, out)
            elif isinstance(c, (ast.comprehension, ast.keyword)):
                for cc in ast.iter_child_nodes(c):
                    if isinstance(cc, ast.expr):
                        self.visit_effects(cc, out)

    def class_defines(self, name):
        if not self.cls:
            return False
        if self.ctx.cls_node is not None and self.ctx.prefix:
            for y in self.ctx.cls_node.body:
                if isinstance(y, (ast.FunctionDef, ast.AsyncFunctionDef)) and y.name == name:
                    return True
            todo = [b.attr if isinstance(b, ast.Attribute) else getattr(b, "id", None) for b in self.ctx.cls_node.bases]
        else:
            todo = [self.cls]
        names = []
        for t in todo:
            if t:
                names += self.tr.base_names(t)
        for cn in names:
            if cn in self.tr.all_classes:
                for y in self.tr.all_classes[cn][1].body:
                    if isinstance(y, (ast.FunctionDef, ast.AsyncFunctionDef)) and y.name == name:
                        return True
        return False

    def skip(self, node, rule):
        self.tr.skipped.append({"file": self.m.rel, "func": self.func.name, "line": getattr(node, "lineno", 0),
                                "site": norm(node)[:120], "rule": rule})

    def mutator_call(self, e, f, out):
        name = f.attr
        if name == "update" and not e.args:
            self.skip(e, "update(**kw) without positional argument: functional update of a frozen ADT node (attrs.evolve)")
            return
        if self.is_self(f.value) and self.class_defines(name):
            self.skip(e, f"self.{name}(): a method of the class itself (analysed as a function of the group)")
            return
        if isinstance(f.value, ast.Call) and isinstance(f.value.func, ast.Name) and f.value.func.id == "super":
            self.skip(e, "super().method(): a method of a base class (analysed as a function of the group)")
            return
        if isinstance(f.value, (ast.Constant, ast.JoinedStr)):
            self.skip(e, "method of a string constant")
            return
        self.site(MUTATORS[name], f.value, e, out)

    # ---- statements
    def bind_target(self, t, alts, node, out):
        line = getattr(node, "lineno", self.func.line)
        if isinstance(t, ast.Name):
            r = self.resolve(t.id)
            if r[0] == "var":
                for a in alts:
                    out.append(("bind", line, r[1], a))
                if len(alts) != 1:
                    out.append(("multi",))
            else:
                # assignment to a name declared `global`: the module namespace is edited
                self.site("setattr", None, node, out, text="global " + norm(node)[:100])
        elif isinstance(t, (ast.Tuple, ast.List)):
            for el in t.elts:
                if isinstance(el, ast.Starred):
                    self.bind_target(el.value, [("fresh",)], node, out)
                else:
                    self.bind_target(el, [("unknown",)], node, out)
            out.append(("multi",))
        elif isinstance(t, ast.Attribute):
            self.visit_effects(t.value, out)
            if self.is_self(t.value):
                # self.attr = v : edits the receiver; and binds the field
                self.site("setattr", t.value, node, out)
                if self.fields_visible:
                    fv = self.g.wvar(self.prefix + "self." + t.attr)
                    for a in alts:
                        out.append(("bind", line, fv, a))
            else:
                self.site("setattr", t.value, node, out)
        elif isinstance(t, ast.Subscript):
            self.visit_effects(t.value, out)
            self.visit_effects(t.slice, out)
            self.site("setitem", t.value, node, out)
        elif isinstance(t, ast.Starred):
            self.bind_target(t.value, [("fresh",)], node, out)

    def scalar_rhs(self, v):
        """the right operand of an augmented assignment cannot be a list / set / dict"""
        if isinstance(v, ast.Constant) and isinstance(v.value, (int, float, str, bytes, complex)) and not isinstance(v.value, bool):
            return True
        if isinstance(v, ast.JoinedStr):
            return True
        if isinstance(v, ast.Call) and isinstance(v.func, ast.Name) and v.func.id in ("len", "int", "str", "float", "repr", "abs", "sum"):
            return True
        if isinstance(v, ast.UnaryOp):
            return self.scalar_rhs(v.operand)
        return False

    def simple_stmt(self, st):
        """-> list of mini statements (with markers) for one simple statement"""
        out = []
        if isinstance(st, ast.Assign):
            alts = self.rhs(st.value, out)
            if len(st.targets) == 1 and isinstance(st.targets[0], (ast.Tuple, ast.List)) and \
                    isinstance(st.value, (ast.Tuple, ast.List)) and len(st.targets[0].elts) == len(st.value.elts) and \
                    not any(isinstance(x, ast.Starred) for x in st.targets[0].elts + st.value.elts):
                for t, v in zip(st.targets[0].elts, st.value.elts):
                    self.bind_target(t, self.rhs_pure(v), st, out)
                out.append(("multi",))
            else:
                for t in st.targets:
                    self.bind_target(t, alts, st, out)
                if len(st.targets) > 1:
                    out.append(("multi",))
        elif isinstance(st, ast.AnnAssign):
            if st.value is not None:
                alts = self.rhs(st.value, out)
                self.bind_target(st.target, alts, st, out)
        elif isinstance(st, ast.AugAssign):
            self.visit_effects(st.value, out)
            t = st.target
            inplace = isinstance(st.op, INPLACE_OPS) and not self.scalar_rhs(st.value)
            if not inplace:
                self.skip(st, "augmented assignment with a scalar operand / an operator without in-place list, set or dict form: rebinds, does not edit")
            if isinstance(t, ast.Name):
                if inplace:
                    self.site("iadd", t, st, out)
                r = self.resolve(t.id)
                if r[0] == "var":
                    # for an immutable left operand the name is rebound to a new value
                    out.append(("bind", st.lineno, r[1], ("fresh",)))
                    out.append(("weakbind",))
                else:
                    self.site("setattr", None, st, out, text="global " + norm(st)[:100])
            elif isinstance(t, ast.Attribute):
                self.visit_effects(t.value, out)
                if inplace:
                    self.site("iadd", t, st, out)
                self.site("setattr", t.value, st, out, text=norm(st) + "  [attribute store]")
                if self.is_self(t.value) and self.fields_visible:
                    out.append(("bind", st.lineno, self.g.wvar(self.prefix + "self." + t.attr), ("fresh",)))
            elif isinstance(t, ast.Subscript):
                self.visit_effects(t.value, out)
                self.visit_effects(t.slice, out)
                if inplace:
                    self.site("iadd", t, st, out, text=norm(st) + "  [element]")
                self.site("setitem", t.value, st, out)
        elif isinstance(st, ast.Delete):
            for t in st.targets:
                if isinstance(t, ast.Subscript):
                    self.visit_effects(t.value, out)
                    self.visit_effects(t.slice, out)
                    self.site("delitem", t.value, st, out)
                elif isinstance(t, ast.Attribute):
                    self.visit_effects(t.value, out)
                    self.site("setattr", t.value, st, out)
                elif isinstance(t, ast.Name):
                    r = self.resolve(t.id)
                    if r[0] != "var" and not self.module_level and not self.class_body:
                        self.site("setattr", None, st, out, text="global " + norm(st))
        elif isinstance(st, (ast.Expr, ast.Return)):
            if st.value is not None:
                self.visit_effects(st.value, out)
        elif isinstance(st, ast.Raise):
            self.visit_effects(st.exc, out)
            self.visit_effects(st.cause, out)
        elif isinstance(st, ast.Assert):
            self.visit_effects(st.test, out)
            self.visit_effects(st.msg, out)
        elif isinstance(st, (ast.Import, ast.ImportFrom)):
            for al in st.names:
                nm = (al.asname or al.name).split(".")[0]
                r = self.resolve(nm)
                if r[0] == "var":
                    out.append(("bind", st.lineno, r[1], ("unknown",)))
        elif isinstance(st, (ast.FunctionDef, ast.AsyncFunctionDef)):
            for d in st.decorator_list + st.args.defaults + [x for x in st.args.kw_defaults if x is not None]:
                self.visit_effects(d, out)
            r = self.resolve(st.name)
            if r[0] == "var":
                out.append(("bind", st.lineno, r[1], ("fresh",)))
        elif isinstance(st, ast.ClassDef):
            r = self.resolve(st.name)
            if r[0] == "var":
                out.append(("bind", st.lineno, r[1], ("fresh",)))
        elif isinstance(st, (ast.Pass, ast.Break, ast.Continue, ast.Global, ast.Nonlocal)):
            pass
        else:
            # a statement kind this translator does not know: every name it could bind becomes unknown
            self.skip(st, f"unsupported statement kind {type(st).__name__}: names bound as unknown")
            for n in ast.walk(st):
                if isinstance(n, ast.Name) and isinstance(n.ctx, ast.Store):
                    r = self.resolve(n.id)
                    if r[0] == "var":
                        out.append(("bind", getattr(st, "lineno", self.func.line), r[1], ("unknown",)))
            out.append(("multi",))
        return out

    def compound_stmts(self, st, out):
        """all mini statements inside a compound statement (flattened)"""
        if isinstance(st, (ast.If, ast.While)):
            self.visit_effects(st.test, out)
            for x in st.body + st.orelse:
                self.any_stmt(x, out)
        elif isinstance(st, (ast.For, ast.AsyncFor)):
            self.visit_effects(st.iter, out)
            self.bind_target(st.target, [("unknown",)], st, out)
            for x in st.body + st.orelse:
                self.any_stmt(x, out)
        elif isinstance(st, (ast.With, ast.AsyncWith)):
            for it in st.items:
                self.visit_effects(it.context_expr, out)
                if it.optional_vars is not None:
                    self.bind_target(it.optional_vars, [("unknown",)], st, out)
            for x in st.body:
                self.any_stmt(x, out)
        elif isinstance(st, ast.Try) or type(st).__name__ == "TryStar":
            for x in st.body + st.orelse + st.finalbody:
                self.any_stmt(x, out)
            for h in st.handlers:
                self.visit_effects(h.type, out)
                if h.name:
                    r = self.resolve(h.name)
                    if r[0] == "var":
                        out.append(("bind", h.lineno, r[1], ("fresh",)))
                for x in h.body:
                    self.any_stmt(x, out)
        elif isinstance(st, ast.Match):
            self.visit_effects(st.subject, out)
            for c in st.cases:
                for n in ast.walk(c.pattern):
                    nm = getattr(n, "name", None)
                    if isinstance(nm, str):
                        r = self.resolve(nm)
                        if r[0] == "var":
                            out.append(("bind", c.pattern.lineno, r[1], ("unknown",)))
                self.visit_effects(c.guard, out)
                for x in c.body:
                    self.any_stmt(x, out)
        else:
            self.skip(st, f"unsupported compound statement {type(st).__name__}")
            for x in ast.iter_child_nodes(st):
                if isinstance(x, ast.stmt):
                    self.any_stmt(x, out)

    COMPOUND = (ast.If, ast.While, ast.For, ast.AsyncFor, ast.With, ast.AsyncWith, ast.Try, ast.Match)

    def any_stmt(self, st, out):
        if isinstance(st, self.COMPOUND) or type(st).__name__ == "TryStar":
            self.compound_stmts(st, out)
        else:
            out.extend(self.simple_stmt(st))

    @staticmethod
    def clean(stmts):
        return [s for s in stmts if s[0] in ("bind", "mut")]

    def emit_block(self, body):
        if self.sc is None:
            self.pending_children = list(body)
        if self.class_body:
            self.class_locals = set()
            for st in body:
                for y in walk_own([st]):
                    if isinstance(y, ast.Name) and isinstance(y.ctx, ast.Store):
                        self.class_locals.add(y.id)
        track = self.sc is not None and isinstance(self.sc.node, (ast.FunctionDef, ast.AsyncFunctionDef)) \
            and body is self.sc.node.body
        for bi, st in enumerate(body):
            if track:
                # hand the value of a so far private local over to the shared variable at the first
                # statement that creates a closure over it
                for name in sorted(k for k, v in self.capture_pos.items() if v == bi):
                    if name in self.func.strong:
                        self.func.items.append(("top", ("bind", st.lineno, self.g.wvar(f"{self.sc.qual}.{name}"),
                                                        ("alias", ("s", self.func.strong[name])))))
                self.cur_index = bi
            if isinstance(st, self.COMPOUND) or type(st).__name__ == "TryStar":
                out = []
                self.compound_stmts(st, out)
                ss = self.clean(out)
                if ss:
                    self.func.items.append(("soup", ss))
            else:
                out = self.simple_stmt(st)
                ss = self.clean(out)
                if not ss:
                    continue
                markers = {s[0] for s in out if s[0] not in ("bind", "mut")}
                nbind_named = sum(1 for s in ss if s[0] == "bind")
                if "multi" in markers or "walrus" in markers:
                    self.func.items.append(("soup", ss))
                elif "weakbind" in markers:
                    # `x op= v`: the mutation (if any) first, then the possible rebinding as a join
                    for s in ss[:-1]:
                        self.func.items.append(("top", s))
                    self.func.items.append(("soup", [ss[-1]]))
                else:
                    for s in ss:
                        self.func.items.append(("top", s))

    def emit_scope(self):
        sc = self.sc
        n = sc.node
        line = n.lineno
        if isinstance(n, ast.GeneratorExp):
            env = {}
            out = []
            for gi, gen in enumerate(n.generators):
                if gi > 0:
                    self.visit_effects(gen.iter, out)
                self.bind_target(gen.target, [("unknown",)], n, out)
                for c in gen.ifs:
                    self.visit_effects(c, out)
            self.visit_effects(n.elt, out)
            ss = self.clean(out)
            if ss:
                self.func.items.append(("soup", ss))
            return
        a = n.args
        params = [x.arg for x in a.posonlyargs + a.args + a.kwonlyargs]
        if isinstance(n, (ast.FunctionDef, ast.AsyncFunctionDef)):
            for bi, st in enumerate(n.body):
                for c in scopes_in(sc, st):
                    for name in free_names(c):
                        if name in sc.captured and name in sc.locals:
                            self.capture_pos.setdefault(name, bi)
            self.cur_index = -1
        for i, p in enumerate(params):
            r = self.resolve(p)
            origin = ("param",)
            if sc is self.self_scope and p == self.selfname and i == 0 and self.self_fresh:
                origin = ("fresh",)
            self.func.items.append(("top", ("bind", line, r[1], origin)))
        for extra in (a.vararg, a.kwarg):
            if extra is not None:
                # *args / **kwargs are a new tuple / dict made by the call
                self.func.items.append(("top", ("bind", line, self.resolve(extra.arg)[1], ("fresh",))))
        if isinstance(n, ast.Lambda):
            out = []
            self.visit_effects(n.body, out)
            ss = self.clean(out)
            markers = {s[0] for s in out if s[0] not in ("bind", "mut")}
            if ss:
                if markers:
                    self.func.items.append(("soup", ss))
                else:
                    for s in ss:
                        self.func.items.append(("top", s))
            return
        # decorators that hide a cache
        for d in n.decorator_list:
            dn = norm(d)
            if "cached_property" in dn:
                out = []
                d._deco = "cached_property"
                self.site("setattr", ast.Name(id=self.selfname or "self", ctx=ast.Load()), d, out,
                          text=f"@{dn} def {n.name}")
                for s in self.clean(out):
                    self.func.items.append(("top", s))
            elif "lru_cache" in dn or dn.endswith("functools.cache") or dn == "cache":
                out = []
                d._deco = "lru_cache"
                self.site("setitem", None, d, out, text=f"@{dn} def {n.name}")
                for s in self.clean(out):
                    self.func.items.append(("top", s))
        self.emit_block(n.body)


# ------------------------------------------------------------------------------------ output
KINDS = ["setitem", "delitem", "append", "extend", "insert", "pop", "remove", "sort", "reverse", "iadd", "clear", "setattr"]


def lean_str(s):
    return '"' + s.replace("\\", "\\\\").replace('"', '\\"').replace("\n", " ") + '"'


def lean_var(v):
    return f"(Var.{v[0]} {v[1]})"


def lean_rhs(r):
    if r[0] == "alias":
        return f"(Rhs.alias {lean_var(r[1])})"
    return "Rhs." + r[0]


def lean_stmt(s):
    if s[0] == "bind":
        return f"Stmt.bind {s[1]} {lean_var(s[2])} {lean_rhs(s[3])}"
    return f"Stmt.mutate {s[1]} MutKind.{s[2]} {lean_var(s[3])}"


def lean_item(it):
    if it[0] == "top":
        return f"Item.top ({lean_stmt(it[1])})"
    return "Item.soup [" + ", ".join(lean_stmt(s) for s in it[1]) + "]"


def relevant(g: GroupT):
    """a group without any mutation statement holds trivially; it is still emitted (the table is the
    whole translation) unless it is completely empty"""
    return any(f.items for f in g.funcs)


def render(tr: Translator) -> str:
    L = []
    L.append("/-")
    L.append("  GENERATED by harness/translate/pymut.py on every run of ./check C07 -- do not edit.")
    L.append("  Heap-relevant statements of every function of:")
    for rel in FILES:
        L.append(f"    src/exo/{rel}")
    L.append("  in the mini heap language of ExoModel/PyHeap.lean; `whitelist` lists the mutation sites that")
    L.append("  are NOT part of the table, each with the reason it is accepted.")
    L.append("-/")
    L.append("import ExoModel.PyHeap")
    L.append("set_option maxRecDepth 100000")
    L.append("namespace Exo.Gen.PyMut")
    L.append("open Exo.PyHeap")
    L.append("")
    names = []
    gi = 0
    fdefs = {}     # rendered function -> def name (identical functions of different groups are shared)
    for g in tr.groups:
        if not relevant(g):
            continue
        nm = f"g{gi}"
        gi += 1
        names.append(nm)
        weak = [k for k, _ in sorted(g.weak.items(), key=lambda kv: kv[1])]
        fl = []
        for f in g.funcs:
            if not f.items:
                continue
            strong = [k for k, _ in sorted(f.strong.items(), key=lambda kv: kv[1])]
            s = f"Func.mk {lean_str(f.name)} {f.line} [" + ", ".join(lean_str(x) for x in strong) + "] [\n    "
            s += ",\n    ".join(lean_item(it) for it in f.items)
            s += "]"
            if s not in fdefs:
                fdefs[s] = f"f{len(fdefs)}"
                L.append(f"def {fdefs[s]} : Func := {s}")
            fl.append(fdefs[s])
        L.append(f"/-- {g.file} :: {g.name}" + (f"   [ephemeral: {g.ephemeral}]" if getattr(g, "ephemeral", None) else "") + " -/")
        L.append(f"def {nm} : Group := Group.mk {lean_str(g.name)} {lean_str(g.file)} [" + ", ".join(lean_str(w) for w in weak) + "] [" + ", ".join(fl) + "]")
        L.append("")
    L.append("def functions : List Group := [" + ", ".join(names) + "]")
    L.append("")
    L.append("/-- (file, function, line, site, reason): mutation sites accepted without the analysis -/")
    L.append("def whitelist : List (String × String × Nat × String × String) := [")
    wl = sorted(tr.whitelisted, key=lambda w: (FILES.index(w["file"]), w["line"], w["func"], w["site"], w["group"]))
    seen = set()
    rows = []
    for w in wl:
        k = (w["file"], w["func"], w["line"], w["site"])
        if k in seen:
            continue
        seen.add(k)
        rows.append(f"  ({lean_str(w['file'])}, {lean_str(w['func'])}, {w['line']}, {lean_str(w['site'][:160])}, {lean_str(w['reason'])})")
    L.append(",\n".join(rows) + "]")
    L.append("")
    L.append("end Exo.Gen.PyMut")
    return "\n".join(L) + "\n"


# ------------------------------------------------------------------------------------ python mirror (diagnostics only)
def _le(a, b):
    return a == "fresh" or b != "fresh"


def _join(a, b):
    return b if a == "fresh" else a


def mirror_failures(tr: Translator):
    """the same analysis as Exo.PyHeap.Group.failures, in Python -- used ONLY to print readable
    diagnostics while developing and cross-checked against the Lean driver by harness/props/c07.py"""
    fails = []
    for g in tr.groups:
        if not relevant(g):
            continue
        nweak = len(g.weak)

        def look(T, sg, v):
            arr = sg if v[0] == "s" else T
            return arr[v[1]] if v[1] < len(arr) else "unknown"

        def ev(T, sg, r):
            return look(T, sg, r[1]) if r[0] == "alias" else r[0]

        def stabilize(T, sg, ss):
            sg = list(sg)
            for _ in range(len(sg) + 1):
                new = list(sg)
                for s in ss:
                    if s[0] == "bind" and s[2][0] == "s":
                        n = s[2][1]
                        new[n] = _join(new[n], ev(T, new, s[3]))
                if new == sg:
                    return sg
                sg = new
            return sg

        def run(T, collect):
            out = []
            for f in g.funcs:
                if not f.items:
                    continue
                sg = ["fresh"] * len(f.strong)

                def one(s, sg, inside):
                    if s[0] == "bind":
                        o = ev(T, sg, s[3])
                        if s[2][0] == "s":
                            if not inside:
                                sg[s[2][1]] = o
                        else:
                            if collect:
                                T[s[2][1]] = _join(T[s[2][1]], o)
                            elif not _le(o, T[s[2][1]]):
                                out.append((g, f, s, o))
                    else:
                        o = look(T, sg, s[3])
                        if o != "fresh" and not collect:
                            out.append((g, f, s, o))
                for it in f.items:
                    if it[0] == "top":
                        one(it[1], sg, False)
                    else:
                        sg = stabilize(T, sg, it[1])
                        for s in it[1]:
                            one(s, sg, True)
            return out

        T = ["fresh"] * nweak
        for _ in range(2 * nweak + 2):
            old = list(T)
            run(T, True)
            if T == old:
                break
        for (g_, f, s, o) in run(T, False):
            names = {v: k for k, v in f.strong.items()}
            wn = {v: k for k, v in g.weak.items()}
            v = s[2] if s[0] == "bind" else s[3]
            vn = names.get(v[1]) if v[0] == "s" else wn.get(v[1])
            fails.append({"group": g.name, "file": g.file, "func": f.name, "line": s[1],
                          "what": "bind" if s[0] == "bind" else f"mut {s[2]}", "var": vn, "origin": o})
    return fails


def translate(import_modules=True):
    return Translator(import_modules=import_modules).run()


def write(tr, out_path=None):
    out_path = Path(out_path or (ROOT / "lean" / "ExoModel" / "Gen" / "PyMut.lean"))
    text = render(tr)
    out_path.parent.mkdir(parents=True, exist_ok=True)
    if not out_path.exists() or out_path.read_text() != text:
        out_path.write_text(text)
    return text


def main(argv=None):
    import argparse
    ap = argparse.ArgumentParser()
    ap.add_argument("--out", default=None)
    ap.add_argument("--report", action="store_true")
    ap.add_argument("--no-write", action="store_true")
    a = ap.parse_args(argv)
    tr = translate()
    if not a.no_write:
        write(tr, a.out)
    fails = mirror_failures(tr)
    ng = sum(1 for g in tr.groups if relevant(g))
    nf = sum(1 for g in tr.groups for f in g.funcs if f.items)
    nst = sum(len(it[1]) if it[0] == "soup" else 1 for g in tr.groups for f in g.funcs for it in f.items)
    print(f"groups={ng} functions={nf} statements={nst} sites={tr.nsites} whitelisted={len(tr.whitelisted)} "
          f"skipped={len(tr.skipped)} failing={len(fails)}")
    if a.report:
        srcs = {rel: m.src.splitlines() for rel, m in tr.mods.items()}
        seen = set()
        for f in fails:
            k = (f["file"], f["line"], f["what"], f["var"])
            if k in seen:
                continue
            seen.add(k)
            # the file of the line may be a base class's file; find it by function name
            print(f"{f['file']}:{f['line']} [{f['group']} :: {f['func']}] {f['what']} {f['var']} <- {f['origin']}")
        for ri, r in enumerate(WHITELIST):
            if ri not in tr.used_wl:
                print("STALE whitelist entry:", r[:3])


if __name__ == "__main__":
    main()
