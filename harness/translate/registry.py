"""Translator: ast of REPO/src/exo/API_scheduling.py + stdlib/*.py + API.py -> lean/ExoModel/Gen/Registry.lean  (C01)

Regenerated on every run of the C01 check (rewritten only when the content changed).

C01 quantifies over "any primitive, or any composition of primitives such as the standard-library
schedules".  The theorems cover compositions by transitivity (`equiv_trans`, `equiv_chain`); what ties
that to the code is the fact extracted here:

  * `primitives`      every function of API_scheduling.py decorated with `@sched_op(...)` — the only
                      functions of the scheduling API that build a new LoopIR and wrap it into a Procedure
                      (through `Procedure(ir, _provenance_eq_Procedure=..., _forward=...)`)
  * `ctorSites`       every place OUTSIDE API.py / API_scheduling.py (i.e. in stdlib/*.py) that calls the
                      `Procedure` constructor, `Procedure.__new__`, `copy`/`deepcopy`/`replace` on something,
                      or `object.__setattr__`
  * `privateWrites`   every assignment / augmented assignment / `setattr` / `del` in stdlib/*.py whose target
                      is an attribute named `_loopir_proc`, `_provenance_eq_Procedure`, `_forward`,
                      `_mod_config` (the private state of a Procedure)
  * `stdlibFunctions` (function, callee names) for the record: which primitives each stdlib function uses

If `ctorSites = []` and `privateWrites = []` (obligations discharged by `decide` in
Props/C01Registry.lean), every Procedure a stdlib function returns is an argument, the result of a
primitive, of another stdlib function, or of a Procedure method (rename / partial_eval / transpose /
add_assertion / … — those are C19's subject); by induction on the call tree it is the end of a finite
chain of primitive steps, to which `equiv_chain` applies.

`apiCtorSites` lists, for review, the functions of API_scheduling.py that call `Procedure(` directly
without being a `@sched_op`: expected to be only helpers used BY primitives.
"""
from __future__ import annotations

import ast
from pathlib import Path

from common import LEAN, REPO

OUT = LEAN / "ExoModel" / "Gen" / "Registry.lean"
PRIVATE = {"_loopir_proc", "_provenance_eq_Procedure", "_forward", "_mod_config"}
CTOR_NAMES = {"Procedure"}
COPY_NAMES = {"deepcopy", "copy", "__new__", "__setattr__", "evolve"}


def _q(s):
    return '"' + s.replace("\\", "\\\\").replace('"', '\\"') + '"'


def _lst(xs):
    return "[" + ", ".join(xs) + "]"


def _callee_name(f):
    if isinstance(f, ast.Name):
        return f.id
    if isinstance(f, ast.Attribute):
        return f.attr
    return None


def _is_sched_op(dec):
    d = dec.func if isinstance(dec, ast.Call) else dec
    return isinstance(d, ast.Name) and d.id == "sched_op"


def scan_api(path):
    tree = ast.parse(path.read_text())
    prims, ctor_helpers = [], []
    for n in ast.walk(tree):
        if isinstance(n, (ast.FunctionDef, ast.AsyncFunctionDef)):
            is_prim = any(_is_sched_op(d) for d in n.decorator_list)
            if is_prim:
                prims.append(n.name)
            elif any(isinstance(c, ast.Call) and _callee_name(c.func) in CTOR_NAMES for c in ast.walk(n)):
                ctor_helpers.append(n.name)
    return sorted(set(prims)), sorted(set(ctor_helpers))


def scan_stdlib(path, rel):
    tree = ast.parse(path.read_text())
    ctor, priv, funs = [], [], []

    def site(fn, node, what):
        return f"{rel}:{fn}:{node.lineno}:{what}"

    def visit_fn(fn_node, qual):
        calls = set()
        for c in ast.walk(fn_node):
            if isinstance(c, ast.Call):
                nm = _callee_name(c.func)
                if nm:
                    calls.add(nm)
                if nm in CTOR_NAMES:
                    ctor.append(site(qual, c, "Procedure(...)"))
                if nm in ("__new__", "__setattr__") or (nm in ("deepcopy",) ):
                    ctor.append(site(qual, c, nm))
                if nm == "setattr" and len(c.args) >= 2 and isinstance(c.args[1], ast.Constant) and c.args[1].value in PRIVATE:
                    priv.append(site(qual, c, f"setattr {c.args[1].value}"))
            tgts = []
            if isinstance(c, ast.Assign):
                tgts = c.targets
            elif isinstance(c, (ast.AugAssign, ast.AnnAssign)):
                tgts = [c.target]
            elif isinstance(c, ast.Delete):
                tgts = c.targets
            for t in tgts:
                for a in ast.walk(t):
                    if isinstance(a, ast.Attribute) and a.attr in PRIVATE:
                        priv.append(site(qual, c, f"write {a.attr}"))
        funs.append((f"{rel}:{qual}", sorted(calls)))

    for n in tree.body:
        if isinstance(n, (ast.FunctionDef, ast.AsyncFunctionDef)):
            visit_fn(n, n.name)
        elif isinstance(n, ast.ClassDef):
            for m in n.body:
                if isinstance(m, (ast.FunctionDef, ast.AsyncFunctionDef)):
                    visit_fn(m, f"{n.name}.{m.name}")
    # module-level statements
    mod_level = ast.Module(body=[s for s in tree.body if not isinstance(s, (ast.FunctionDef, ast.AsyncFunctionDef, ast.ClassDef))], type_ignores=[])
    visit_fn(mod_level, "<module>")
    return ctor, priv, funs


def generate():
    src = REPO / "src" / "exo"
    prims, helpers = scan_api(src / "API_scheduling.py")
    ctor, priv, funs = [], [], []
    for p in sorted((src / "stdlib").glob("*.py")):
        c, w, f = scan_stdlib(p, f"stdlib/{p.name}")
        ctor += c
        priv += w
        funs += f
    pset = set(prims)
    lines = [
        "/- GENERATED by harness/translate/registry.py from REPO/src/exo/API_scheduling.py and stdlib/*.py — do not edit -/",
        "namespace Exo.Gen.Registry",
        "",
        "/-- functions decorated with `@sched_op` (the scheduling primitives) -/",
        "def primitives : List String := " + _lst(_q(p) for p in prims),
        "",
        "/-- non-primitive functions of API_scheduling.py that call the `Procedure` constructor (for review) -/",
        "def apiCtorHelpers : List String := " + _lst(_q(p) for p in helpers),
        "",
        "/-- places in stdlib/*.py that construct / copy a Procedure object without going through a primitive -/",
        "def ctorSites : List String := " + _lst(_q(p) for p in ctor),
        "",
        "/-- places in stdlib/*.py that write the private state of a Procedure -/",
        "def privateWrites : List String := " + _lst(_q(p) for p in priv),
        "",
        "/-- (stdlib function, primitives it calls by name) -/",
        "def stdlibFunctions : List (String × List String) := [",
        ",\n".join("  (" + _q(f) + ", " + _lst(_q(c) for c in cs if c in pset) + ")" for f, cs in funs),
        "]",
        "",
        "end Exo.Gen.Registry",
        "",
    ]
    text = "\n".join(lines)
    OUT.parent.mkdir(parents=True, exist_ok=True)
    if not OUT.exists() or OUT.read_text() != text:
        OUT.write_text(text)
    return {"primitives": prims, "apiCtorHelpers": helpers, "ctorSites": ctor, "privateWrites": priv,
            "stdlibFunctions": len(funs)}


if __name__ == "__main__":
    import json
    print(json.dumps(generate(), indent=1))
