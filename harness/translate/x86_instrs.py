"""Translator for C14: live objects of `exo.platforms.x86`  ->  lean/ExoModel/Gen/X86Instrs.lean.

For every `Procedure` of the module that carries an `instr`:
  * `proc`   the exported specification (harness/export_ir.py JSON) printed as a Lean term of type
             `Exo.Proc` (symbols renumbered per procedure, so the text is deterministic)
  * `kinds`  how each formal lives in C (register vector with its lane count / memory window with
             its element width / scalar / control), from the formal's type and memory annotation
  * `cinstr` the `c_instr` FORMAT STRING parsed into `Exo.X86.CStmt`s: placeholders `{x_data}`,
             `&{x_data}`, `{x}` become references to the formal `x`; intrinsic names become
             constructors of `Exo.X86.Intr` when X86.lean declares one, `.unknown "name"` otherwise;
             a statement the parser cannot parse becomes `.opaque "<text>"` (counted in `nOpaque`)
  * `lane`   the `Lane.LaneLoop` the body is an instance of, if the recogniser finds one (Lean
             re-checks it by `rfl` in Props/C14.lean; nothing is trusted here)

run as a script:  x86_instrs.py            regenerate (prints a coverage summary)
                  x86_instrs.py --accept   also refresh the baseline copy used to tell a mutated
                                           library from the committed one
"""
from __future__ import annotations

import hashlib
import json
import re
import sys
from pathlib import Path

HERE = Path(__file__).resolve().parent
sys.path.insert(0, str(HERE.parent))

from common import LEAN, import_exo  # noqa: E402
import export_ir  # noqa: E402

OUT = LEAN / "ExoModel" / "Gen" / "X86Instrs.lean"
BASELINE = HERE / "x86_instrs_baseline.json"
BASELINE_TEXT = HERE / "x86_instrs_baseline.lean.txt"
X86_LEAN = LEAN / "ExoModel" / "X86.lean"


# ----------------------------------------------------------------------------- instructions
def list_instrs(exo):
    import exo.platforms.x86 as x86
    from exo import Procedure

    out = []
    for k, v in vars(x86).items():
        if isinstance(v, Procedure) and v.INTERNAL_proc().instr is not None:
            out.append((k, v))
    return out


def known_intrinsics():
    src = X86_LEAN.read_text()
    m = re.search(r"inductive Intr\b(.*?)\bderiving", src, re.S)
    names = re.findall(r"\|\s*([A-Za-z_][A-Za-z0-9_]*)", m.group(1))
    return {n for n in names if n != "unknown"}


# ----------------------------------------------------------------------------- symbol renumbering
def renumber(pj):
    """canonical ids: formals first, then first occurrence in preds/body"""
    table = {}

    def s(sym):
        k = tuple(sym)
        if k not in table:
            table[k] = len(table)
        return [sym[0], table[k]]

    def e(x):
        t = x[0]
        if t == "read":
            return ["read", s(x[1]), [e(i) for i in x[2]]]
        if t in ("int", "bool", "data", "readcfg"):
            return x
        if t == "usub":
            return ["usub", e(x[1])]
        if t == "binop":
            return ["binop", x[1], e(x[2]), e(x[3])]
        if t == "extern":
            return ["extern", x[1], [e(a) for a in x[2]]]
        if t == "win":
            return ["win", s(x[1]), [(["pt", e(w[1])] if w[0] == "pt" else ["iv", e(w[1]), e(w[2])]) for w in x[2]]]
        if t == "stride":
            return ["stride", s(x[1]), x[2]]
        raise ValueError(t)

    def st(x):
        t = x[0]
        if t in ("assign", "reduce"):
            return [t, s(x[1]), [e(i) for i in x[2]], e(x[3])]
        if t == "writecfg":
            return [t, x[1], x[2], e(x[3]), x[4]]
        if t == "pass":
            return x
        if t == "if":
            return [t, e(x[1]), [st(y) for y in x[2]], [st(y) for y in x[3]]]
        if t == "for":
            it = s(x[1])
            return [t, it, e(x[2]), e(x[3]), [st(y) for y in x[4]], x[5]]
        if t == "alloc":
            return [t, s(x[1]), [e(h) for h in x[2]]]
        if t == "free":
            return [t, s(x[1])]
        if t == "call":
            return [t, renumber(x[1]), [e(a) for a in x[2]]]
        if t == "window":
            return [t, s(x[1]), e(x[2])]
        raise ValueError(t)

    args = [[s(a[0]), a[1]] for a in pj["args"]]
    args = [[a[0], (["tensor", [e(h) for h in a[1][1]], a[1][2]] if a[1][0] == "tensor" else a[1])] for a in args]
    return {"name": pj["name"], "args": args, "preds": [e(p) for p in pj["preds"]], "body": [st(x) for x in pj["body"]]}


# ----------------------------------------------------------------------------- Lean printer
def lstr(s):
    return '"' + s.replace("\\", "\\\\").replace('"', '\\"').replace("\n", "\\n").replace("\t", "\\t") + '"'


def lint(n):
    return str(n) if n >= 0 else f"({n})"


def lsym(s):
    return f"⟨{lstr(s[0])}, {s[1]}⟩"


def llist(xs):
    return "[" + ", ".join(xs) + "]"


BINOP = {"+": "add", "-": "sub", "*": "mul", "/": "div", "%": "mod", "<": "lt", ">": "gt", "<=": "le",
         ">=": "ge", "==": "eq", "and": "and", "or": "or"}


def lexpr(x):
    t = x[0]
    if t == "read":
        return f"(.read {lsym(x[1])} {llist([lexpr(i) for i in x[2]])})"
    if t == "int":
        return f"(.lit (.int {lint(x[1])}))"
    if t == "bool":
        return f"(.lit (.bool {'true' if x[1] else 'false'}))"
    if t == "data":
        return f"(.lit (.data {lint(x[1])} {x[2]}))"
    if t == "usub":
        return f"(.usub {lexpr(x[1])})"
    if t == "binop":
        return f"(.binop .{BINOP[x[1]]} {lexpr(x[2])} {lexpr(x[3])})"
    if t == "extern":
        return f"(.extern {lstr(x[1])} {llist([lexpr(a) for a in x[2]])})"
    if t == "win":
        accs = [(f"(.point {lexpr(w[1])})" if w[0] == "pt" else f"(.interval {lexpr(w[1])} {lexpr(w[2])})") for w in x[2]]
        return f"(.win {lsym(x[1])} {llist(accs)})"
    if t == "stride":
        return f"(.stride {lsym(x[1])} {x[2]})"
    if t == "readcfg":
        return f"(.readcfg {lstr(x[1])} {lstr(x[2])})"
    raise ValueError(t)


def lstmt(x, ind):
    t = x[0]
    pad = "  " * ind
    if t in ("assign", "reduce"):
        return f"{pad}.{t} {lsym(x[1])} {llist([lexpr(i) for i in x[2]])} {lexpr(x[3])}"
    if t == "writecfg":
        return f"{pad}.writecfg {lstr(x[1])} {lstr(x[2])} {lexpr(x[3])} {'true' if x[4] else 'false'}"
    if t == "pass":
        return f"{pad}.pass"
    if t == "if":
        return f"{pad}.ite {lexpr(x[1])}\n{lstmts(x[2], ind + 1)}\n{lstmts(x[3], ind + 1)}"
    if t == "for":
        return (f"{pad}.loop {lsym(x[1])} {lexpr(x[2])} {lexpr(x[3])}\n{lstmts(x[4], ind + 1)} "
                f"{'true' if x[5] else 'false'}")
    if t == "alloc":
        return f"{pad}.alloc {lsym(x[1])} {llist([lexpr(h) for h in x[2]])}"
    if t == "free":
        return f"{pad}.free {lsym(x[1])}"
    if t == "call":
        return f"{pad}.call\n{lproc(x[1], ind + 1)}\n{pad}  {llist([lexpr(a) for a in x[2]])}"
    if t == "window":
        return f"{pad}.window {lsym(x[1])} {lexpr(x[2])}"
    raise ValueError(t)


def lstmts(xs, ind):
    pad = "  " * ind
    if not xs:
        return f"{pad}[]"
    return f"{pad}[\n" + ",\n".join(lstmt(x, ind + 1) for x in xs) + f"\n{pad}]"


def largty(t):
    if t[0] == "ctrl":
        return f"(.ctrl .{t[1]})"
    if t[0] == "scalar":
        return ".scalar"
    return f"(.tensor {llist([lexpr(h) for h in t[1]])} {'true' if t[2] else 'false'})"


def lproc(pj, ind):
    pad = "  " * ind
    args = llist([f"⟨{lsym(a[0])}, {largty(a[1])}⟩" for a in pj["args"]])
    preds = llist([lexpr(p) for p in pj["preds"]])
    return f"{pad}(.mk {lstr(pj['name'])}\n{pad}  {args}\n{pad}  {preds}\n{lstmts(pj['body'], ind + 1)})"


# ----------------------------------------------------------------------------- argument kinds
def arg_kinds(ir):
    """mirrors the alloc rules of AVX2 / AVX512 in src/exo/libs/memories.py"""
    kinds = []
    for a in ir.args:
        t = a.type
        if export_ir.is_ctrl_type(t):
            kinds.append(".ctrl")
            continue
        if t.is_real_scalar():
            kinds.append(".scalar")
            continue
        bt = str(t.basetype())
        mem = a.mem.name() if a.mem is not None else "DRAM"
        if mem == "AVX2":
            lanes = {"f32": 8, "f64": 4, "ui16": 16}.get(bt)
            kinds.append(f"(.vreg {lanes})" if lanes else "(.mem 0)")
        elif mem == "AVX512":
            lanes = {"f32": 16}.get(bt)
            kinds.append(f"(.vreg {lanes})" if lanes else "(.mem 0)")
        else:
            bits = {"f32": 32, "f64": 64, "ui16": 16, "R": 32, "f16": 16, "i8": 8, "ui8": 8, "i32": 32}.get(bt, 0)
            kinds.append(f"(.mem {bits})")
    return kinds


# ----------------------------------------------------------------------------- C format-string parser
class ParseError(Exception):
    pass


TYPES = {"__m256", "__m256d", "__m256i", "__m512", "__m512d", "__m512i", "__m128", "__m128d", "__m128i",
         "float", "double", "int", "__mmask16", "__mmask8"}

TOKEN = re.compile(r"""
    (?P<ws>\s+)
  | (?P<lb>\{\{) | (?P<rb>\}\})
  | (?P<ph>\{[A-Za-z_][A-Za-z0-9_]*\})
  | (?P<flt>\d+\.\d*(?:[eE][-+]?\d+)?[fF]?|\d+[fF])
  | (?P<int>\d+)
  | (?P<id>[A-Za-z_][A-Za-z0-9_]*)
  | (?P<op><<|\+=|[()&*,;=+\-<>])
""", re.X)


def tokenize(fmt):
    toks, i = [], 0
    while i < len(fmt):
        m = TOKEN.match(fmt, i)
        if not m:
            toks.append(("bad", fmt[i], i, i + 1))
            i += 1
            continue
        k = m.lastgroup
        if k != "ws":
            toks.append((k, m.group(), m.start(), m.end()))
        i = m.end()
    return toks


class CParser:
    def __init__(self, fmt, syms, known):
        """syms: formal name -> renumbered sym"""
        self.fmt = fmt
        self.toks = tokenize(fmt)
        self.i = 0
        self.syms = syms
        self.known = known
        self.locals = {}
        self.n_opaque = 0
        self.unknown = []
        # the dictionary LoopIR_compiler builds for `.format`
        self.ph = {}
        for a in syms:
            self.ph[a] = (a, "name")
            self.ph[a + "_data"] = (a, "data")
            self.ph[a + "_int"] = (a, "int")

    # -- token helpers
    def peek(self, k=0):
        j = self.i + k
        return self.toks[j] if j < len(self.toks) else ("eof", "", len(self.fmt), len(self.fmt))

    def at(self, kind, text=None, k=0):
        t = self.peek(k)
        return t[0] == kind and (text is None or t[1] == text)

    def eat(self, kind, text=None):
        if not self.at(kind, text):
            raise ParseError(f"expected {text or kind}, got {self.peek()[1]!r}")
        t = self.peek()
        self.i += 1
        return t

    def placeholder(self, tok):
        name = tok[1][1:-1]
        if name not in self.ph:
            raise ParseError(f"placeholder {name} is not a key of the format dictionary")
        return self.ph[name]

    # -- statements
    def parse(self):
        out = []
        while not self.at("eof"):
            out.extend(self.stmt())
        return out

    def stmt(self):
        start = self.i
        snapshot = dict(self.locals)
        try:
            return self.stmt1()
        except ParseError:
            # recover: skip to the end of this statement
            self.locals = snapshot
            self.i = start
            depth = 0
            first = self.peek()[2]
            while not self.at("eof"):
                t = self.peek()
                self.i += 1
                if t[1] == "(" or t[0] == "lb":
                    depth += 1
                elif t[1] == ")" or t[0] == "rb":
                    depth -= 1
                    if depth < 0:
                        break
                elif t[1] == ";" and depth <= 0:
                    break
            last = self.toks[self.i - 1][3]
            self.n_opaque += 1
            return [".opaque " + lstr(" ".join(self.fmt[first:last].split()))]

    def stmt1(self):
        if self.at("lb"):
            self.eat("lb")
            out = []
            while not self.at("rb"):
                if self.at("eof"):
                    raise ParseError("unterminated block")
                out.extend(self.stmt())
            self.eat("rb")
            return out
        if self.at("id") and self.peek()[1] in TYPES and self.at("id", None, 1) and self.at("op", "=", 2):
            ty = self.eat("id")[1]
            name = self.eat("id")[1]
            self.eat("op", "=")
            e = self.expr()
            self.eat("op", ";")
            if name in self.locals:
                raise ParseError("redeclared local")
            k = len(self.locals)
            self.locals[name] = k
            return [f".decl {lstr(ty)} {k} {e}"]
        if self.at("ph") and self.at("op", "=", 1):
            arg, mode = self.placeholder(self.eat("ph"))
            if mode != "data":
                raise ParseError("assignment to a non-data placeholder")
            self.eat("op", "=")
            e = self.expr()
            self.eat("op", ";")
            return [f".assignOp {lsym(self.syms[arg])} {e}"]
        if self.at("id") and self.at("op", "=", 1) and self.peek()[1] in self.locals:
            name = self.eat("id")[1]
            self.eat("op", "=")
            e = self.expr()
            self.eat("op", ";")
            return [f".assignVar {self.locals[name]} {e}"]
        if self.at("op", "*") and self.at("ph", None, 1) and self.at("op", "+=", 2):
            self.eat("op", "*")
            arg, mode = self.placeholder(self.eat("ph"))
            if mode == "int":
                raise ParseError("*{x_int}")
            self.eat("op", "+=")
            e = self.expr()
            self.eat("op", ";")
            return [f".accum {lsym(self.syms[arg])} {e}"]
        e = self.expr()
        self.eat("op", ";")
        return [f".eval {e}"]

    # -- expressions
    def expr(self):
        a = self.shift()
        while self.at("op", "-"):
            self.eat("op", "-")
            b = self.shift()
            a = f"(.sub {a} {b})"
        if self.at("op", "+") or self.at("op", "<") or self.at("op", ">") or self.at("op", "*"):
            raise ParseError("unsupported operator")
        return a

    def shift(self):
        a = self.unary()
        while self.at("op", "<<"):
            self.eat("op", "<<")
            b = self.unary()
            a = f"(.shl {a} {b})"
        return a

    def is_cast(self):
        if not self.at("op", "("):
            return None
        k = 1
        if self.at("id", "const", k):
            k += 1
        if not (self.at("id", None, k) and self.peek(k)[1] in TYPES):
            return None
        ty = self.peek(k)[1]
        k += 1
        ptr = False
        if self.at("op", "*", k):
            ptr = True
            k += 1
        if not self.at("op", ")", k):
            return None
        return ty, ptr, k + 1

    def unary(self):
        if self.at("op", "-"):
            self.eat("op", "-")
            if self.at("flt"):
                n, d = self.flt(self.eat("flt")[1])
                return f"(.flt {lint(-n)} {d})"
            if self.at("int"):
                return f"(.int {lint(-int(self.eat('int')[1]))})"
            raise ParseError("unary minus")
        if self.at("op", "&"):
            self.eat("op", "&")
            arg, mode = self.placeholder(self.eat("ph"))
            if mode != "data":
                raise ParseError("&{x} of a non-data placeholder")
            return f"(.addr {lsym(self.syms[arg])})"
        c = self.is_cast()
        if c is not None:
            ty, ptr, k = c
            if not ptr and self.at("lb", None, k):
                # (T){0}
                self.i += k
                self.eat("lb")
                t = self.eat("int")
                if t[1] != "0":
                    raise ParseError("compound literal other than {0}")
                self.eat("rb")
                return f"(.zero {lstr(ty)})"
            self.i += k
            e = self.unary()
            return f"(.cast {lstr(ty + (' *' if ptr else ''))} {e})"
        return self.primary()

    @staticmethod
    def flt(text):
        from fractions import Fraction

        f = Fraction(text.rstrip("fF"))
        return f.numerator, f.denominator

    def primary(self):
        if self.at("int"):
            return f"(.int {int(self.eat('int')[1])})"
        if self.at("flt"):
            n, d = self.flt(self.eat("flt")[1])
            return f"(.flt {lint(n)} {d})"
        if self.at("ph"):
            arg, mode = self.placeholder(self.eat("ph"))
            if mode == "data":
                return f"(.data {lsym(self.syms[arg])})"
            if mode == "name":
                return f"(.name {lsym(self.syms[arg])})"
            raise ParseError("{x_int}")
        if self.at("op", "("):
            self.eat("op", "(")
            e = self.expr()
            self.eat("op", ")")
            return e
        if self.at("lb"):
            self.eat("lb")
            es = [self.expr()]
            while self.at("op", ","):
                self.eat("op", ",")
                es.append(self.expr())
            self.eat("rb")
            return f"(.init {llist(es)})"
        if self.at("id"):
            name = self.eat("id")[1]
            if self.at("op", "("):
                self.eat("op", "(")
                args, texts = [], []
                if not self.at("op", ")"):
                    while True:
                        s0 = self.peek()[2]
                        args.append(self.expr())
                        texts.append(" ".join(self.fmt[s0:self.toks[self.i - 1][3]].split()))
                        if self.at("op", ","):
                            self.eat("op", ",")
                            continue
                        break
                self.eat("op", ")")
                ctor = name.lstrip("_")
                if name == "_mm256_xor_ps" and len(args) == 2 and texts[0] == texts[1]:
                    return f"(.call .mm256_xor_ps_self {llist(args[:1])})"
                if ctor in self.known and name.startswith("_"):
                    return f"(.call .{ctor} {llist(args)})"
                self.unknown.append(name)
                return f"(.call (.unknown {lstr(name)}) {llist(args)})"
            if name in self.locals:
                return f"(.var {self.locals[name]})"
            return f"(.cst {lstr(name)})"
        raise ParseError(f"unexpected {self.peek()[1]!r}")


# ----------------------------------------------------------------------------- lane-loop recogniser
def rec_lexp(e, it):
    t = e[0]
    if t == "read":
        x, idx = e[1], e[2]
        if x == it:
            return None
        if not idx:
            return f"(.sc {lsym(x)})"
        if len(idx) != 1:
            return None
        j = idx[0]
        if j == ["read", it, []]:
            return f"(.lane {lsym(x)} 0)"
        if j[0] == "binop" and j[1] == "+" and j[2][0] == "int" and j[2][1] > 0 and j[3] == ["read", it, []]:
            return f"(.lane {lsym(x)} {j[2][1]})"
        if j == ["int", 0]:
            return f"(.first {lsym(x)})"
        return None
    if t == "data":
        return f"(.lit {lint(e[1])} {e[2]})"
    if t == "usub":
        a = rec_lexp(e[1], it)
        return a and f"(.neg {a})"
    if t == "binop":
        a, b = rec_lexp(e[2], it), rec_lexp(e[3], it)
        if a is None or b is None or e[1] not in BINOP:
            return None
        return f"(.bin .{BINOP[e[1]]} {a} {b})"
    if t == "extern":
        args = [rec_lexp(a, it) for a in e[2]]
        if any(a is None for a in args):
            return None
        if len(args) == 1:
            return f"(.ext1 {lstr(e[1])} {args[0]})"
        if len(args) == 4:
            return f"(.ext4 {lstr(e[1])} {' '.join(args)})"
    return None


def rec_lane(pj):
    b = pj["body"]
    if len(b) != 1 or b[0][0] != "for":
        return None
    _, it, lo, hi, inner, par = b[0]
    if lo != ["int", 0] or hi[0] != "int" or hi[1] < 0 or par or len(inner) != 1:
        return None
    s = inner[0]
    guard = "none"
    if s[0] == "if":
        c = s[1]
        if not (c[0] == "binop" and c[1] == "<" and c[2] == ["read", it, []] and c[3][0] == "read" and not c[3][2]):
            return None
        if s[3] or len(s[2]) != 1:
            return None
        guard = f"(some {lsym(c[3][1])})"
        s = s[2][0]
    if s[0] not in ("assign", "reduce"):
        return None
    if s[2] == [["read", it, []]]:
        dst_lane = "true"
    elif s[2] == []:
        dst_lane = "false"
    else:
        return None
    rhs = rec_lexp(s[3], it)
    if rhs is None:
        return None
    return (f"{{ i := {lsym(it)}, n := {hi[1]}, guard := {guard}, dst := {lsym(s[1])}, dstLane := {dst_lane}, "
            f"reduce := {'true' if s[0] == 'reduce' else 'false'}, rhs := {rhs} }}")


# ----------------------------------------------------------------------------- generation
def translate_one(name, procedure, known):
    ir = procedure.INTERNAL_proc()
    pj, _ = export_ir.export(procedure)
    pj = renumber(pj)
    syms = {a[0][0]: a[0] for a in pj["args"]}
    kinds = arg_kinds(ir)
    fmt = ir.instr.c_instr
    p = CParser(fmt, syms, known)
    try:
        stmts = p.parse()
    except Exception as ex:  # noqa: BLE001  (a mutated library may contain anything)
        stmts = [".opaque " + lstr(" ".join(fmt.split()))]
        p.n_opaque = 1
        p.unknown = [f"<{type(ex).__name__}>"]
    lane = rec_lane(pj)
    lines = [f"namespace {name}", "",
             f"def cText : String := {lstr(fmt)}", "",
             "def proc : Proc :=", lproc(pj, 1), "",
             "def kinds : List (Sym × ArgKind) :=",
             "  " + llist([f"({lsym(a[0])}, {k})" for a, k in zip(pj["args"], kinds)]), "",
             "def cinstr : List CStmt :=", "  [" + ",\n   ".join(stmts) + "]", "",
             *(["def laneLoop : Lane.LaneLoop :=", "  " + lane, ""] if lane else []),
             "def lane : Option Lane.LaneLoop :=",
             "  " + ("some laneLoop" if lane else "none"), "",
             "def instr : Instr :=",
             f"  {{ name := {lstr(name)}, proc := proc, kinds := kinds, cinstr := cinstr, nOpaque := {p.n_opaque} }}",
             "", f"end {name}", ""]
    text = "\n".join(lines)
    info = {"name": name, "n_opaque": p.n_opaque, "unknown": sorted(set(p.unknown)), "lane": lane is not None,
            "hash": hashlib.sha256(text.encode()).hexdigest()[:16], "args": [a[0][0] for a in pj["args"]],
            "kinds": kinds}
    return text, info


HEADER = """/-
  GENERATED by harness/translate/x86_instrs.py from the live objects of exo.platforms.x86 —
  do not edit; regenerated on every run of `./check C14`.
-/
import ExoModel.X86
import ExoModel.Lane

namespace Exo.X86Instrs
open Exo Exo.X86

"""


def generate(exo):
    """-> (text of Gen/X86Instrs.lean, [info per instruction])"""
    known = known_intrinsics()
    parts, infos = [HEADER], []
    for name, procedure in list_instrs(exo):
        text, info = translate_one(name, procedure, known)
        parts.append(text)
        infos.append(info)
    names = [i["name"] for i in infos]
    parts.append("def all : List Instr :=\n  [" + ",\n   ".join(f"{n}.instr" for n in names) + "]\n")
    parts.append("def lanes : List (String × Option Lane.LaneLoop) :=\n  [" +
                 ",\n   ".join(f"({lstr(n)}, {n}.lane)" for n in names) + "]\n")
    parts.append("def cTexts : List (String × String) :=\n  [" +
                 ",\n   ".join(f"({lstr(n)}, {n}.cText)" for n in names) + "]\n")
    parts.append("end Exo.X86Instrs\n")
    return "\n".join(parts), infos


def write_if_changed(text):
    OUT.parent.mkdir(parents=True, exist_ok=True)
    if OUT.exists() and OUT.read_text() == text:
        return False
    OUT.write_text(text)
    return True


def restore_baseline():
    """put the accepted text back (after a run on a mutated library, so that the project builds again)"""
    if BASELINE_TEXT.exists():
        write_if_changed(BASELINE_TEXT.read_text())


def baseline():
    if BASELINE.exists():
        return json.loads(BASELINE.read_text())
    return {}


def changed_instrs(infos):
    """names whose generated text differs from the accepted baseline (or that are new / missing)"""
    base = baseline().get("hashes", {})
    cur = {i["name"]: i["hash"] for i in infos}
    return sorted([n for n in cur if base.get(n) != cur[n]] + [n for n in base if n not in cur])


def main():
    exo = import_exo()
    text, infos = generate(exo)
    ch = write_if_changed(text)
    print(f"{OUT}: {'rewritten' if ch else 'unchanged'}; {len(infos)} instructions")
    for i in infos:
        flag = []
        if i["n_opaque"]:
            flag.append(f"opaque={i['n_opaque']}")
        if i["unknown"]:
            flag.append("unknown=" + ",".join(i["unknown"]))
        if not i["lane"]:
            flag.append("no-lane-shape")
        if flag:
            print(f"  {i['name']}: " + " ".join(flag))
    if "--accept" in sys.argv:
        BASELINE.write_text(json.dumps({"hashes": {i["name"]: i["hash"] for i in infos}}, indent=1, sort_keys=True))
        BASELINE_TEXT.write_text(text)
        print(f"baseline written: {BASELINE}")
    else:
        print("changed w.r.t. baseline:", changed_instrs(infos))


if __name__ == "__main__":
    main()
