"""Translator: ast of REPO/src/exo/backend/*.py  ->  lean/ExoModel/Gen/SortSites.lean   (C18)

Regenerated on EVERY run of the C18 check (the file is rewritten only when its content changed).

What is extracted.  For `compile_to_strings` and everything else in `backend/LoopIR_compiler.py`
(plus the four analyses it runs: mem/parallel/prec/win_analysis.py) a flow-insensitive data-flow
analysis over the Python `ast` finds every place where the iteration order of a `set` / `dict`
(or of a list whose order was produced by iterating one: a *tainted* list) can reach the emitted
text, and records for each such SITE

  * what is iterated (set / dict / tainted list), where (function, line, source text),
  * whether the iteration goes through `sorted(..., key=...)`, and the key (text + shape:
    `x.name`, `x.name()`, concatenation, identity, other),
  * how distinctness of the keys on the collection is enforced by the code:
      raises            the loop that consumes the sorted list raises on a repeated key
      frozenDataclass   the elements are instances of a `@dataclass(frozen=True)` whose fields
                        include the key attribute (set semantics make equal objects one element;
                        that the other fields are a function of the key is checked at run time
                        by harness/props/c18.py)
      unenforced        nothing in the code prevents two elements with one key
  * for an unsorted site: an upper bound on the cardinality when one can be shown
    (`[D[v] for v in S]` with `D` a module-level dict literal: |S| <= |D| or KeyError),
    whether every effect of the loop is contained in tracked lists/sets, and which ROOT sites the
    order of a tainted list came from (origins).

Conservative by construction: an order-sensitive use of a set/dict/tainted value that is not in the
allow-list below (membership, len, truth value, set algebra, keyed subscript of a dict, argument
of sorted()/set(), propagation through assignment / return / call of a function of these files) is
emitted as an unsorted `escape` site, which the `decide` obligation in Props/C18.lean rejects.
Values that come from outside these files (IR node fields such as `proc.args`, results of
functions of other modules) are assumed to be ordered sequences; the names of the external
callables whose results are iterated are listed in `externalIterables` for review.
"""
from __future__ import annotations

import ast
from dataclasses import dataclass, field
from pathlib import Path

from common import LEAN, REPO

OUT = LEAN / "ExoModel" / "Gen" / "SortSites.lean"
PRIMARY = "backend/LoopIR_compiler.py"
AUX = ["backend/mem_analysis.py", "backend/parallel_analysis.py", "backend/prec_analysis.py",
       "backend/win_analysis.py"]

UNORD = ("set", "tainted", "tdict")
SET_OK = {"add", "update", "discard", "remove", "copy", "union", "intersection", "difference",
          "issubset", "issuperset", "isdisjoint", "clear", "symmetric_difference"}
DICT_OK = {"get", "setdefault", "update", "copy", "new_child", "pop", "clear", "format_map"}
DICT_ITER = {"keys", "values", "items"}
LIST_MUT = {"append", "extend", "insert"}
LIST_OK = LIST_MUT | {"copy", "clear"}
INSENSITIVE_FNS = {"set", "frozenset", "len", "bool", "any", "all", "isinstance", "id", "type"}
PROPAGATE_FNS = {"list", "tuple", "reversed", "iter", "enumerate", "map", "filter", "zip"}
DICT_CTORS = {"dict", "defaultdict", "ChainMap", "OrderedDict", "WeakKeyDictionary", "CacheDict", "Counter"}


# ------------------------------------------------------------------ kinds
@dataclass(frozen=True)
class K:
    base: str = ""            # "" unknown/scalar, "str", "list", "tainted", "dict", "set"
    origins: frozenset = frozenset()
    elem: "K|None" = None     # kind of the elements (lists / sets), None = no information
    cls: frozenset = frozenset()   # possible classes of a scalar value ("?" = unknown)

    def unordered(self):
        return self.base in UNORD


BOT = K()
_RANK = {"": 0, "str": 1, "list": 2, "dict": 3, "tainted": 4, "tdict": 5, "set": 6}


def join(a: K | None, b: K | None) -> K | None:
    if a is None:
        return b
    if b is None:
        return a
    base = a.base if _RANK[a.base] >= _RANK[b.base] else b.base
    return K(base, a.origins | b.origins, join(a.elem, b.elem), a.cls | b.cls)


def taint(k: K | None, origins) -> K:
    k = k or BOT
    base = {"set": "set", "dict": "tdict", "tdict": "tdict"}.get(k.base, "tainted")
    return K(base, k.origins | frozenset(origins), k.elem, k.cls)


# ------------------------------------------------------------------ scopes
@dataclass
class Scope:
    qual: str
    node: ast.AST
    parent: "Scope|None"
    cls: str | None
    file: str
    params: list = field(default_factory=list)
    nonlocals: set = field(default_factory=set)


class Analysis:
    def __init__(self, repo_src: Path):
        self.src = {}
        self.trees = {}
        for rel in [PRIMARY] + AUX:
            p = repo_src / "exo" / rel
            if p.exists():
                self.src[rel] = p.read_text()
                self.trees[rel] = ast.parse(self.src[rel])
        self.scopes = []            # all function scopes + module scopes
        self.scope_of = {}          # id(FunctionDef/Module/Lambda) -> Scope
        self.funcs = {}             # simple name -> [Scope]  (module-level functions and nested)
        self.classes = {}           # class name -> {"methods": {name: Scope}, "node": ClassDef, "bases": [...]}
        self.parent = {}            # id(node) -> parent node
        self.owner = {}             # id(node) -> Scope in which the node is evaluated
        self.var = {}               # (scope qual, name) -> K
        self.binds = {}             # (scope qual, name) -> {binding id: {line, end, k, kill, loops}}
        self.attr = {}              # (class, attr) -> K
        self.ret = {}               # scope qual -> K
        self.hot = {}               # scope qual -> frozenset(origins)  (called inside unordered loops)
        self.ret_ann = {}           # scope qual -> annotation class name
        self.module_dicts = {}      # module-level dict literal name -> number of keys
        self.external_iter = set()
        self.changed = False
        for rel, tree in self.trees.items():
            self._index(rel, tree)

    # -------------------------------------------------------------- indexing
    def _index(self, rel, tree):
        mod = Scope(f"<{Path(rel).stem}>", tree, None, None, rel)
        self.scopes.append(mod)
        self.scope_of[id(tree)] = mod

        def visit(node, scope, cls):
            for ch in ast.iter_child_nodes(node):
                self.parent[id(ch)] = node
                if isinstance(ch, (ast.FunctionDef, ast.AsyncFunctionDef)):
                    q = (cls + "." if cls and scope.node is not None and isinstance(node, ast.ClassDef) else
                         (scope.qual + "." if scope.parent is not None else "")) + ch.name
                    s = Scope(q, ch, scope, cls if isinstance(node, ast.ClassDef) else scope.cls, rel)
                    a = ch.args
                    s.params = [x.arg for x in a.posonlyargs + a.args] + [x.arg for x in a.kwonlyargs]
                    self.scopes.append(s)
                    self.scope_of[id(ch)] = s
                    self.owner[id(ch)] = scope
                    if isinstance(node, ast.ClassDef):
                        self.classes[cls]["methods"][ch.name] = s
                    else:
                        self.funcs.setdefault(ch.name, []).append(s)
                    if isinstance(ch.returns, ast.Name):
                        self.ret_ann[q] = ch.returns.id
                    elif isinstance(ch.returns, ast.Constant) and isinstance(ch.returns.value, str):
                        self.ret_ann[q] = ch.returns.value
                    for dflt in a.defaults + [d for d in a.kw_defaults if d is not None]:
                        self.owner[id(dflt)] = scope
                    visit(ch, s, s.cls)
                elif isinstance(ch, ast.ClassDef):
                    self.classes[ch.name] = {"methods": {}, "node": ch,
                                             "bases": [b.id for b in ch.bases if isinstance(b, ast.Name)]}
                    self.owner[id(ch)] = scope
                    visit(ch, scope, ch.name)
                else:
                    self.owner[id(ch)] = scope
                    if isinstance(ch, (ast.Nonlocal, ast.Global)):
                        scope.nonlocals |= set(ch.names)
                    visit(ch, scope, cls)

        visit(tree, mod, None)
        for st in tree.body:
            if isinstance(st, ast.Assign) and len(st.targets) == 1 and isinstance(st.targets[0], ast.Name) \
                    and isinstance(st.value, ast.Dict):
                self.module_dicts[st.targets[0].id] = len(st.value.keys)

    def text(self, node, scope):
        return ast.get_source_segment(self.src[scope.file], node) or "?"

    # -------------------------------------------------------------- environment
    def _defining_scope(self, scope: Scope, name: str) -> Scope:
        """scope whose binding `name` refers to when used in `scope`"""
        s = scope
        while s is not None:
            if (s.qual, name) in self.var or name in s.params:
                if name in s.nonlocals and s.parent is not None:
                    s = s.parent
                    continue
                return s
            s = s.parent
        return scope

    def _loops_around(self, node, scope):
        """(start, end) line spans of the loops of this scope that enclose `node`"""
        spans = []
        n = node
        while id(n) in self.parent:
            n = self.parent[id(n)]
            if n is scope.node:
                break
            if isinstance(n, (ast.For, ast.AsyncFor, ast.While)):
                spans.append((n.lineno, n.end_lineno))
        return spans

    def get_var(self, scope, name, use=None):
        """kind of variable `name` read in `scope`.  With `use` (the Name node) and a binding in the
        same scope the straight-line order of whole-variable assignments is respected: the value is
        the last assignment completed before the use, joined with the mutations after it and with
        later assignments inside a loop that also encloses the use.  Everything else: the join of
        all bindings (flow-insensitive)."""
        s = self._defining_scope(scope, name)
        key = (s.qual, name)
        total = self.var.get(key)
        binds = self.binds.get(key)
        if use is None or s is not scope or not binds:
            return total
        kills = [b for b in binds.values() if b["kill"]]
        prior = [b for b in kills if b["end"] < use.lineno]
        if not prior:
            return total
        last = max(prior, key=lambda b: (b["line"], b["end"]))
        k = last["k"]
        uloops = self._loops_around(use, scope)
        for b in binds.values():
            if b is last:
                continue
            if b["kill"]:
                if b["line"] > last["line"] and b not in prior and any(sp in uloops for sp in b["loops"]):
                    k = join(k, b["k"])
                elif b in prior and b["line"] == last["line"]:
                    k = join(k, b["k"])
            elif b["line"] > last["line"] or any(sp in uloops for sp in b["loops"]):
                k = join(k, b["k"])
        return k

    def _record(self, key, at, scope, k, kill):
        if at is None:
            bid, line, end, loops = "param", scope.node.lineno if hasattr(scope.node, "lineno") else 0, 0, []
            if hasattr(scope.node, "lineno"):
                end = scope.node.lineno
        else:
            bid, line, end = (at.lineno, at.col_offset, kill), at.lineno, at.end_lineno
            loops = self._loops_around(at, scope)
            if isinstance(at, (ast.For, ast.AsyncFor)):
                end = at.lineno       # the target is bound before the body runs
        b = self.binds.setdefault(key, {}).setdefault(bid, {"line": line, "end": end, "k": None, "kill": kill, "loops": loops})
        b["k"] = join(b["k"], k)

    def set_var(self, scope, name, k: K | None, at=None):
        if k is None:
            return
        s = scope
        if name in scope.nonlocals:
            s = self._defining_scope(scope.parent or scope, name)
        key = (s.qual, name)
        self._record(key, at, s, k, kill=(s is scope))
        new = join(self.var.get(key), k)
        if new != self.var.get(key):
            self.var[key] = new
            self.changed = True

    def mutate_var(self, scope, name, k, at=None):
        s = self._defining_scope(scope, name)
        key = (s.qual, name)
        if at is not None and s is scope:
            self._record(key, at, s, k, kill=False)
        else:
            b = self.binds.setdefault(key, {}).setdefault("ext", {"line": 10 ** 9, "end": 10 ** 9, "k": None, "kill": False, "loops": []})
            b["k"] = join(b["k"], k)
        new = join(self.var.get(key), k)
        if new != self.var.get(key):
            self.var[key] = new
            self.changed = True

    def set_attr(self, cls, attr, k):
        if k is None or cls is None:
            return
        new = join(self.attr.get((cls, attr)), k)
        if new != self.attr.get((cls, attr)):
            self.attr[(cls, attr)] = new
            self.changed = True

    def set_ret(self, scope, k):
        if k is None:
            return
        new = join(self.ret.get(scope.qual), k)
        if new != self.ret.get(scope.qual):
            self.ret[scope.qual] = new
            self.changed = True

    def set_hot(self, scope, origins):
        new = self.hot.get(scope.qual, frozenset()) | frozenset(origins)
        if new != self.hot.get(scope.qual):
            self.hot[scope.qual] = new
            self.changed = True

    # -------------------------------------------------------------- call resolution
    def resolve_call(self, call: ast.Call, scope):
        """-> list of (Scope of callee, n_bound) ; n_bound = 1 for methods (self)"""
        f = call.func
        out = []
        if isinstance(f, ast.Name):
            if f.id in self.classes:
                init = self._method(f.id, "__init__")
                if init:
                    out.append((init, 1))
            else:
                cands = self.funcs.get(f.id, [])
                # prefer a function visible from this scope (nested in an enclosing scope or module level)
                vis = []
                s = scope
                chain = []
                while s is not None:
                    chain.append(s)
                    s = s.parent
                for c in cands:
                    if c.parent in chain:
                        vis.append(c)
                out += [(c, 0) for c in (vis or cands)]
        elif isinstance(f, ast.Attribute):
            recv = f.value
            rcls = None
            if isinstance(recv, ast.Call) and isinstance(recv.func, ast.Name) and recv.func.id in self.classes:
                rcls = recv.func.id
            elif isinstance(recv, ast.Name) and recv.id == "self" and scope.cls:
                rcls = scope.cls
            elif isinstance(recv, ast.Call) and isinstance(recv.func, ast.Name) and recv.func.id == "super" and scope.cls:
                for b in self.classes[scope.cls]["bases"]:
                    m = self._method(b, f.attr)
                    if m:
                        out.append((m, 1))
                return out
            if rcls:
                m = self._method(rcls, f.attr)
                if m:
                    out.append((m, 1))
            else:
                for cn, c in self.classes.items():
                    if f.attr in c["methods"]:
                        out.append((c["methods"][f.attr], 1))
        return out

    def _method(self, cls, name):
        seen = set()
        todo = [cls]
        while todo:
            c = todo.pop(0)
            if c in seen or c not in self.classes:
                continue
            seen.add(c)
            if name in self.classes[c]["methods"]:
                return self.classes[c]["methods"][name]
            todo += self.classes[c]["bases"]
        return None

    # -------------------------------------------------------------- expression kinds
    def site_id(self, node, scope):
        return f"{scope.qual}:L{node.lineno}c{node.col_offset}"

    def iter_result(self, it_node, scope, raw_site_node):
        """kind of a list produced by iterating `it_node` (element kinds are kept)"""
        k = self.kind(it_node, scope)
        if k is None:
            return K("list")
        if k.base == "set":
            return K("tainted", k.origins | {self.site_id(raw_site_node, scope)}, k.elem)
        if k.base in ("tainted", "tdict"):
            return K("tainted", k.origins, k.elem)
        return K("list", frozenset(), k.elem)

    def kind(self, e, scope) -> K | None:
        if isinstance(e, (ast.Set, ast.SetComp)):
            el = None
            if isinstance(e, ast.Set):
                for x in e.elts:
                    el = join(el, self.kind(x, scope) or K(cls=frozenset({"?"})))
            return K("set", frozenset(), el)
        if isinstance(e, (ast.Dict, ast.DictComp)):
            return K("dict")
        if isinstance(e, ast.JoinedStr) or (isinstance(e, ast.Constant) and isinstance(e.value, str)):
            return K("str")
        if isinstance(e, (ast.List, ast.Tuple)):
            el = None
            for x in e.elts:
                el = join(el, self.kind(x, scope))
            if isinstance(e, ast.Tuple):
                return K("", frozenset(), None, frozenset({"?"})) if el is None or not el.unordered() else K("list", frozenset(), el)
            return K("list", frozenset(), el)
        if isinstance(e, (ast.ListComp, ast.GeneratorExp)):
            res = K("list")
            for g in e.generators:
                r = self.iter_result(g.iter, scope, g.iter)
                if r.base == "tainted":
                    res = K("tainted", res.origins | r.origins)
            el = self.kind(e.elt, scope)
            return K(res.base, res.origins, el)
        if isinstance(e, ast.Name):
            if e.id in ("True", "False", "None"):
                return None
            return self.get_var(scope, e.id, e)
        if isinstance(e, ast.Attribute):
            if isinstance(e.value, ast.Name) and e.value.id == "self" and scope.cls:
                c = scope.cls
                seen = []
                todo = [c]
                k = None
                while todo:
                    c = todo.pop(0)
                    if c in seen or c not in self.classes:
                        continue
                    seen.append(c)
                    k = join(k, self.attr.get((c, e.attr)))
                    todo += self.classes[c]["bases"]
                return k
            vk = self.kind(e.value, scope)
            if vk is not None and vk.base in ("dict", "tdict") and e.attr in ("parents", "maps"):
                return vk
            return None
        if isinstance(e, ast.IfExp):
            return join(self.kind(e.body, scope), self.kind(e.orelse, scope))
        if isinstance(e, ast.NamedExpr):
            return self.kind(e.value, scope)
        if isinstance(e, ast.BinOp):
            l, r = self.kind(e.left, scope), self.kind(e.right, scope)
            if isinstance(e.op, (ast.BitOr, ast.BitAnd, ast.Sub, ast.BitXor)):
                if (l and l.base == "set") or (r and r.base == "set"):
                    return join(l, r)
                return None
            if isinstance(e.op, ast.Add):
                j = join(l, r)
                if j is not None and j.base in ("list", "tainted"):
                    return j
                if j is not None and j.base == "str":
                    return K("str")
            return None
        if isinstance(e, ast.Subscript):
            vk = self.kind(e.value, scope)
            if vk is not None and vk.base in ("list", "tainted") and isinstance(e.slice, ast.Slice):
                return vk
            return None
        if isinstance(e, ast.Call):
            return self.call_kind(e, scope)
        return None

    def call_kind(self, e: ast.Call, scope):
        f = e.func
        if isinstance(f, ast.Name):
            n = f.id
            if n in ("set", "frozenset"):
                el = None
                if e.args:
                    a = self.kind(e.args[0], scope)
                    el = a.elem if a is not None else K(cls=frozenset({"?"}))
                return K("set", frozenset(), el)
            if n in DICT_CTORS:
                return K("dict")
            if n == "sorted":
                a = self.kind(e.args[0], scope) if e.args else None
                return K("list", frozenset(), a.elem if a else None)
            if n in ("list", "tuple", "reversed", "iter", "enumerate", "filter", "map", "zip"):
                its = e.args[1:] if n in ("filter", "map") else e.args
                res = K("list")
                for a in its:
                    r = self.iter_result(a, scope, e)
                    el = r.elem
                    if n == "map":
                        el = None
                        for callee, nb in self._callable_arg(e.args[0], scope):
                            el = join(el, self.ret.get(callee.qual))
                    res = K("tainted" if "tainted" in (res.base, r.base) else "list", res.origins | r.origins,
                            join(res.elem, el))
                return res
            if n == "str" or n == "repr":
                return K("str")
            if n in self.classes:
                return K("", frozenset(), None, frozenset({n}))
            k = None
            for callee, nb in self.resolve_call(e, scope):
                k = join(k, self.ret.get(callee.qual))
                ann = self.ret_ann.get(callee.qual)
                if ann in self.classes:
                    k = join(k, K("", frozenset(), None, frozenset({ann})))
            return k
        if isinstance(f, ast.Attribute):
            m = f.attr
            rk = self.kind(f.value, scope)
            if rk is not None:
                if rk.base == "set" and m in ("copy", "union", "intersection", "difference", "symmetric_difference"):
                    k = rk
                    for a in e.args:
                        k = join(k, self.kind(a, scope))
                    return k
                if rk.base in ("dict", "tdict") and m in DICT_ITER:
                    return K(rk.base, rk.origins)
                if rk.base in ("dict", "tdict") and m in ("copy", "new_child"):
                    return rk
                if rk.base in ("list", "tainted") and m == "copy":
                    return rk
                if rk.base == "str" and m == "join":
                    return K("str")
            if m == "join" or m == "format":
                return K("str")
            k = None
            for callee, nb in self.resolve_call(e, scope):
                k = join(k, self.ret.get(callee.qual))
                ann = self.ret_ann.get(callee.qual)
                if ann in self.classes:
                    k = join(k, K("", frozenset(), None, frozenset({ann})))
            return k
        return None

    def _callable_arg(self, fn_expr, scope):
        if isinstance(fn_expr, ast.Name):
            fake = ast.Call(func=fn_expr, args=[], keywords=[])
            return self.resolve_call(fake, scope)
        return []

    # -------------------------------------------------------------- one propagation pass
    def propagate(self):
        for scope in self.scopes:
            body = scope.node.body if not isinstance(scope.node, ast.Module) else scope.node.body
            self._stmts(body, scope, unordered_ctx=frozenset(), in_unordered=False)

    def _bind_target(self, tgt, k, scope, at=None):
        if isinstance(tgt, ast.Name):
            self.set_var(scope, tgt.id, k if k is not None else BOT, at)
        elif isinstance(tgt, ast.Attribute) and isinstance(tgt.value, ast.Name) and tgt.value.id == "self":
            self.set_attr(scope.cls, tgt.attr, k)
        elif isinstance(tgt, (ast.Tuple, ast.List)):
            for t in tgt.elts:
                self._bind_target(t, k.elem if k is not None else None, scope, at)

    def _store_subscript(self, tgt, scope, ctx, active, st):
        """`d[k] = v` inside an unordered loop / hot function: the dict's insertion order is tainted"""
        if not (active and isinstance(tgt, ast.Subscript)):
            return
        rk = self.kind(tgt.value, scope)
        if rk is None or rk.base not in ("dict", "tdict"):
            return
        upd = taint(rk, ctx)
        if isinstance(tgt.value, ast.Name):
            self.mutate_var(scope, tgt.value.id, upd, st)
        elif isinstance(tgt.value, ast.Attribute) and isinstance(tgt.value.value, ast.Name) and tgt.value.value.id == "self":
            self.set_attr(scope.cls, tgt.value.attr, upd)

    def _stmts(self, stmts, scope, unordered_ctx, in_unordered):
        for st in stmts:
            self._stmt(st, scope, unordered_ctx, in_unordered)

    def _stmt(self, st, scope, uctx, inu):
        """uctx: origins of the unordered loops lexically around st (or of the hot function)"""
        hot = self.hot.get(scope.qual, frozenset())
        ctx = uctx | hot
        active = inu or scope.qual in self.hot
        if isinstance(st, (ast.FunctionDef, ast.AsyncFunctionDef, ast.ClassDef)):
            return  # own scope, handled by propagate()
        if isinstance(st, ast.Assign):
            k = self.kind(st.value, scope)
            for t in st.targets:
                self._bind_target(t, k, scope, st)
                self._store_subscript(t, scope, ctx, active, st)
        elif isinstance(st, ast.AnnAssign) and st.value is not None:
            self._bind_target(st.target, self.kind(st.value, scope), scope, st)
        elif isinstance(st, ast.AugAssign):
            k = self.kind(st.value, scope)
            if isinstance(st.op, ast.Add) and active:
                k = taint(k or K("list"), ctx)
            tk = self.kind(st.target, scope)
            if isinstance(st.op, ast.Add) and k is None and tk is not None and active:
                k = taint(tk, ctx)
            if isinstance(st.target, ast.Name):
                self.mutate_var(scope, st.target.id, k, st) if k is not None else None
            else:
                self._bind_target(st.target, k, scope)
        elif isinstance(st, ast.Return):
            if st.value is not None:
                self.set_ret(scope, self.kind(st.value, scope))
        elif isinstance(st, (ast.For, ast.AsyncFor)):
            ik = self.kind(st.iter, scope)
            inner, inner_u = uctx, inu
            if ik is not None:
                self._bind_target(st.target, ik.elem, scope, st)
                if ik.unordered():
                    o = ik.origins | ({self.site_id(st.iter, scope)} if ik.base == "set" else frozenset())
                    inner, inner_u = uctx | o, True
            self._stmts(st.body, scope, inner, inner_u)
            self._stmts(st.orelse, scope, inner, inner_u)
        elif isinstance(st, ast.While):
            self._stmts(st.body, scope, uctx, inu)
            self._stmts(st.orelse, scope, uctx, inu)
        elif isinstance(st, ast.If):
            self._stmts(st.body, scope, uctx, inu)
            self._stmts(st.orelse, scope, uctx, inu)
        elif isinstance(st, (ast.With, ast.AsyncWith)):
            self._stmts(st.body, scope, uctx, inu)
        elif isinstance(st, ast.Try):
            self._stmts(st.body, scope, uctx, inu)
            for h in st.handlers:
                self._stmts(h.body, scope, uctx, inu)
            self._stmts(st.orelse, scope, uctx, inu)
            self._stmts(st.finalbody, scope, uctx, inu)
        # expression-level effects of this statement (calls): parameter binding, mutation, hotness
        for node in self._own_exprs(st):
            for sub in ast.walk(node):
                if isinstance(sub, ast.Call):
                    self._call_effects(sub, scope, ctx, active)
                elif isinstance(sub, (ast.ListComp, ast.SetComp, ast.GeneratorExp, ast.DictComp)):
                    for g in sub.generators:
                        ik = self.kind(g.iter, scope)
                        if ik is not None:
                            self._bind_target(g.target, ik.elem, scope, sub)
                elif isinstance(sub, ast.NamedExpr):
                    self._bind_target(sub.target, self.kind(sub.value, scope), scope, sub)

    @staticmethod
    def _own_exprs(st):
        """expression children of a statement (not nested statements)"""
        out = []
        for fname, val in ast.iter_fields(st):
            if fname in ("body", "orelse", "finalbody", "handlers"):
                continue
            if isinstance(val, ast.expr):
                out.append(val)
            elif isinstance(val, list):
                out += [v for v in val if isinstance(v, ast.expr)]
                for v in val:
                    if isinstance(v, ast.withitem):
                        out.append(v.context_expr)
        return out

    def _comp_ctx(self, call, scope):
        """origins of comprehensions (inside the same statement) that enclose `call` and iterate
        something unordered"""
        o = frozenset()
        n = call
        while id(n) in self.parent:
            p = self.parent[id(n)]
            if isinstance(p, ast.stmt):
                break
            if isinstance(p, (ast.ListComp, ast.SetComp, ast.GeneratorExp, ast.DictComp)):
                for g in p.generators:
                    ik = self.kind(g.iter, scope)
                    if ik is not None and ik.unordered() and n is not g.iter:
                        o |= ik.origins | ({self.site_id(g.iter, scope)} if ik.base == "set" else frozenset())
            n = p
        return o

    def _call_effects(self, call: ast.Call, scope, ctx, active):
        cctx = self._comp_ctx(call, scope)
        if cctx:
            ctx, active = ctx | cctx, True
        f = call.func
        # mutation of tracked collections
        if isinstance(f, ast.Attribute):
            m = f.attr
            recv = f.value
            rk = self.kind(recv, scope)
            argk = self.kind(call.args[0], scope) if call.args else None
            scalar = argk if argk is not None else K(cls=frozenset({"?"}))
            upd = None
            if m == "add" and (rk is None or rk.base == "set"):
                upd = K("set", frozenset(), scalar) if rk is not None else None
            elif m == "update" and rk is not None and rk.base == "set":
                upd = K("set", frozenset(), argk.elem if argk is not None else K(cls=frozenset({"?"})))
            elif m in LIST_MUT and (rk is None or rk.base in ("list", "tainted", "")):
                base = K("list", frozenset(), scalar if m == "append" else (argk.elem if argk else None))
                if m == "extend" and argk is not None and argk.base in UNORD:
                    base = K("tainted", argk.origins, argk.elem)
                upd = taint(base, ctx) if active else (base if rk is not None else None)
                if rk is None and not active:
                    upd = None
            if m in ("setdefault", "update") and rk is not None and rk.base in ("dict", "tdict") and active:
                upd = taint(rk, ctx)
            if upd is not None:
                if isinstance(recv, ast.Name):
                    self.mutate_var(scope, recv.id, upd, call)
                elif isinstance(recv, ast.Attribute) and isinstance(recv.value, ast.Name) and recv.value.id == "self":
                    self.set_attr(scope.cls, recv.attr, upd)
        # parameter binding + hotness
        callees = self.resolve_call(call, scope)
        is_builtin_hof = isinstance(f, ast.Name) and f.id in ("map", "filter")
        if is_builtin_hof and call.args:
            for callee, nb in self._callable_arg(call.args[0], scope):
                for a in call.args[1:]:
                    ak = self.kind(a, scope)
                    if ak is not None and len(callee.params) > nb:
                        el = ak.elem
                        if ak.base in UNORD and el is not None:
                            pass
                        self._bind_param(callee, callee.params[nb], el)
                    if ak is not None and ak.unordered():
                        self.set_hot(callee, ak.origins | ({self.site_id(call, scope)} if ak.base == "set" else frozenset()))
                if active:
                    self.set_hot(callee, ctx)
        for callee, nb in callees:
            params = callee.params[nb:]
            for i, a in enumerate(call.args):
                if isinstance(a, ast.Starred):
                    continue
                if i < len(params):
                    self._bind_param(callee, params[i], self.kind(a, scope))
            for kw in call.keywords:
                if kw.arg and kw.arg in callee.params:
                    self._bind_param(callee, kw.arg, self.kind(kw.value, scope))
            if active:
                self.set_hot(callee, ctx)

    def _bind_param(self, callee: Scope, pname, k):
        if k is None:
            return
        key = (callee.qual, pname)
        self._record(key, None, callee, k, kill=True)
        new = join(self.var.get(key), k)
        if new != self.var.get(key):
            self.var[key] = new
            self.changed = True

    def run(self):
        for _ in range(60):
            self.changed = False
            self.propagate()
            if not self.changed:
                break
        else:
            raise RuntimeError("sort_sites: data-flow analysis did not converge")

    # -------------------------------------------------------------- site extraction
    def key_info(self, call: ast.Call, scope):
        key = None
        for kw in call.keywords:
            if kw.arg == "key":
                key = kw.value
        if key is None:
            return "", "identity", None, None
        txt = self.text(key, scope)
        if isinstance(key, ast.Lambda) and len(key.args.args) == 1:
            p = key.args.args[0].arg
            b = key.body
            if isinstance(b, ast.Attribute) and isinstance(b.value, ast.Name) and b.value.id == p:
                return txt, "attr", b.attr, key
            if isinstance(b, ast.Call) and not b.args and isinstance(b.func, ast.Attribute) \
                    and isinstance(b.func.value, ast.Name) and b.func.value.id == p:
                return txt, "call", b.func.attr, key
            if isinstance(b, ast.BinOp) and isinstance(b.op, ast.Add):
                return txt, "concat", None, key
        return txt, "other", None, key

    def _subst_dump(self, lam: ast.Lambda, var: str):
        p = lam.args.args[0].arg

        class R(ast.NodeTransformer):
            def visit_Name(self, n):
                return ast.copy_location(ast.Name(id=var if n.id == p else n.id, ctx=ast.Load()), n)

        import copy
        return ast.dump(R().visit(copy.deepcopy(lam.body)))

    def _raises_on_dup(self, loop: ast.For, lam):
        """loop body contains `if K in SEEN: raise` + `SEEN.add(K)` with K = key(loop var)"""
        if lam is None or not isinstance(loop.target, ast.Name):
            return False
        want = self._subst_dump(lam, loop.target.id)
        alias = set()
        checked, added = set(), set()
        for st in loop.body:
            if isinstance(st, ast.Assign) and len(st.targets) == 1 and isinstance(st.targets[0], ast.Name) \
                    and ast.dump(st.value) == want:
                alias.add(st.targets[0].id)

            def is_key(e):
                return ast.dump(e) == want or (isinstance(e, ast.Name) and e.id in alias)

            if isinstance(st, ast.If) and isinstance(st.test, ast.Compare) and len(st.test.ops) == 1 \
                    and isinstance(st.test.ops[0], ast.In) and is_key(st.test.left) \
                    and isinstance(st.test.comparators[0], ast.Name) \
                    and any(isinstance(x, ast.Raise) for x in st.body):
                checked.add(st.test.comparators[0].id)
            if isinstance(st, ast.Expr) and isinstance(st.value, ast.Call) and isinstance(st.value.func, ast.Attribute) \
                    and st.value.func.attr == "add" and isinstance(st.value.func.value, ast.Name) \
                    and st.value.args and is_key(st.value.args[0]):
                added.add(st.value.func.value.id)
        return bool(checked & added)

    def _consumer_loop(self, call: ast.Call, scope):
        """the `for` loop that consumes sorted(...): directly, or through `v = list(sorted(...))`
        followed by `for x in v` in the same function (v assigned exactly once from it)"""
        n = call
        p = self.parent.get(id(n))
        while isinstance(p, ast.Call) and isinstance(p.func, ast.Name) and p.func.id in ("list", "tuple") and p.args and p.args[0] is n:
            n, p = p, self.parent.get(id(p))
        if isinstance(p, ast.For) and p.iter is n:
            return p
        if isinstance(p, ast.Assign) and p.value is n and len(p.targets) == 1 and isinstance(p.targets[0], ast.Name):
            v = p.targets[0].id
            fn = scope.node
            loops = [x for x in ast.walk(fn) if isinstance(x, ast.For) and isinstance(x.iter, ast.Name) and x.iter.id == v]
            later_assigns = [x for x in ast.walk(fn) if isinstance(x, ast.Assign) and x is not p and x.lineno > p.lineno
                             and any(isinstance(t, ast.Name) and t.id == v for t in x.targets)]
            if len(loops) >= 1 and not later_assigns:
                return loops[0]
        return None

    def _dataclass_fields(self, cname):
        c = self.classes.get(cname)
        if not c:
            return None
        frozen = False
        for d in c["node"].decorator_list:
            if isinstance(d, ast.Call) and getattr(d.func, "id", getattr(d.func, "attr", "")) == "dataclass":
                for kw in d.keywords:
                    if kw.arg == "frozen" and isinstance(kw.value, ast.Constant) and kw.value.value is True:
                        frozen = True
                    if kw.arg == "eq" and isinstance(kw.value, ast.Constant) and kw.value.value is False:
                        return None
        if not frozen:
            return None
        # a user-defined __eq__/__hash__ would change set semantics
        if "__eq__" in c["methods"] or "__hash__" in c["methods"]:
            return None
        return [st.target.id for st in c["node"].body if isinstance(st, ast.AnnAssign) and isinstance(st.target, ast.Name)]

    def sites(self):
        out = []
        seen_ids = {}

        def add(rec):
            base = rec["id"]
            n = seen_ids.get(base, 0)
            seen_ids[base] = n + 1
            if n:
                rec["id"] = f"{base}#{n}"
            out.append(rec)

        for scope in self.scopes:
            fn = scope.node
            for node in self._walk_scope(fn):
                if not isinstance(node, ast.expr):
                    continue
                k = self.kind(node, scope)
                par = self.parent.get(id(node))
                # record external iterables (for review)
                if k is None and isinstance(par, (ast.For, ast.comprehension)) and par.iter is node:
                    if isinstance(node, ast.Call):
                        self.external_iter.add(self.text(node.func, scope) + "(...)")
                    elif isinstance(node, ast.Attribute):
                        self.external_iter.add("_." + node.attr)
                    elif isinstance(node, ast.Name):
                        self.external_iter.add(node.id)
                if k is None or not k.unordered():
                    continue
                rec = self._classify(node, par, k, scope)
                if rec is not None:
                    add(rec)
        return out

    def _walk_scope(self, fn):
        """all nodes lexically in this scope, not descending into nested functions"""
        todo = list(ast.iter_child_nodes(fn))
        while todo:
            n = todo.pop()
            yield n
            if isinstance(n, (ast.FunctionDef, ast.AsyncFunctionDef)):
                # decorators/defaults belong to the outer scope, body to the inner: skip body
                continue
            todo += list(ast.iter_child_nodes(n))

    def _mk(self, node, scope, k, *, role, sorted_=False, key="", key_kind="none", distinct="unenforced",
            max_card=None, insensitive=False, contained=False, fields=None, how=""):
        raw = k.base == "set"
        return {
            "id": self.site_id(node, scope), "func": scope.qual, "file": scope.file, "line": node.lineno,
            "src": self.text(node, scope), "kind": k.base, "role": role, "sorted": sorted_,
            "key": key, "key_kind": key_kind, "distinct": distinct, "max_card": max_card,
            "insensitive": insensitive, "contained": contained, "root": raw,
            "origins": sorted(k.origins), "fields": fields or [], "how": how,
            "elem_cls": sorted((k.elem.cls if k.elem else frozenset())),
        }

    def _classify(self, node, par, k, scope):
        """decide what the use of unordered-kind expression `node` in context `par` is.
        Returns a site record, or None when the use is order-insensitive or a pure propagation."""
        P = par
        # -- receiver of a method call
        if isinstance(P, ast.Attribute) and P.value is node:
            gp = self.parent.get(id(P))
            if isinstance(gp, ast.Call) and gp.func is P:
                m = P.attr
                if k.base == "set" and m in SET_OK:
                    return None
                if k.base == "tdict" and (m in DICT_OK or m in DICT_ITER):
                    return None
                if k.base == "tainted" and m in LIST_OK:
                    return None
                return self._mk(node, scope, k, role="escape", how=f"method .{m}()")
            if k.base == "tdict" and P.attr in ("parents", "maps"):
                return None
            return self._mk(node, scope, k, role="escape", how=f"attribute .{P.attr}")
        # -- argument of a call
        if isinstance(P, ast.Call) and node in P.args:
            f = P.func
            idx = P.args.index(node)
            if isinstance(f, ast.Name):
                n = f.id
                if n == "sorted" and idx == 0:
                    return self._sorted_site(P, node, k, scope)
                if n in INSENSITIVE_FNS:
                    return None
                if n in PROPAGATE_FNS:
                    if k.base == "set":
                        return self._root_producer(node, P, k, scope)
                    return None  # tainted -> tainted propagation; the result is checked in turn
                if n in DICT_CTORS:
                    return None
            if isinstance(f, ast.Attribute) and f.attr == "join":
                return self._consumer(node, k, scope, how="str.join")
            if isinstance(f, ast.Attribute) and f.attr in ("update", "union", "intersection", "difference",
                                                           "issubset", "issuperset", "extend", "isdisjoint"):
                rk = self.kind(f.value, scope)
                if rk is not None and rk.base == "set":
                    return None
                if f.attr == "extend":
                    return None  # list.extend(unordered): handled as taint of the receiver
            if self.resolve_call(P, scope):
                return None      # parameter of a function of these files: propagated
            return self._mk(node, scope, k, role="escape", how=f"argument of {self.text(f, scope)[:40]}")
        if isinstance(P, ast.keyword):
            gp = self.parent.get(id(P))
            if P.arg is None:   # **d
                if isinstance(gp, ast.Call) and isinstance(gp.func, ast.Attribute) and gp.func.attr == "format":
                    return None
                return self._mk(node, scope, k, role="escape", how="**unpacking")
            if isinstance(gp, ast.Call) and self.resolve_call(gp, scope):
                return None
            return self._mk(node, scope, k, role="escape", how=f"keyword argument {P.arg}")
        if isinstance(P, ast.Call) and P.func is node:
            return None
        # -- iteration
        if isinstance(P, (ast.For, ast.AsyncFor)) and P.iter is node:
            return self._for_site(P, node, k, scope)
        if isinstance(P, ast.comprehension) and P.iter is node:
            comp = self.parent.get(id(P))
            if isinstance(comp, ast.SetComp):
                return None
            gp = self.parent.get(id(comp))
            if isinstance(comp, ast.GeneratorExp) and isinstance(gp, ast.Call) and isinstance(gp.func, ast.Name) \
                    and gp.func.id in ("set", "frozenset", "any", "all", "len"):
                return None
            if isinstance(comp, ast.DictComp):
                return self._mk(node, scope, k, role="escape", how="dict comprehension (insertion order)")
            if k.base == "set":
                return self._root_producer(node, comp, k, scope)
            return None
        # -- order-insensitive contexts
        if isinstance(P, ast.Compare):
            ops_ok = all(isinstance(o, (ast.In, ast.NotIn, ast.Is, ast.IsNot)) for o in P.ops)
            if ops_ok or k.base in ("set", "tdict"):
                return None
            return self._mk(node, scope, k, role="escape", how="comparison of order-tainted lists")
        if isinstance(P, (ast.BoolOp, ast.Expr, ast.Assert)) or (isinstance(P, ast.UnaryOp) and isinstance(P.op, ast.Not)):
            return None
        if isinstance(P, (ast.If, ast.While, ast.IfExp)) and P.test is node:
            return None
        if isinstance(P, ast.IfExp):
            return None  # propagated (IfExp has the joined kind and is checked in turn)
        if isinstance(P, ast.BinOp):
            if isinstance(P.op, (ast.BitOr, ast.BitAnd, ast.Sub, ast.BitXor, ast.Add)):
                return None
            return self._mk(node, scope, k, role="escape", how="operator")
        if isinstance(P, ast.AugAssign):
            return None
        if isinstance(P, (ast.Assign, ast.AnnAssign, ast.NamedExpr)):
            if isinstance(P, ast.Assign) and P.value is node:
                for t in P.targets:
                    if isinstance(t, (ast.Tuple, ast.List)):
                        return self._mk(node, scope, k, role="escape", how="tuple unpacking")
            return None
        if isinstance(P, ast.Return):
            return None
        if isinstance(P, ast.Subscript):
            if P.value is node:
                if k.base == "tdict":
                    return None
                if isinstance(P.slice, ast.Slice):
                    return None
                return self._mk(node, scope, k, role="escape", how="positional subscript")
            return None
        if isinstance(P, (ast.List, ast.Tuple, ast.Set)):
            return None  # element of a display: propagated as element kind
        if isinstance(P, ast.Lambda):
            return None
        if isinstance(P, ast.Delete):
            return None
        return self._mk(node, scope, k, role="escape", how=f"used in {type(P).__name__}")

    def _sorted_site(self, call, node, k, scope):
        txt, kk, attr, lam = self.key_info(call, scope)
        distinct, fields = "unenforced", []
        loop = self._consumer_loop(call, scope)
        if loop is not None and self._raises_on_dup(loop, lam):
            distinct = "raises"
        elif kk == "attr" and k.elem is not None and k.elem.cls and "?" not in k.elem.cls:
            ok = True
            for c in k.elem.cls:
                fl = self._dataclass_fields(c)
                if fl is None or attr not in fl:
                    ok = False
                else:
                    fields = fl
            if ok:
                distinct = "frozenDataclass"
        return self._mk(node, scope, k, role="sorted", sorted_=True, key=txt, key_kind=kk, distinct=distinct,
                        fields=fields)

    def _root_producer(self, node, comp, k, scope):
        """unsorted iteration over a raw set/dict that builds a list (comprehension, list(), ...)"""
        max_card = None
        if isinstance(comp, ast.ListComp) and len(comp.generators) == 1 and not comp.generators[0].ifs:
            g = comp.generators[0]
            e = comp.elt
            if isinstance(e, ast.Subscript) and isinstance(e.value, ast.Name) and isinstance(g.target, ast.Name) \
                    and isinstance(e.slice, ast.Name) and e.slice.id == g.target.id \
                    and e.value.id in self.module_dicts and self.get_var(scope, e.value.id) is not None \
                    and self._defining_scope(scope, e.value.id).parent is None:
                max_card = self.module_dicts[e.value.id]
        return self._mk(node, scope, k, role="producer", max_card=max_card, contained=True,
                        how=type(comp).__name__ if not isinstance(comp, ast.Call) else self.text(comp.func, scope) + "()")

    def _consumer(self, node, k, scope, how):
        return self._mk(node, scope, k, role="consumer", how=how)

    def _body_effects(self, stmts, scope):
        """(contained?, insensitive?) for the body of a loop over something unordered"""
        contained, insensitive = True, True
        for st in stmts:
            if isinstance(st, (ast.Pass, ast.Continue, ast.Raise, ast.Assert)):
                continue
            if isinstance(st, ast.If):
                c, i = self._body_effects(st.body + st.orelse, scope)
                contained &= c
                insensitive &= i
                continue
            if isinstance(st, ast.AugAssign) and isinstance(st.op, ast.BitOr):
                tk = self.kind(st.target, scope)
                if tk is not None and tk.base == "set":
                    continue
            if isinstance(st, ast.Expr) and isinstance(st.value, ast.Call):
                call = st.value
                f = call.func
                if isinstance(f, ast.Attribute):
                    rk = self.kind(f.value, scope)
                    if rk is not None and rk.base == "set" and f.attr in SET_OK:
                        continue
                    if f.attr in LIST_MUT and (isinstance(f.value, ast.Name) or (
                            isinstance(f.value, ast.Attribute) and isinstance(f.value.value, ast.Name)
                            and f.value.value.id == "self")):
                        insensitive = False   # tracked list becomes tainted
                        continue
                callees = self.resolve_call(call, scope)
                if callees:
                    insensitive = False
                    for callee, _ in callees:
                        contained &= self._fn_contained(callee, set())
                    continue
            contained, insensitive = False, False
        return contained, insensitive

    def _fn_contained(self, callee: Scope, visiting):
        """effects of a function called from an unordered loop are only mutations of tracked
        lists/sets (and calls of functions of which the same holds)"""
        if callee.qual in visiting:
            return True
        visiting = visiting | {callee.qual}
        for n in self._walk_scope(callee.node):
            if isinstance(n, (ast.Global,)):
                return False
            if isinstance(n, (ast.Assign, ast.AugAssign, ast.AnnAssign)):
                tgts = n.targets if isinstance(n, ast.Assign) else [n.target]
                for t in tgts:
                    for x in ast.walk(t):
                        if isinstance(x, ast.Attribute) and isinstance(x.ctx, ast.Store):
                            return False
                        if isinstance(x, ast.Name) and isinstance(x.ctx, ast.Store) and x.id in callee.nonlocals:
                            return False
            if isinstance(n, (ast.Yield, ast.YieldFrom)):
                return False
            if isinstance(n, ast.Expr) and isinstance(n.value, ast.Call):
                f = n.value.func
                if isinstance(f, ast.Attribute) and (f.attr in SET_OK or f.attr in LIST_MUT):
                    continue
                cs = self.resolve_call(n.value, callee)
                if not cs:
                    return False
                for c, _ in cs:
                    if not self._fn_contained(c, visiting):
                        return False
        return True

    def _for_site(self, loop, node, k, scope):
        contained, insensitive = self._body_effects(loop.body + loop.orelse, scope)
        if k.base == "set":
            return self._mk(node, scope, k, role="producer", contained=contained, insensitive=insensitive,
                            how="for loop")
        if insensitive or contained:
            return None   # loop over a tainted list whose effects stay in tracked collections
        return self._consumer(node, k, scope, how="for loop with untracked effects")


# ------------------------------------------------------------------ Lean output
def lstr(s: str) -> str:
    s = " ".join(s.split())
    return '"' + s.replace("\\", "\\\\").replace('"', '\\"') + '"'


def render(sites, external, files):
    L = []
    L.append("/-")
    L.append("  GENERATED by harness/translate/sort_sites.py from the exo tree under test — do not edit.")
    L.append("  Every place in " + ", ".join(files) + " where the iteration order of a")
    L.append("  set / dict / order-tainted list can reach the emitted text (see the translator's docstring).")
    L.append("-/")
    L.append("import ExoModel.Order")
    L.append("")
    L.append("namespace Exo.Gen.SortSites")
    L.append("open Exo.Order")
    L.append("")
    L.append("def sites : List Site := [")
    rows = []
    for s in sites:
        card = "none" if s["max_card"] is None else f"some {s['max_card']}"
        rows.append(
            "  { id := " + lstr(s["id"]) + ", func := " + lstr(s["func"]) + ", line := " + str(s["line"])
            + ",\n    src := " + lstr(s["src"][:120]) + ", coll := ." + {"set": "set", "tdict": "taintedDict", "tainted": "taintedList"}[s["kind"]]
            + ", role := ." + s["role"] + ", sorted := " + ("true" if s["sorted"] else "false")
            + ",\n    key := " + lstr(s["key"]) + ", keyKind := ." + s["key_kind"] + ", distinct := ." + s["distinct"]
            + ", maxCard := " + card
            + ",\n    insensitive := " + ("true" if s["insensitive"] else "false")
            + ", contained := " + ("true" if s["contained"] else "false")
            + ", origins := [" + ", ".join(lstr(o) for o in s["origins"]) + "]"
            + ", how := " + lstr(s["how"]) + " }"
        )
    L.append(",\n".join(rows))
    L.append("]")
    L.append("")
    L.append("/-- external callables / IR fields whose results are iterated and ASSUMED to be ordered sequences -/")
    L.append("def externalIterables : List String := [" + ", ".join(lstr(x) for x in sorted(external)) + "]")
    L.append("")
    L.append("end Exo.Gen.SortSites")
    return "\n".join(L) + "\n"


def analyse(repo=None):
    repo = Path(repo) if repo else REPO
    a = Analysis(repo / "src")
    a.run()
    sites = a.sites()
    sites.sort(key=lambda s: (s["file"] != PRIMARY, s["file"], s["line"], s["id"]))
    return a, sites


def generate(repo=None, out=OUT):
    """regenerate Gen/SortSites.lean; returns (sites, changed?)"""
    a, sites = analyse(repo)
    text = render(sites, a.external_iter, list(a.src))
    out.parent.mkdir(parents=True, exist_ok=True)
    old = out.read_text() if out.exists() else None
    if old != text:
        out.write_text(text)
    return sites, old != text


if __name__ == "__main__":
    import json
    import sys

    sites, ch = generate(sys.argv[1] if len(sys.argv) > 1 else None)
    for s in sites:
        print(json.dumps({k: v for k, v in s.items() if k not in ("file",)}))
    print("changed:", ch)
