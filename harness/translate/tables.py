"""Translator: live Python objects / ast of the exo tree under test  ->  lean/ExoModel/Gen/Tables15.lean

Regenerated on EVERY run of the C15 check (content is deterministic; the file is rewritten only when
it changed so that an unchanged tree costs no rebuild).  Extracted facts:

  * precisions          every distinct real-scalar type object of `exo.core.LoopIR.T` (R, f16, ...),
                        its `ctype()` (None where the call asserts), the shorthand used by
                        `LoopIR_compiler.window_struct` (None where it raises), the default precision
                        `prec_analysis.get_default_prec()` that `R` is spliced to, and (from the `ast`
                        of `set_default_prec`) the names accepted as a default
  * memories            every subclass of `Memory` defined in `exo/core/memory.py` and
                        `exo/libs/memories.py` (+ the two harness fixtures T_WO / T_RO):
                        `can_read()`, whether `write(...)` / `reduce(...)` raise MemGenError (there are
                        no can_write / can_reduce predicates in the code: the compiler just calls them),
                        the `issubclass` matrix, `issubclass(_, StaticMemory)`
  * alloc grid          for a fixed grid of allocation shapes the verdict of the REAL
                        `Mem.alloc(name, ctype, shape_strs, srcinfo)` (raises / returns)
"""
from __future__ import annotations

import ast
import inspect
from pathlib import Path

from common import LEAN, REPO, InfraError

OUT = LEAN / "ExoModel" / "Gen" / "Tables15.lean"

# allocation-shape grid: id -> list of C extent strings as `Compiler.shape_strs` produces them
ALLOC_GRID = [
    ("scalar", []),
    ("c4", ["4"]),
    ("c8", ["8"]),
    ("c16", ["16"]),
    ("sym", ["n"]),
    ("c2x8", ["2", "8"]),
    ("c2x16", ["2", "16"]),
    ("symx8", ["n", "8"]),
    ("symx16", ["n", "16"]),
]


class _Dummy:
    srcinfo = "<tables15>"
    name = "buf"


def _prec_name(t):
    return str(t)


def extract(exo_mod=None):
    """returns the table as a plain dict (also used by the harness for its independent spec)"""
    from exo.core.LoopIR import T
    from exo.core import memory as core_memory
    from exo.core.memory import Memory, StaticMemory, MemGenError
    from exo.libs import memories as lib_memories
    from exo.backend import prec_analysis
    from exo.backend import LoopIR_compiler
    from translate.c15_mems import fixture_memories

    tab = {}
    # ------------------------------------------------------------------ precisions
    seen, precs = set(), []
    for k, v in vars(T).items():
        if k.startswith("_") or isinstance(v, type):
            continue
        try:
            ok = v.is_real_scalar()
        except Exception:
            ok = False
        if ok and type(v) not in seen:
            seen.add(type(v))
            precs.append(v)
    names = [_prec_name(p) for p in precs]
    if "R" not in names:
        raise InfraError("T.R not found among the real scalar types")
    order = sorted(range(len(precs)), key=lambda i: (names[i] != "R", names[i]))
    precs = [precs[i] for i in order]
    names = [names[i] for i in order]
    tab["precs"] = names
    ctype, short = {}, {}
    for n, p in zip(names, precs):
        try:
            ctype[n] = p.ctype()
        except AssertionError:
            ctype[n] = None
        try:
            w = LoopIR_compiler.window_struct(p, 1, False).name
            short[n] = w[len("exo_win_1"):] if w.startswith("exo_win_1") else None
        except Exception:
            short[n] = None
    tab["ctype"] = ctype
    tab["win_short"] = short
    tab["default"] = _prec_name(prec_analysis.get_default_prec())
    # names accepted by set_default_prec: keys of its local dict `vals` (ast)
    settable = []
    src = Path(inspect.getsourcefile(prec_analysis)).read_text()
    for node in ast.walk(ast.parse(src)):
        if isinstance(node, ast.FunctionDef) and node.name == "set_default_prec":
            for sub in ast.walk(node):
                if isinstance(sub, ast.Assign) and isinstance(sub.value, ast.Dict):
                    settable = [k.value for k in sub.value.keys if isinstance(k, ast.Constant)]
    tab["settable_default"] = sorted(settable)

    # ------------------------------------------------------------------ memories
    classes = []
    for mod in (core_memory, lib_memories):
        found = [
            v for v in vars(mod).values()
            if isinstance(v, type) and issubclass(v, Memory) and v.__module__ == mod.__name__
        ]
        found.sort(key=lambda c: inspect.getsourcelines(c)[1])
        classes += found
    fix = fixture_memories()
    classes += [fix[k] for k in sorted(fix)]
    mnames = [c.__name__ for c in classes]
    if len(set(mnames)) != len(mnames):
        raise InfraError(f"duplicate memory class names {mnames}")
    tab["mems"] = mnames
    tab["fixtures"] = sorted(fix)

    def probe(f):
        try:
            r = f()
        except MemGenError:
            return False
        except NotImplementedError:
            return False
        return r

    caps = {}
    for c in classes:
        cr = probe(lambda: bool(c.can_read()))
        cw = probe(lambda: c.write(_Dummy, "L", "R") is not None or True)
        cd = probe(lambda: c.reduce(_Dummy, "L", "R") is not None or True)
        caps[c.__name__] = {"read": bool(cr), "write": bool(cw), "reduce": bool(cd)}
    tab["caps"] = caps
    tab["supers"] = {
        c.__name__: [d.__name__ for d in classes if issubclass(c, d)] for c in classes
    }
    tab["static"] = {c.__name__: issubclass(c, StaticMemory) for c in classes}

    # ------------------------------------------------------------------ alloc grid
    fails = []
    for c in classes:
        for n in names:
            ct = ctype[n]
            if ct is None:
                continue
            for sid, shp in ALLOC_GRID:
                ok = True
                try:
                    c.alloc("v", ct, list(shp), "<tables15>")
                except Exception:
                    ok = False
                finally:
                    if hasattr(c, "reset_allocations"):
                        try:
                            c.reset_allocations()
                        except Exception:
                            pass
                if not ok:
                    fails.append((c.__name__, n, sid))
    tab["alloc_fail"] = fails
    tab["alloc_grid"] = [sid for sid, _ in ALLOC_GRID]
    return tab


def _b(x):
    return "true" if x else "false"


def _opt_str(x):
    return "none" if x is None else f'some "{x}"'


def render(tab) -> str:
    P, M, G = tab["precs"], tab["mems"], tab["alloc_grid"]
    L = []
    L.append("/-")
    L.append("  GENERATED by harness/translate/tables.py from the exo tree under test — do not edit.")
    L.append("  Precisions / R default / ctype / window-struct shorthand, Memory capabilities,")
    L.append("  issubclass matrix and the verdict of the real `alloc` on a grid of shapes.")
    L.append("  T_WO / T_RO are the harness' test memories (harness/translate/c15_mems.py).")
    L.append("-/")
    L.append("namespace Exo.Gen.Tables15")
    L.append("")
    L.append("inductive Prec where")
    for p in P:
        L.append(f"  | {p}")
    L.append("  deriving DecidableEq, Repr, Inhabited")
    L.append("")
    L.append("def Prec.all : List Prec := [" + ", ".join(f".{p}" for p in P) + "]")
    L.append("")
    L.append("def Prec.toStr : Prec → String")
    for p in P:
        L.append(f'  | .{p} => "{p}"')
    L.append("")
    L.append("def Prec.ofStr? : String → Option Prec")
    for p in P:
        L.append(f'  | "{p}" => some .{p}')
    L.append("  | _ => none")
    L.append("")
    L.append("/-- `prec_analysis.get_default_prec()` : what `R` is spliced to -/")
    L.append(f"def defaultPrec : Prec := .{tab['default']}")
    L.append("")
    L.append("/-- names accepted by `set_default_prec` (keys of its `vals` dict) -/")
    L.append("def settableDefault : List Prec := [" + ", ".join(f".{p}" for p in tab["settable_default"] if p in P) + "]")
    L.append("")
    L.append("/-- `T.<p>.ctype()`; `none` where the call asserts (R) -/")
    L.append("def Prec.ctype : Prec → Option String")
    for p in P:
        L.append(f"  | .{p} => {_opt_str(tab['ctype'][p])}")
    L.append("")
    L.append("/-- shorthand of `LoopIR_compiler.window_struct`; `none` where it raises -/")
    L.append("def Prec.winShort : Prec → Option String")
    for p in P:
        L.append(f"  | .{p} => {_opt_str(tab['win_short'][p])}")
    L.append("")
    L.append("inductive Mem where")
    for m in M:
        L.append(f"  | {m}")
    L.append("  deriving DecidableEq, Repr, Inhabited")
    L.append("")
    L.append("def Mem.all : List Mem := [" + ", ".join(f".{m}" for m in M) + "]")
    L.append("")
    L.append("def Mem.toStr : Mem → String")
    for m in M:
        L.append(f'  | .{m} => "{m}"')
    L.append("")
    L.append("def Mem.ofStr? : String → Option Mem")
    for m in M:
        L.append(f'  | "{m}" => some .{m}')
    L.append("  | _ => none")
    L.append("")
    for cap, fn, doc in (
        ("read", "canRead", "`cls.can_read()`"),
        ("write", "canWrite", "`cls.write(s, lhs, rhs)` returns (does not raise MemGenError)"),
        ("reduce", "canReduce", "`cls.reduce(s, lhs, rhs)` returns (does not raise MemGenError)"),
    ):
        L.append(f"/-- {doc} -/")
        L.append(f"def Mem.{fn} : Mem → Bool")
        for m in M:
            L.append(f"  | .{m} => {_b(tab['caps'][m][cap])}")
        L.append("")
    L.append("/-- all classes `d` of the table with `issubclass(c, d)` -/")
    L.append("def Mem.supers : Mem → List Mem")
    for m in M:
        L.append(f"  | .{m} => [" + ", ".join(f".{d}" for d in tab["supers"][m]) + "]")
    L.append("")
    L.append("/-- `issubclass(a, b)` -/")
    L.append("def Mem.subclass (a b : Mem) : Bool := a.supers.contains b")
    L.append("")
    L.append("/-- `issubclass(c, StaticMemory)` -/")
    L.append("def Mem.isStatic : Mem → Bool")
    for m in M:
        L.append(f"  | .{m} => {_b(tab['static'][m])}")
    L.append("")
    L.append("inductive AllocShape where")
    for g in G:
        L.append(f"  | {g}")
    L.append("  deriving DecidableEq, Repr, Inhabited")
    L.append("")
    L.append("def AllocShape.toStr : AllocShape → String")
    for g in G:
        L.append(f'  | .{g} => "{g}"')
    L.append("")
    L.append("def AllocShape.ofStr? : String → Option AllocShape")
    for g in G:
        L.append(f'  | "{g}" => some .{g}')
    L.append("  | _ => none")
    L.append("")
    L.append("/-- (memory, precision, shape) on which the real `alloc` raises -/")
    L.append("def allocFail : List (Mem × Prec × AllocShape) := [")
    rows = [f"  (.{m}, .{p}, .{g})" for (m, p, g) in tab["alloc_fail"]]
    L.append(",\n".join(rows))
    L.append("]")
    L.append("")
    L.append("def Mem.allocOk (m : Mem) (p : Prec) (s : AllocShape) : Bool := !(allocFail.contains (m, p, s))")
    L.append("")
    L.append("end Exo.Gen.Tables15")
    return "\n".join(L) + "\n"


def regenerate():
    """extract + write (only when changed); returns (table dict, changed?)"""
    tab = extract()
    txt = render(tab)
    OUT.parent.mkdir(parents=True, exist_ok=True)
    old = OUT.read_text() if OUT.exists() else None
    changed = old != txt
    if changed:
        OUT.write_text(txt)
    return tab, changed


if __name__ == "__main__":
    import sys

    sys.path.insert(0, str(Path(__file__).resolve().parent.parent))
    from common import import_exo

    import_exo()
    t, ch = regenerate()
    print("changed" if ch else "unchanged", OUT)
