"""Test memories of the C15 check (harness fixtures, NOT part of /repo).

`fixture_memories()` builds, against the exo tree under test (import exo through
common.import_exo first), two direct subclasses of `exo.core.memory.Memory`:

  T_WO   write-only  : can_read() False, write allowed, reduce refused (default of Memory)
  T_RO   read-only   : can_read() True,  write / reduce refused (defaults of Memory)

Both allocate like DRAM (malloc / free), so every accepted program that uses them is plain C.
The classes are created once per process; the generated module namespace of scratch sources gets
them through `HEADER_EXTRA`.
"""
from __future__ import annotations

_CACHE = None


def fixture_memories():
    global _CACHE
    if _CACHE is not None:
        return _CACHE
    from exo.core.memory import Memory

    class _MallocMem(Memory):
        @classmethod
        def global_(cls):
            return "#include <stdio.h>\n#include <stdlib.h>\n"

        @classmethod
        def alloc(cls, new_name, prim_type, shape, srcinfo):
            if len(shape) == 0:
                return f"{prim_type} {new_name};"
            return (
                f"{prim_type} *{new_name} = "
                f"({prim_type}*) malloc({' * '.join(shape)} * sizeof(*{new_name}));"
            )

        @classmethod
        def free(cls, new_name, prim_type, shape, srcinfo):
            if len(shape) == 0:
                return ""
            return f"free({new_name});"

    class T_WO(_MallocMem):
        @classmethod
        def can_read(cls):
            return False

        @classmethod
        def write(cls, s, lhs, rhs):
            return f"{lhs} = {rhs};"

    class T_RO(_MallocMem):
        @classmethod
        def can_read(cls):
            return True

    _CACHE = {"T_WO": T_WO, "T_RO": T_RO}
    return _CACHE


# appended to exo_build.HEADER by the C15 harness: makes T_WO / T_RO visible in generated sources
HEADER_EXTRA = """
from translate.c15_mems import fixture_memories as _c15_fix
T_WO = _c15_fix()["T_WO"]
T_RO = _c15_fix()["T_RO"]
"""
