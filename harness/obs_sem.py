"""Observer: differential execution of (p, p') in the Lean reference interpreter (C01/C04/C10 X).

For every accepted attempt: export both procedures, take the configuration fields the system
reports as possibly changed (proc_eqv.get_strictest_eqv_proc), run both on inputs valid for p and
check the refinement direction of DESIGN 1.1 (original runs ⇒ derived runs and agrees on every
caller buffer and every unreported configuration field; poison may only become defined).
"""
from __future__ import annotations

import json
import random

import export_ir
import interp
from classify import classify_mismatch


class Observer:
    def __init__(self, rec, rng, opts):
        self.rec = rec
        self.rng = rng
        self.opts = opts
        self.n_inputs = opts.get("n_inputs", 4)
        self.I = None
        self.cache = {}

    def start(self, p0, env, src):
        self.I = interp.Interp()
        self.src = src

    def _exported(self, p):
        k = id(p)
        if k not in self.cache:
            pj, cfgs = export_ir.export(p)
            ins, res = self.I.gen_inputs(pj, cfgs, self.rng, self.n_inputs)
            self.cache[k] = (p, pj, cfgs, ins, res)
        return self.cache[k]

    def before(self, p, att):
        pass

    def rejected(self, p, att, r):
        pass

    def reported_modulo(self, p, p2):
        from exo.core import proc_eqv
        from exo.core.configs import reverse_config_lookup

        eq, keys = proc_eqv.get_strictest_eqv_proc(p._loopir_proc, p2._loopir_proc)
        out = set()
        for k in keys:
            try:
                cfg, fld = reverse_config_lookup(k)
                out.add((cfg.name(), fld))
            except Exception:
                out.add(("?", str(k)))
        return eq, out

    def accepted(self, p, att, p2, hist):
        c = self.rec["counts"]
        try:
            _, pj, cfgs, ins, res = self._exported(p)
            pj2, cfgs2 = export_ir.export(p2)
        except export_ir.ExportError as e:
            c["export-error"] = c.get("export-error", 0) + 1
            return
        eq, K = self.reported_modulo(p, p2)
        if not ins:
            c["no-valid-input"] = c.get("no-valid-input", 0) + 1
            return
        # configuration fields that only the derived procedure mentions get initial values too
        extra = sorted(k for k in cfgs2 if k not in cfgs)
        if extra:
            r = random.Random(json.dumps(extra))
            ins = [dict(i, cfg=i["cfg"] + [[cf[0], cf[1], cfgs2[cf], (interp.rat(r.randint(-3, 3)) if cfgs2[cf] == "d" else r.randint(0, 4))]
                                          for cf in extra]) for i in ins]
            res = self.I.run(pj, ins)
        self.rwcheck(p, att, pj, pj2, hist)
        self.sidecheck(p, att, pj, ins, res, hist)
        self.sidecheck2(p, att, pj, pj2, p2, ins, res, hist)
        res2 = self.I.run(pj2, ins)
        c["pairs-executed"] = c.get("pairs-executed", 0) + 1
        nontrivial = False
        for i, (ra, rb) in enumerate(zip(res, res2)):
            c["runs"] = c.get("runs", 0) + 1
            if "ok" in ra:
                nontrivial = True
            else:
                c["orig-err:" + ra.get("err", "?")] = c.get("orig-err:" + ra.get("err", "?"), 0) + 1
            bad = interp.compare(ra, rb, modulo=K)
            if not eq and bad is None:
                bad = None  # not reported equivalent at all: nothing to check beyond behaviour
            if bad is not None:
                key = classify_mismatch(att, p, p2, bad, pj, ins[i])
                self.rec["records"].append({
                    "kind": "mismatch", "key": key, "what": f"{att['op']}: {bad}",
                    "att": att, "hist": hist, "program": self.rec["name"], "src": self.src,
                    "before": str(p), "after": str(p2), "reported_modulo": sorted(map(list, K)),
                    "input": ins[i], "orig_result": ra, "derived_result": rb})
                break
        if nontrivial:
            c["pairs-nontrivial"] = c.get("pairs-nontrivial", 0) + 1
            self.rec.setdefault("distinct", []).append(
                hash((self.rec["name"], att["op"], json.dumps(att["path"]), json.dumps(att["args"], sort_keys=True),
                      len(hist))) & 0xFFFFFFFFFFFF)
        if len(self.rec.setdefault("samples", [])) < 2:
            self.rec["samples"].append({"op": att["op"], "args": att["args"], "path": att["path"],
                                        "after": str(p2)[:400]})

    MODELLED = {"insert_pass", "reorder_stmts", "cut_loop", "join_loops", "specialize",
                "eliminate_dead_code", "remove_loop", "add_loop", "fission", "fuse",
                "shift_loop", "unroll_loop", "divide_loop", "reorder_loops", "mult_loops", "lift_scope",
                "lift_alloc", "sink_alloc", "delete_buffer", "delete_pass", "expand_dim", "bind_expr",
                "divide_dim", "mult_dim", "rearrange_dim", "resize_dim", "unroll_buffer",
                "split_write", "merge_writes", "fold_into_reduce", "lift_reduce_constant", "inline_assign", "rewrite_expr",
                "inline", "extract_subproc", "commute_expr", "left_reassociate_expr", "divide_with_recompute",
                "stage_mem", "reuse_buffer"}

    def rwcheck(self, p, att, pj, pj2, hist):
        """correspondence A: the real output is the model rewrite (lean/ExoModel/Rewrite.lean)"""
        op, a = att["op"], att["args"]
        if op not in self.MODELLED:
            return
        path, k, flag = att["path"], 0, False
        if op == "insert_pass":
            flag = a["where"] == "before"
        elif op == "add_loop":
            flag = bool(a["guard"])
        elif op == "lift_alloc":
            k = a.get("n", 1)
        elif op == "extract_subproc":
            k = a.get("n", 1)
        elif op == "divide_with_recompute":
            k = a["outer_stride"]
        elif op == "stage_mem":
            k, flag = 1, bool(a["accum"])
        elif op == "reuse_buffer":
            k = sum((2 * i + (st == "orelse") + 1) * 256 ** n for n, (st, i) in enumerate(a["other"]))
        elif op in ("bind_expr", "rewrite_expr", "commute_expr", "left_reassociate_expr"):
            path = [st for st in path if st[0] in ("body", "orelse")]
        elif op in ("divide_dim", "resize_dim", "unroll_buffer"):
            if op == "resize_dim" and a.get("fold"):
                return  # no storage model for the folding variant (search only)
            k = a["dim"]
        elif op == "mult_dim":
            k = 16 * a["hi"] + a["lo"]
        elif op == "rearrange_dim":
            k = sum(q * 16 ** i for i, q in enumerate(a["perm"]))
        elif op == "fission":
            if a.get("n_lifts", 1) != 1:
                return
            k = path[-1][1] + (1 if a["where"] == "after" else 0)
            path = path[:-1]
            import exo.API_cursors as C
            from stream import locate
            if not path or not isinstance(locate(p, path), C.ForCursor):
                return  # fission of an `if` is not modelled (search only)
        name = op
        if op == "divide_loop":
            name = "divide_loop_perfect" if a["perfect"] else "divide_loop_" + a["tail"]
            k = a["q"]
        c = self.rec["counts"]
        req = {"op": "rwcheck", "name": name, "path": path, "k": k, "flag": flag, "before": pj, "after": pj2}
        out = json.loads(self.I.drv.ask(json.dumps(req, separators=(",", ":"))))
        c["rwcheck"] = c.get("rwcheck", 0) + 1
        c["rwcheck:" + op] = c.get("rwcheck:" + op, 0) + 1
        if not out.get("match") and "outside the model" in str(out.get("why", "")):
            # the Lean shape does not cover this instance (e.g. an `inline` actual that is neither a control expression,
            # a buffer nor a window): not a correspondence break — counted, covered by the differential execution only
            c["rwcheck-outside-model:" + op] = c.get("rwcheck-outside-model:" + op, 0) + 1
            return
        if not out.get("match"):
            sit = None
            try:
                k2 = classify_mismatch(att, p, None, "scope: shape differs from the model rewrite")
                if not k2.endswith(":semantic-mismatch"):
                    sit = k2
            except Exception:
                pass
            self.rec["records"].append({"kind": "shape-mismatch", "key": sit or f"rwcheck:{op}",
                                        "what": f"{op}: {out.get('why', out)}", "att": att, "hist": hist,
                                        "program": self.rec["name"], "src": self.src,
                                        "before": str(p), "after_json_body": None})

    def sidecheck(self, p, att, pj, ins, res, hist):
        """correspondence B for Check_ReorderStmts: the real check accepted ⇒ the SEMANTIC side condition of
        `Exo.C01S.reorder_stmts_in_context` (Fp.commuteAt at every dynamic visit of the pair) holds on the sampled
        valid inputs.  Exo's Commutes is conservative (write/write and read/write overlap rejected), so this cannot
        fire on a tree whose check is right."""
        if att["op"] != "reorder_stmts":
            return
        from common import LeanDriver
        c = self.rec["counts"]
        good = [i for i, r in zip(ins, res) if "ok" in r]
        if not good:
            return
        if getattr(self, "D2", None) is None:
            self.D2 = LeanDriver("Drivers/C01Storage.lean")
        out = json.loads(self.D2.ask(json.dumps({"op": "commute", "proc": pj, "path": att["path"], "inputs": good},
                                                separators=(",", ":"))))
        if "bad" in out:
            c["sidecheck-bad"] = c.get("sidecheck-bad", 0) + 1
            return
        for i, r in zip(good, out.get("results", [])):
            if "visits" not in r:
                continue
            c["sidecheck:commute-visits"] = c.get("sidecheck:commute-visits", 0) + r["visits"]
            if not r.get("nodefs", True):
                c["sidecheck:pair-with-definition(not covered by the theorem)"] = c.get("sidecheck:pair-with-definition(not covered by the theorem)", 0) + 1
                continue
            if r["commuting"] < r["visits"]:
                self.rec["records"].append({
                    "kind": "side-condition", "key": "reorder_stmts:commute-side-condition-fails",
                    "what": f"reorder_stmts accepted, but the two statements do not commute (Fp.commuteAt) in "
                            f"{r['visits'] - r['commuting']} of {r['visits']} dynamic visits on a valid input",
                    "att": att, "hist": hist, "program": self.rec["name"], "src": self.src,
                    "before": str(p), "input": i})
                break

    def sidecheck2(self, p, att, pj, pj2, p2, ins, res, hist):
        """correspondence B for the other modelled primitives (docs/C01Side.md): the semantic side condition of the
        primitive's `_in_context` theorem is evaluated by the Lean evaluator `SideTie.check` at every dynamic visit of the
        rewritten position on the sampled valid inputs.  `static` (a syntactic hypothesis of the theorem does not hold for
        the instance) and `nocond` are counted, never reported."""
        if att["op"] == "reorder_stmts":
            return
        import sidecheck as SC
        c = self.rec["counts"]
        try:
            pr = SC.params(att, p)
        except Exception:
            pr = None
        if pr is None:
            return
        good = [i for i, r in zip(ins, res) if "ok" in r][:2]
        if not good:
            return
        name, path, k, flag = pr
        out = SC.check(pj, pj2, name, path, k, flag, good)
        st, visits, failing = SC.summarize(out)
        c[f"sidecheck:{att['op']}:{st}"] = c.get(f"sidecheck:{att['op']}:{st}", 0) + 1
        c["sidecheck:visits"] = c.get("sidecheck:visits", 0) + (visits or 0)
        if st == "violation":
            inp = next((i for i, r in zip(good, out) if r.get("visits", 0) > r.get("holds", 0)), good[0])
            key = classify_mismatch(att, p, p2, "side condition fails", pj, inp)
            if key.endswith(":semantic-mismatch"):
                key = f"{att['op']}:side-condition-fails"
            self.rec["records"].append({
                "kind": "side-condition", "key": key,
                "what": f"{att['op']} accepted, but the side condition of its theorem fails at {failing} of {visits} dynamic visits on a valid input",
                "att": att, "hist": hist, "program": self.rec["name"], "src": self.src, "before": str(p), "after": str(p2),
                "input": inp})

    def finish(self):
        try:
            import sidecheck as SC
            SC.close()
        except BaseException:
            pass
        if getattr(self, "D2", None) is not None:
            self.D2.close()
        if self.I:
            self.I.close()
