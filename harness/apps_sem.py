"""End-to-end composition check for C01: the shipped application schedules (hundreds of primitive
applications, incl. replace with hardware instructions, stage_mem, divide_loop with tails, …) must
be equivalent to the algorithm they were derived from, in the Lean reference interpreter.

Only applications whose schedule is exact in real-number algebra are used (the halide blur/unsharp
apps replace `/ 3.0` by an integer multiply-high trick on ui16 and are therefore outside C01's
"up to real-number algebra").
"""
from __future__ import annotations

import contextlib
import io
import random
import time
from pathlib import Path

import export_ir
import interp

APPS = [
    # (path relative to the repository root, original, scheduled, how to build an input)
    ("apps/x86/sgemm/sgemm.py", "SGEMM", "sgemm_exo", "gemm"),
    ("apps/aarch64/sgemm/sgemm.py", "SGEMM", "sgemm_exo", "gemm"),
]


def gemm_input(rng, M, N, K):
    def buf(n):
        return [interp.rat(rng.randint(-3, 3)) for _ in range(n)]
    return {"args": [{"c": M}, {"c": N}, {"c": K},
                     {"v": {"buf": 0, "off": 0, "dims": [[M, K], [K, 1]]}},
                     {"v": {"buf": 1, "off": 0, "dims": [[K, N], [N, 1]]}},
                     {"v": {"buf": 2, "off": 0, "dims": [[M, N], [N, 1]]}}],
            "heap": [buf(M * K), buf(K * N), buf(M * N)], "cfg": []}


def run_apps(ctx, repo_root, n_apps, sizes):
    """returns list of (key, what, replay) mismatches; counts go to ctx"""
    import exo.main

    bad = []
    rng = random.Random(f"apps:{ctx.seed}")
    I = interp.Interp()
    try:
        for (rel, o, s, kind) in APPS[:n_apps]:
            path = Path(repo_root) / rel
            t0 = time.time()
            try:
                with contextlib.redirect_stdout(io.StringIO()):
                    mod = exo.main.load_user_code(path)
                p0, p1 = getattr(mod, o), getattr(mod, s)
                pj0, _ = export_ir.export(p0)
                pj1, _ = export_ir.export(p1)
            except BaseException as e:
                bad.append((f"app:{rel}:schedule-fails", f"{rel}: the shipped schedule no longer runs: {type(e).__name__}: {str(e)[:200]}",
                            {"app": rel}, True))
                continue
            ctx.count("apps-loaded")
            for (M, N, K) in sizes:
                M2, N2, K2 = M + rng.randint(0, 2), N + rng.randint(0, 3), K + rng.randint(0, 1)
                inp = gemm_input(rng, M2, N2, K2)
                ra = I.run(pj0, [inp])[0]
                rb = I.run(pj1, [inp])[0]
                ctx.count("apps-runs")
                ctx.evaluations += 1
                ctx.distinct.add(f"app:{rel}:{M2}x{N2}x{K2}")
                d = interp.compare(ra, rb)
                if d:
                    bad.append((f"app:{rel}:semantic-mismatch", f"{rel}: {s} differs from {o} on M,N,K={M2},{N2},{K2}: {d}",
                                {"app": rel, "original": o, "scheduled": s, "input": inp, "orig_result": ra,
                                 "derived_result": rb}, False))
                    break
            ctx.extra.setdefault("apps", []).append({"app": rel, "load_s": round(time.time() - t0, 1)})
    finally:
        I.close()
    return bad
