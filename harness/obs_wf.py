"""Observer for C04: every procedure a scheduling operation returns must be well formed
(lean/ExoModel/Wf.lean: every use in the scope of a declaration of the right kind and rank, no
double declaration, call arities) and must compile or be rejected by a documented backend check.
"""
from __future__ import annotations

import json

import export_ir
import interp
from classify import classify_mismatch

# exception classes / message fragments of the documented backend rejections
DOCUMENTED = ("MemGenError", "TypeError", "SchedulingError", "ParallelAnalysisError")


class Observer:
    def __init__(self, rec, rng, opts):
        self.rec = rec
        self.rng = rng
        self.opts = opts
        self.I = None
        self.compile_every = opts.get("compile_every", 12)
        self.n = 0

    def start(self, p0, env, src):
        self.I = interp.Interp()
        self.src = src
        pj, _ = export_ir.export(p0)
        if not self.wf(pj):
            self.rec["records"].append({"kind": "pool-not-wf", "program": self.rec["name"]})

    def wf(self, pj):
        out = json.loads(self.I.drv.ask(json.dumps({"op": "wf", "proc": pj}, separators=(",", ":"))))
        if "bad" in out:
            raise interp.InfraError(f"wf driver: {out['bad']}")
        return bool(out.get("wf"))

    def before(self, p, att):
        pass

    def parent_compiles(self, p):
        """only a procedure whose parent compiles is required to compile"""
        k = id(p)
        if not hasattr(self, "_cc"):
            self._cc = {}
        if k not in self._cc:
            try:
                p.c_code_str()
                self._cc[k] = (p, True)
            except BaseException:
                self._cc[k] = (p, False)
                c = self.rec["counts"]
                c["parent-does-not-compile"] = c.get("parent-does-not-compile", 0) + 1
        return self._cc[k][1]

    def rejected(self, p, att, r):
        pass

    def parent_wf(self, p):
        """C04 is about PRESERVATION: only a well-formed input obliges the output to be well formed (at depth 2 the
        input can be the ill-formed result of a recorded finding)"""
        k = id(p)
        if not hasattr(self, "_pwf"):
            self._pwf = {}
        if k not in self._pwf:
            try:
                pj, _ = export_ir.export(p)
                self._pwf[k] = (p, self.wf(pj))
            except export_ir.ExportError:
                self._pwf[k] = (p, True)
        return self._pwf[k][1]

    def accepted(self, p, att, p2, hist):
        c = self.rec["counts"]
        if hist and not self.parent_wf(p):
            c["input-not-wf(skipped)"] = c.get("input-not-wf(skipped)", 0) + 1
            return
        try:
            pj2, _ = export_ir.export(p2)
        except export_ir.ExportError:
            c["export-error"] = c.get("export-error", 0) + 1
            return
        c["wf-checked"] = c.get("wf-checked", 0) + 1
        if not self.wf(pj2):
            key = classify_mismatch(att, p, p2, "scope: result is not well formed")
            self.rec["records"].append({"kind": "not-wf", "key": key,
                                        "what": f"{att['op']}: the returned procedure is not well formed",
                                        "att": att, "hist": hist, "program": self.rec["name"], "src": self.src,
                                        "before": str(p), "after": str(p2)})
            return
        self.n += 1
        if self.n % self.compile_every == 0 and self.parent_compiles(p):
            c["compiled"] = c.get("compiled", 0) + 1
            try:
                p2.c_code_str()
            except BaseException as e:
                cls = type(e).__name__
                c["compile-reject:" + cls] = c.get("compile-reject:" + cls, 0) + 1
                if cls not in DOCUMENTED:
                    self.rec["records"].append({"kind": "compile-crash", "key": f"{att['op']}:compile:{cls}",
                                                "what": f"{att['op']}: derived procedure makes the backend raise {cls}: {str(e)[:200]}",
                                                "att": att, "hist": hist, "program": self.rec["name"], "src": self.src,
                                                "before": str(p), "after": str(p2)})
        if len(self.rec.setdefault("samples", [])) < 2:
            self.rec["samples"].append({"op": att["op"], "args": att["args"], "wf": True})

    def finish(self):
        if self.I:
            self.I.close()
