"""Run /repo's pinned test suite and check that every test of BASELINE.json's stable_pass passes.
usage: /venv/bin/python harness/baseline_check.py [-n WORKERS]"""
import json, subprocess, sys, tempfile, xml.etree.ElementTree as ET

n = sys.argv[sys.argv.index("-n") + 1] if "-n" in sys.argv else "8"
b = json.load(open("/root/.vp/BASELINE.json"))
stable = set(b["stable_pass"])
with tempfile.TemporaryDirectory() as d:
    x = f"{d}/j.xml"
    subprocess.run(["/venv/bin/python", "-m", "pytest", "-q", "-p", "no:cacheprovider", "--timeout=900",
                    "--continue-on-collection-errors", "-n", n, f"--junitxml={x}"], cwd="/repo",
                   stdout=subprocess.DEVNULL, stderr=subprocess.DEVNULL)
    ok = set()
    for tc in ET.parse(x).getroot().iter("testcase"):
        if not any(c.tag in ("failure", "error", "skipped") for c in tc):
            ok.add(f"{tc.get('classname')}::{tc.get('name')}")
missing = sorted(stable - ok)
print(f"stable_pass={len(stable)} passed_now={len(stable & ok)} missing={len(missing)}")
for m in missing[:50]:
    print("  NOT PASSING:", m)
sys.exit(1 if missing else 0)
