"""Tie B for the scheduling primitives of C01: the real (SMT-backed) check accepted an operation  =>
the SEMANTIC side condition of the primitive's `..._in_context` theorem holds at every dynamic visit
of the rewritten position, on sampled valid inputs (lean/ExoModel/SideCheck.lean, driver
lean/Drivers/C01Side.lean, op `side`).

    params(att, p)                                    -> (name, path, k, flag) | None   (conventions of rwcheck)
    check(pj_before, pj_after, name, path, k, flag, inputs, drv=None) -> list[dict]

Each returned dict is one of
    {"visits": n, "holds": m}      one per input (m < n: the side condition fails in n - m visits)
    {"invalid": e} / {"bad": e}    the input is not valid for the procedure / could not be parsed
or the list is a single
    {"static": msg}                a syntactic hypothesis of the theorem fails for this instance
    {"nocond": msg}                unexpected shape, or no side condition modelled for this primitive
"""
from __future__ import annotations

import json

SIDE_OPS = {"cut_loop", "join_loops", "shift_loop", "divide_loop", "remove_loop", "add_loop", "fission", "fuse",
            "eliminate_dead_code", "specialize", "unroll_loop", "mult_loops", "reorder_loops", "lift_scope",
            "divide_with_recompute", "rewrite_expr", "commute_expr", "left_reassociate_expr", "merge_writes",
            "split_write", "inline_assign", "fold_into_reduce", "lift_reduce_constant",
            "sink_alloc", "lift_alloc", "expand_dim", "resize_dim", "divide_dim", "mult_dim", "rearrange_dim",
            "delete_buffer", "unroll_buffer", "bind_expr", "stage_mem"}

_DRV = None


def driver():
    global _DRV
    if _DRV is None:
        from common import LeanDriver
        _DRV = LeanDriver("Drivers/C01Side.lean")
    return _DRV


def close():
    global _DRV
    if _DRV is not None:
        _DRV.close()
        _DRV = None


def params(att, p=None):
    """(name, path, k, flag) of an attempt, as obs_sem.rwcheck sends them; None if the variant has no model"""
    op, a = att["op"], att["args"]
    if op not in SIDE_OPS:
        return None
    path, k, flag = att["path"], 0, False
    if op == "add_loop":
        flag = bool(a["guard"])
    elif op == "lift_alloc":
        k = a.get("n", 1)
    elif op == "divide_with_recompute":
        k = a["outer_stride"]
    elif op == "stage_mem":
        k, flag = 1, bool(a["accum"])
    elif op in ("bind_expr", "rewrite_expr", "commute_expr", "left_reassociate_expr"):
        path = [st for st in path if st[0] in ("body", "orelse")]
    elif op in ("divide_dim", "resize_dim", "unroll_buffer"):
        if op == "resize_dim" and a.get("fold"):
            return None
        k = a["dim"]
    elif op == "mult_dim":
        k = 16 * a["hi"] + a["lo"]
    elif op == "rearrange_dim":
        k = sum(q * 16 ** i for i, q in enumerate(a["perm"]))
    elif op == "fission":
        if a.get("n_lifts", 1) != 1:
            return None
        k = path[-1][1] + (1 if a["where"] == "after" else 0)
        path = path[:-1]
        if p is not None:
            import exo.API_cursors as C
            from stream import locate
            if not path or not isinstance(locate(p, path), C.ForCursor):
                return None
    name = op
    if op == "divide_loop":
        name = "divide_loop_perfect" if a["perfect"] else "divide_loop_" + a["tail"]
        k = a["q"]
    return name, path, k, flag


def check(pj_before, pj_after, name, path, k, flag, inputs, drv=None):
    drv = drv or driver()
    req = {"op": "side", "name": name, "path": path, "k": k, "flag": flag,
           "before": pj_before, "after": pj_after, "inputs": inputs}
    out = json.loads(drv.ask(json.dumps(req, separators=(",", ":"))))
    if "results" in out:
        return out["results"]
    return [out]


def summarize(results):
    """-> (status, visits, failing): status in 'ok' | 'violation' | 'static' | 'nocond' | 'bad' | 'no-visit'"""
    if len(results) == 1 and ("static" in results[0] or "nocond" in results[0] or
                              ("bad" in results[0] and "visits" not in results[0])):
        r = results[0]
        return ("static" if "static" in r else "nocond" if "nocond" in r else "bad"), 0, 0
    visits = sum(r.get("visits", 0) for r in results)
    failing = sum(r.get("visits", 0) - r.get("holds", 0) for r in results if "visits" in r)
    if failing:
        return "violation", visits, failing
    return ("ok" if visits else "no-visit"), visits, 0
