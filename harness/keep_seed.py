"""python3 harness/keep_seed.py <seed dir> <eval json>  -> copies a confirmed seeded change to seeded/<id>/"""
import json, shutil, sys
from pathlib import Path
ROOT = Path(__file__).resolve().parent.parent
seed, ev = Path(sys.argv[1]), json.loads(Path(sys.argv[2]).read_text())
meta = json.loads((seed / "meta.json").read_text())
ok = ev.get("patch_applies") and ev.get("demo_clean_rc") == 0 and ev.get("demo_patched_rc") not in (0, None)
if not ok:
    print("NOT confirmed:", {k: ev.get(k) for k in ("patch_applies", "demo_clean_rc", "demo_patched_rc")})
    sys.exit(1)
dst = ROOT / "seeded" / seed.name
dst.mkdir(parents=True, exist_ok=True)
for f in ("patch.diff", "demo.py"):
    shutil.copy(seed / f, dst / f)
meta["confirmed"] = {
    "how": "harness/seed_eval.py: patch applied to a scratch worktree of /repo HEAD; demo.py run with PYTHONPATH=<tree>/src on the clean tree (exit 0) and on the patched tree (non-zero); checks run with EXO_REPO=<patched worktree>",
    "demo_clean_rc": ev["demo_clean_rc"], "demo_patched_rc": ev["demo_patched_rc"],
    "checks": {c: {"exit": v["rc"], "caught": v["rc"] == 1, "first_findings": v["what"][:3], "wall_s": v["wall_s"]}
               for c, v in ev["checks"].items()},
}
(dst / "meta.json").write_text(json.dumps(meta, indent=1))
print("kept", dst, {c: v["rc"] for c, v in ev["checks"].items()})
