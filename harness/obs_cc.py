"""Observer of the schedule stream for C02 / C08: compile + run (ccpipe.check_proc) the pool program as
written and a sample of the procedures that accepted scheduling rewrites produce.

The sample is count-based (deterministic for a seed): at most `cc_per_op` variants per primitive
and `cc_total` per program; textually identical procedures are compiled once.
"""
from __future__ import annotations

import random

import ccmodel
import ccpipe
import interp

_REC = None   # one set of wrappers per worker process


class Observer:
    def __init__(self, rec, rng, opts):
        self.rec = rec
        self.rng = rng
        self.opts = opts
        self.I = None
        self.per_op = {}
        self.total = 0
        self.seen = set()
        self.src = None

    def start(self, p0, env, src):
        global _REC
        if _REC is None:
            _REC = ccmodel.Recorder()
            _REC.install()
        _REC.cases, _REC.counts = {}, {}
        _REC.limit = self.opts.get("record_limit", 300)
        self.rng = random.Random(f"{self.rng.random()}:{self.opts.get('salt', '')}")
        self.I = interp.Interp()
        self.src = src
        self.seen.add(str(p0))
        self._check(p0, "orig", [], self.opts.get("n_inputs0", 6))
        script = ccpipe.EXTRA_SCHED.get(self.rec["name"].split("~")[0])
        if script:
            import stream

            try:
                p = p0
                for att in script:
                    p = stream.apply_attempt(p, att, env)
            except stream.Rejected as r:
                c = self.rec["counts"]
                c["scripted-schedule-rejected"] = c.get("scripted-schedule-rejected", 0) + 1
            else:
                self.seen.add(str(p))
                self._check(p, "scripted:" + script[-1]["op"], list(script), self.opts.get("n_inputs0", 6))

    def _check(self, p, tag, hist, n_inputs):
        c = self.rec["counts"]
        fs = ccpipe.check_proc(p, self.I, self.rng, c, n_inputs=n_inputs, tag=tag,
                               small=self.opts.get("small_inputs", False))
        c["procs-checked"] = c.get("procs-checked", 0) + 1
        # statement-level tie (C02 wave 2): the emitted function body is the model's compL output
        import ccstmt
        import common
        try:
            r = ccstmt.check_proc_full(p)
        except common.InfraError:
            raise
        except BaseException as e:   # a mutated tree may raise anywhere: that is data, not a crash
            r = {"status": "skipped", "why": "exception:" + type(e).__name__, "mismatches": []}
        c["stmt:" + r["status"]] = c.get("stmt:" + r["status"], 0) + 1
        if r["status"] == "skipped":
            k = "stmt-skip:" + str(r.get("why", "?")).split(" ")[0][:40]
            c[k] = c.get(k, 0) + 1
        elif r["status"] == "mismatch":
            fs.append({"kind": "stmt-mismatch", "key": "model-correspondence:comp_s",
                       "what": "emitted function body differs from the model's compL output: " + "; ".join(map(str, r["mismatches"][:3]))[:500],
                       "real": r.get("real", [])[:60], "model": r.get("model", [])[:60]})
        elif r.get("modOK") is False:
            c["stmt:covered-but-modOK-false(F6)"] = c.get("stmt:covered-but-modOK-false(F6)", 0) + 1
        if r["status"] == "covered" and r.get("wtC") is not None:
            c["wtC:" + str(r["wtC"])] = c.get("wtC:" + str(r["wtC"]), 0) + 1
            if r["wtC"] is False:
                fs.append({"kind": "wtc", "key": "model-correspondence:wtC",
                           "what": "the emitted function body (= the model's compL output) is rejected by the typing judgement CTyping.wtFun",
                           "real": r.get("real", [])[:80]})
        # C08: the static Free discipline under which the monitored C run is proved free of use-after-free /
        # double free / leak (Props/C02Stmt.lean freeOK_sound_c) must hold of what MemoryAnalysis + comp_s emit
        if r["status"] == "covered" and r.get("freeOK") is not None:
            c["freeOK:" + str(r["freeOK"])] = c.get("freeOK:" + str(r["freeOK"]), 0) + 1
            if r["freeOK"] is False:
                try:
                    f7 = ccpipe.free_before_alias_use(p._loopir_proc)
                except BaseException:
                    f7 = []
                fs.append({"kind": "free-discipline", "key": ccpipe.KEY_F7 if f7 else "free-discipline:FreeOK-fails",
                           "what": ("the emitted body violates the Free discipline FreeOK (free of a buffer that is still used, "
                                    "freed twice, freed in another block, or not freed at block exit)"
                                    + (f"; buffers freed before a use through a window alias: {f7}" if f7 else "")),
                           "real": r.get("real", [])[:80]})
        c["procs-checked:" + tag] = c.get("procs-checked:" + tag, 0) + 1
        for f in fs:
            f.update({"program": self.rec["name"], "src": self.src, "hist": hist, "proc_text": str(p)[:3000]})
            self.rec["records"].append(f)
        if tag != "orig" and len(self.rec.setdefault("samples", [])) < 1 and not fs:
            self.rec["samples"].append({"program": self.rec["name"], "hist": [h["op"] for h in hist],
                                        "proc": str(p)[:300]})

    def before(self, p, att):
        pass

    def rejected(self, p, att, r):
        pass

    def accepted(self, p, att, p2, hist):
        op = att["op"]
        if self.total >= self.opts.get("cc_total", 12):
            return
        if self.per_op.get(op, 0) >= self.opts.get("cc_per_op", 1):
            return
        if self.rng.random() >= self.opts.get("cc_prob", 1.0):
            return
        s = str(p2)
        if s in self.seen:
            return
        self.seen.add(s)
        self.per_op[op] = self.per_op.get(op, 0) + 1
        self.total += 1
        self._check(p2, op, hist + [att], self.opts.get("n_inputs", 3))

    def finish(self):
        if _REC is not None:
            self.rec["cases"] = dict(_REC.cases)
        try:
            import ccstmt
            ccstmt.close()
        except BaseException:
            pass
        if self.I:
            self.I.close()
