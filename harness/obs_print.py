"""Observer of the schedule stream for C17 (the printed procedure denotes the procedure).

For every distinct procedure p' the stream produces:
  1. print it with an instrumented `PrintEnv` (every `get_name` / `push` recorded), walk the LoopIR
     independently (`walk_ops`: binders, uses and scopes as LoopIR defines them) and
       - compare the two operation sequences (is the printer's traversal the modelled one?),
       - with the walker's scopes, look for two distinct live Syms shown with one name;
     a sample of the recorded operation sequences goes back to the parent, which replays them in the
     Lean model (`Exo.Print.run`).
  2. re-parse `str(p')` through the real `@proc` in a generated module that holds the configs and the
     printed callees, print the result again, export both and run both in the Lean reference
     interpreter on inputs valid for p' (`interp.compare`, both directions).
Anything that cannot be re-read for a reason that is not the printer's (p' itself ill-scoped, two
different callees of one name, ...) is excluded and counted under `excluded:<reason>`.
"""
from __future__ import annotations

import re
import traceback

import export_ir
import exo_build
import interp


# ---------------------------------------------------------------------------- LoopIR walk
def _mods():
    from exo.core.LoopIR import LoopIR, T
    return LoopIR, T


class Walk:
    """operation sequence the printer is expected to perform on a proc: ('g', sym) | ('u',) | ('o',)
    in the order of `_print_proc`; also which get is a binder and whether every use is in scope"""

    def __init__(self):
        self.ops = []
        self.binder = []      # parallel to the 'g' operations: True for a binding occurrence
        self.scopes = [set()]
        self.ill_scoped = []
        self.constructs = {}

    def c(self, k):
        self.constructs[k] = self.constructs.get(k, 0) + 1

    def get(self, s, bind=False):
        self.ops.append(("g", s))
        self.binder.append(bind)
        if bind:
            self.scopes[-1].add(s)
        elif not any(s in sc for sc in self.scopes):
            self.ill_scoped.append(str(s))

    def push(self):
        self.ops.append(("u",))
        self.scopes.append(set())

    def pop(self):
        self.ops.append(("o",))
        self.scopes.pop()

    def expr(self, e):
        LoopIR, T = _mods()
        if isinstance(e, LoopIR.Read):
            self.get(e.name)
            for i in e.idx:
                self.expr(i)
        elif isinstance(e, LoopIR.Const):
            pass
        elif isinstance(e, LoopIR.USub):
            self.expr(e.arg)
        elif isinstance(e, LoopIR.BinOp):
            self.expr(e.lhs)
            self.expr(e.rhs)
        elif isinstance(e, LoopIR.WindowExpr):
            self.c("WindowExpr")
            self.get(e.name)
            for w in e.idx:
                if isinstance(w, LoopIR.Interval):
                    self.expr(w.lo)
                    self.expr(w.hi)
                else:
                    self.expr(w.pt)
        elif isinstance(e, LoopIR.StrideExpr):
            self.c("StrideExpr")
            self.get(e.name)
        elif isinstance(e, LoopIR.Extern):
            self.c("Extern")
            for a in e.args:
                self.expr(a)
        elif isinstance(e, LoopIR.ReadConfig):
            self.c("ReadConfig")
        else:
            raise ValueError(f"unknown expr {type(e)}")

    def type_(self, t):
        LoopIR, T = _mods()
        if isinstance(t, T.Tensor):
            if t.is_window:
                self.c("window-type-arg")
            for r in t.shape():
                self.expr(r)

    def fnarg(self, a):
        LoopIR, T = _mods()
        # `_print_fnarg` prints the type before it asks for the argument's name
        if not (a.type == T.size or a.type == T.index):
            self.type_(a.type)
        self.get(a.name, bind=True)

    def stmts(self, ss):
        for s in ss:
            self.stmt(s)

    def stmt(self, s):
        LoopIR, T = _mods()
        if isinstance(s, LoopIR.Pass):
            pass
        elif isinstance(s, (LoopIR.Assign, LoopIR.Reduce)):
            self.get(s.name)
            for i in s.idx:
                self.expr(i)
            self.expr(s.rhs)
        elif isinstance(s, LoopIR.WriteConfig):
            self.c("WriteConfig")
            self.expr(s.rhs)
        elif isinstance(s, LoopIR.WindowStmt):
            self.c("WindowStmt")
            self.expr(s.rhs)
            self.get(s.name, bind=True)
        elif isinstance(s, LoopIR.Alloc):
            self.type_(s.type)
            self.get(s.name, bind=True)
        elif isinstance(s, LoopIR.Free):
            self.c("Free")
            self.get(s.name)
        elif isinstance(s, LoopIR.Call):
            self.c("Call")
            for a in s.args:
                self.expr(a)
        elif isinstance(s, LoopIR.If):
            self.expr(s.cond)
            self.push()
            self.stmts(s.body)
            self.pop()
            if s.orelse:
                self.push()
                self.stmts(s.orelse)
                self.pop()
        elif isinstance(s, LoopIR.For):
            if isinstance(s.loop_mode, LoopIR.Par):
                self.c("par-loop")
            self.expr(s.lo)
            self.expr(s.hi)
            self.push()
            self.get(s.iter, bind=True)
            self.stmts(s.body)
            self.pop()
        else:
            raise ValueError(f"unknown stmt {type(s)}")

    def proc(self, p):
        for a in p.args:
            self.fnarg(a)
        if p.instr:
            self.c("instr")
        for e in p.preds:
            self.expr(e)
        self.stmts(p.body)
        return self


def walk_ops(ir):
    return Walk().proc(ir)


# ---------------------------------------------------------------------------- instrumented print
class Tracer:
    """records what `PrintEnv` does while a procedure is printed"""

    def __init__(self):
        import exo.core.LoopIR_pprint as PP
        self.PP = PP
        self.events = None
        self.keep = []
        self.orig_get = PP.PrintEnv.get_name
        self.orig_push = PP.PrintEnv.push
        tr = self

        def get_name(env, nm):
            r = tr.orig_get(env, nm)
            if tr.events is not None:
                tr.events.append(("g", id(env), nm, r))
            return r

        def push(env):
            c = tr.orig_push(env)
            if tr.events is not None:
                tr.keep.append(c)
                tr.events.append(("u", id(env), id(c)))
            return c

        PP.PrintEnv.get_name = get_name
        PP.PrintEnv.push = push

    def close(self):
        self.PP.PrintEnv.get_name = self.orig_get
        self.PP.PrintEnv.push = self.orig_push

    def trace(self, fn):
        """run fn() with recording on; returns (result, ops) with ops = ('g', sym, name) | ('u',) | ('o',)"""
        self.events, self.keep = [], []
        try:
            res = fn()
        finally:
            ev, self.events, keep, self.keep = self.events, None, self.keep, []
        ops, stack = [], []
        for e in ev:
            env = e[1]
            if not stack:
                stack.append(env)
            while len(stack) > 1 and stack[-1] != env:
                stack.pop()
                ops.append(("o",))
            if stack[-1] != env:
                raise ValueError("PrintEnv used outside the stack discipline")
            if e[0] == "g":
                ops.append(("g", e[2], e[3]))
            else:
                stack.append(e[2])
                ops.append(("u",))
        while len(stack) > 1:
            stack.pop()
            ops.append(("o",))
        del keep
        return res, ops


def sym_key(s, table):
    """symbols by (name, first-occurrence index)"""
    k = id(s)
    if k not in table:
        table[k] = (s.name(), len(table) + 1)
    return table[k]


def ops_to_line(ops, table=None):
    table = {} if table is None else table
    out = []
    for o in ops:
        if o[0] == "g":
            nm, i = sym_key(o[1], table)
            out.append(f"g {nm} {i}")
        else:
            out.append(o[0])
    return " ; ".join(out)


def norm_pops(ops):
    """drop pops that are immediately implied (trailing pops / order of pop events is only
    observable at the next operation): canonical form = pops placed lazily before the next g/u"""
    out, pending = [], 0
    for o in ops:
        if o[0] == "o":
            pending += 1
        else:
            out.extend([("o",)] * pending)
            pending = 0
            out.append(o)
    return out


_GEN = re.compile(r"^(.*)_([0-9]+)$")


def classify_collision(name, s1, s2):
    """key of a collision of two distinct live symbols both shown as `name`"""
    for a, b in ((s1, s2), (s2, s1)):
        m = _GEN.match(name)
        if a.name() == name and m and b.name() == m.group(1):
            return "get_name:generated-candidate-collides-with-user-name"
    return "get_name:two-live-symbols-one-name"


def live_collisions(walk, names):
    """with the walker's scopes: distinct live symbols shown alike.  names: printed name of every
    'g' operation of walk.ops, in order."""
    res = []
    scopes = [dict()]          # sym -> printed name
    gi = 0
    for o in walk.ops:
        if o[0] == "u":
            scopes.append(dict())
        elif o[0] == "o":
            scopes.pop()
        else:
            s, nm, bind = o[1], names[gi], walk.binder[gi]
            gi += 1
            for sc in scopes:
                for s2, nm2 in sc.items():
                    if nm2 == nm and s2 != s:
                        res.append((nm, s, s2))
            if bind:
                scopes[-1][s] = nm
    return res


# ---------------------------------------------------------------------------- re-parse
def config_src(cfg):
    import exo.core.LoopIR_pprint as PP
    rw = "" if cfg.is_allow_rw() else "(readwrite=False)"
    lines = [f"@config{rw}", f"class {cfg.name()}:"]
    for fn, _ in cfg.fields():
        lines.append(f"    {fn}: {PP._print_type(cfg.lookup_type(fn), PP.PrintEnv())}")
    return "\n".join(lines) + "\n"


def collect_deps(ir):
    """configs and callees (post-order, distinct objects) mentioned by a LoopIR proc"""
    LoopIR, T = _mods()
    cfgs, callees, seen = {}, [], set()

    def ex(e):
        if isinstance(e, LoopIR.ReadConfig):
            cfgs.setdefault(e.config.name(), []).append(e.config)
        for ch in _children_e(e):
            ex(ch)

    def _children_e(e):
        if isinstance(e, LoopIR.Read):
            return e.idx
        if isinstance(e, LoopIR.USub):
            return [e.arg]
        if isinstance(e, LoopIR.BinOp):
            return [e.lhs, e.rhs]
        if isinstance(e, LoopIR.Extern):
            return e.args
        if isinstance(e, LoopIR.WindowExpr):
            out = []
            for w in e.idx:
                out += [w.lo, w.hi] if isinstance(w, LoopIR.Interval) else [w.pt]
            return out
        return []

    def st(s):
        if isinstance(s, (LoopIR.Assign, LoopIR.Reduce)):
            for i in s.idx:
                ex(i)
            ex(s.rhs)
        elif isinstance(s, LoopIR.WriteConfig):
            cfgs.setdefault(s.config.name(), []).append(s.config)
            ex(s.rhs)
        elif isinstance(s, LoopIR.WindowStmt):
            ex(s.rhs)
        elif isinstance(s, LoopIR.Alloc):
            if isinstance(s.type, T.Tensor):
                for r in s.type.shape():
                    ex(r)
        elif isinstance(s, LoopIR.Call):
            for a in s.args:
                ex(a)
            pr(s.f, top=False)
        elif isinstance(s, LoopIR.If):
            ex(s.cond)
            for x in s.body:
                st(x)
            for x in s.orelse:
                st(x)
        elif isinstance(s, LoopIR.For):
            ex(s.lo)
            ex(s.hi)
            for x in s.body:
                st(x)

    def pr(p, top):
        if id(p) in seen:
            return
        seen.add(id(p))
        for a in p.args:
            if isinstance(a.type, T.Tensor):
                for r in a.type.shape():
                    ex(r)
        for e in p.preds:
            ex(e)
        for s in p.body:
            st(s)
        if not top:
            callees.append(p)

    pr(ir, top=True)
    return cfgs, callees


def norm_msg(msg):
    """error message without file position and numbers: the class of a rejection"""
    m = re.sub(r"^\S*?:\d+:\d+:\s*", "", msg.strip().split("\n")[0])
    return re.sub(r"\d+", "N", m)[:80]


def norm_diff(d):
    """class of a structural difference: symbols, numbers and quoted source text abstracted"""
    d = d.split("`")[0]
    d = re.sub(r"[A-Za-z_]\w*_\d+", "S", d)
    return re.sub(r"\d+", "N", d).strip()[:70]


class Excluded(Exception):
    def __init__(self, reason, detail=""):
        super().__init__(f"{reason}: {detail}")
        self.reason = reason
        self.detail = detail


def module_source(ir, text):
    """source of a module in which `text` (= str(ir)) can be re-read: configs, printed callees, text"""
    cfgs, callees = collect_deps(ir)
    parts = []
    for name, objs in sorted(cfgs.items()):
        if len({id(o) for o in objs}) > 1:
            srcs = {config_src(o) for o in objs}
            if len(srcs) > 1:
                raise Excluded("two-configs-one-name", name)
        parts.append(config_src(objs[0]))
    by_name = {}
    for c in callees:
        t = str(c)
        if c.name in by_name:
            if by_name[c.name] != t:
                raise Excluded("two-callees-one-name", c.name)
            continue
        if c.name == ir.name:
            raise Excluded("callee-named-like-the-procedure", c.name)
        by_name[c.name] = t
        parts.append("@c17_callee\n" + t + "\n")
    parts.append("@c17_main\n" + text + "\n")
    return "\n".join(parts)


MODULE_HEADER = exo_build.HEADER + "from obs_print import c17_callee, c17_main\n"


class CalleeRejected(Exception):
    pass


class Reread:
    """what reading the text back gave: the UAST, and (if the later front-end stages accept it)
    the type-checked LoopIR / the Procedure"""

    def __init__(self, uast):
        self.uast = uast
        self.loopir = None
        self.stage = None       # front-end stage that rejected: typecheck | bounds | aliasing
        self.error = None


def _parse_uast(f, depth):
    from exo.frontend.pyparser import Parser, get_ast_from_python, get_parent_scope
    body, src_info = get_ast_from_python(f)
    return Parser(body, src_info, parent_scope=get_parent_scope(depth=depth), as_func=True).result()


def c17_callee(f):
    """@proc for the printed callees: a callee the front end does not take back is not the
    printer's business here (it is checked when it is the stream's own result)"""
    from exo import Procedure
    uast = _parse_uast(f, 3)
    try:
        return Procedure(uast)
    except BaseException as e:
        if isinstance(e, (KeyboardInterrupt, SystemExit, MemoryError)):
            raise
        raise CalleeRejected(f"{type(e).__name__}: {str(e)[:200]}")


def c17_main(f):
    """@proc split into its stages: parse (must succeed), then typecheck / bounds / aliasing"""
    from exo.frontend.typecheck import TypeChecker
    from exo.frontend.boundscheck import CheckBounds
    from exo.rewrite.new_eff import Check_Aliasing
    r = Reread(_parse_uast(f, 3))
    stage = "typecheck"
    try:
        r.loopir = TypeChecker(r.uast).get_loopir()
        stage = "bounds"
        CheckBounds(r.loopir)
        stage = "aliasing"
        Check_Aliasing(r.loopir)
    except BaseException as e:
        if isinstance(e, (KeyboardInterrupt, SystemExit, MemoryError)):
            raise
        r.stage, r.error = stage, f"{type(e).__name__}: {str(e)[:300]}"
    return r


def reparse(ir, text):
    """-> (Reread, module source); raises Excluded / CalleeRejected / whatever the parser raises"""
    src = module_source(ir, text)
    mod = exo_build.build_module(src, header=MODULE_HEADER)
    r = getattr(mod, ir.name, None)
    if not isinstance(r, Reread):
        raise Excluded("procedure-name-shadowed", ir.name)
    return r, src


# ---------------------------------------------------------------------------- LoopIR vs UAST
class Differs(Exception):
    pass


class Match:
    """is the UAST read back the LoopIR that was printed?  Symbols are related by the bijection
    the binders establish; literals: `Const(-c)` may come back as `USub(Const(c))`."""

    def __init__(self):
        self.fwd = {}
        self.bwd = {}

    def fail(self, what):
        raise Differs(what)

    def bind(self, a, b):
        # the same LoopIR Sym may bind in several disjoint scopes (fission copies a loop without
        # renaming its iterator); what is read back always has a fresh Sym per binder
        if b in self.bwd:
            self.fail(f"binder {b!r} read back for two binders ({self.bwd[b]!r}, {a!r})")
        self.fwd[a] = b
        self.bwd[b] = a

    def use(self, a, b):
        if self.fwd.get(a) is None or not (self.fwd[a] == b):
            self.fail(f"use of {a!r} reads back as {b!r} (expected {self.fwd.get(a)!r})")

    def typ(self, t, u):
        LoopIR, T = _mods()
        if type(t).__name__ != type(u).__name__:
            self.fail(f"type {type(t).__name__} reads back as {type(u).__name__}")
        if isinstance(t, T.Tensor):
            if bool(t.is_window) != bool(u.is_window):
                self.fail("window flag of a tensor type")
            self.typ(t.type, u.type)
            self.exprs(t.hi, u.hi)

    def exprs(self, es, us):
        if len(es) != len(us):
            self.fail(f"{len(es)} expressions read back as {len(us)}")
        for e, u in zip(es, us):
            self.expr(e, u)

    def expr(self, e, u):
        from exo.core.LoopIR import UAST
        LoopIR, T = _mods()
        if isinstance(e, LoopIR.Const):
            if isinstance(u, UAST.Const):
                if type(e.val) is not type(u.val) or not (e.val == u.val):
                    self.fail(f"literal {e.val!r} reads back as {u.val!r}")
                return
            if (isinstance(u, UAST.USub) and isinstance(u.arg, UAST.Const) and not isinstance(e.val, bool)
                    and str(e.val).startswith("-") and type(e.val) is type(u.arg.val) and -e.val == u.arg.val):
                return
            self.fail(f"literal {e.val!r} reads back as {type(u).__name__}")
        if type(e).__name__ != type(u).__name__:
            self.fail(f"{type(e).__name__} `{e}` reads back as {type(u).__name__}")
        if isinstance(e, LoopIR.Read):
            self.use(e.name, u.name)
            self.exprs(e.idx, u.idx)
        elif isinstance(e, LoopIR.USub):
            self.expr(e.arg, u.arg)
        elif isinstance(e, LoopIR.BinOp):
            if str(e.op) != str(u.op):
                self.fail(f"operator {e.op} reads back as {u.op} in `{e}`")
            self.expr(e.lhs, u.lhs)
            self.expr(e.rhs, u.rhs)
        elif isinstance(e, LoopIR.WindowExpr):
            self.use(e.name, u.name)
            if len(e.idx) != len(u.idx):
                self.fail("number of window accesses")
            for w, v in zip(e.idx, u.idx):
                if type(w).__name__ != type(v).__name__:
                    self.fail("interval / point of a window access")
                if isinstance(w, LoopIR.Interval):
                    if v.lo is None or v.hi is None:
                        self.fail("window interval bound lost")
                    self.expr(w.lo, v.lo)
                    self.expr(w.hi, v.hi)
                else:
                    self.expr(w.pt, v.pt)
        elif isinstance(e, LoopIR.StrideExpr):
            self.use(e.name, u.name)
            if e.dim != u.dim:
                self.fail("stride dimension")
        elif isinstance(e, LoopIR.Extern):
            if e.f.name() != u.f.name():
                self.fail("extern function")
            self.exprs(e.args, u.args)
        elif isinstance(e, LoopIR.ReadConfig):
            if e.config.name() != u.config.name() or e.field != u.field:
                self.fail("configuration field read")
        else:
            self.fail(f"unknown expression {type(e).__name__}")

    def stmts(self, ss, us):
        if len(ss) != len(us):
            self.fail(f"block of {len(ss)} statements reads back as {len(us)}")
        for s, u in zip(ss, us):
            self.stmt(s, u)

    def stmt(self, s, u):
        from exo.core.LoopIR import UAST
        LoopIR, T = _mods()
        sn, un = type(s).__name__, type(u).__name__
        want = {"WindowStmt": "FreshAssign"}.get(sn, sn)
        if want != un:
            self.fail(f"statement {sn} reads back as {un}")
        if isinstance(s, (LoopIR.Assign, LoopIR.Reduce)):
            self.use(s.name, u.name)
            self.exprs(s.idx, u.idx)
            self.expr(s.rhs, u.rhs)
        elif isinstance(s, LoopIR.WriteConfig):
            if s.config.name() != u.config.name() or s.field != u.field:
                self.fail("configuration field written")
            self.expr(s.rhs, u.rhs)
        elif isinstance(s, LoopIR.WindowStmt):
            self.expr(s.rhs, u.rhs)
            self.bind(s.name, u.name)
        elif isinstance(s, LoopIR.Alloc):
            self.typ(s.type, u.type)
            if (s.mem.name() if s.mem else "DRAM") != (u.mem.name() if u.mem else "DRAM"):
                self.fail("memory of an allocation")
            self.bind(s.name, u.name)
        elif isinstance(s, LoopIR.Call):
            if s.f.name != u.f.name:
                self.fail("callee")
            self.exprs(s.args, u.args)
        elif isinstance(s, LoopIR.If):
            self.expr(s.cond, u.cond)
            self.stmts(s.body, u.body)
            self.stmts(s.orelse, u.orelse)
        elif isinstance(s, LoopIR.For):
            want_rng = "ParRange" if isinstance(s.loop_mode, LoopIR.Par) else "SeqRange"
            if type(u.cond).__name__ != want_rng:
                self.fail(f"loop mode reads back as {type(u.cond).__name__}")
            self.expr(s.lo, u.cond.lo)
            self.expr(s.hi, u.cond.hi)
            self.bind(s.iter, u.iter)
            self.stmts(s.body, u.body)
        elif isinstance(s, LoopIR.Pass):
            pass
        else:
            self.fail(f"unknown statement {sn}")

    def proc(self, p, u):
        if str(p.name) != str(u.name):
            self.fail("procedure name")
        if len(p.args) != len(u.args):
            self.fail("number of arguments")
        for a, b in zip(p.args, u.args):
            self.typ(a.type, b.type)
            if (a.mem.name() if a.mem else "DRAM") != (b.mem.name() if b.mem else "DRAM"):
                self.fail("memory of an argument")
            self.bind(a.name, b.name)
        self.exprs(p.preds, u.preds)
        self.stmts(p.body, u.body)


def uast_differs(ir, uast):
    """None if the UAST is the LoopIR (up to symbol identity), else a description"""
    try:
        Match().proc(ir, uast)
        return None
    except Differs as d:
        return str(d)


# ---------------------------------------------------------------------------- the observer
class Observer:
    def __init__(self, rec, rng, opts):
        self.rec = rec
        self.rng = rng
        self.opts = opts
        self.n_inputs = opts.get("n_inputs", 3)
        self.max_traces = opts.get("max_traces", 4)
        self.I = None
        self.tracer = None
        self.seen = set()
        self.ntr = 0

    def cnt(self, k, n=1):
        c = self.rec["counts"]
        c[k] = c.get(k, 0) + n

    def start(self, p0, env, src):
        self.src = src
        self.tracer = Tracer()
        if self.opts.get("interp", True):
            self.I = interp.Interp()
        self.check(p0, {"op": "<pool program>", "path": [], "args": {}}, [])

    def before(self, p, att):
        pass

    def rejected(self, p, att, r):
        pass

    def accepted(self, p, att, p2, hist):
        self.check(p2, att, hist)

    def finish(self):
        try:
            import printstmt
            printstmt.close()
        except BaseException:
            pass
        try:
            import exportcheck
            exportcheck.close()
        except BaseException:
            pass
        if self.tracer:
            self.tracer.close()
        if self.I:
            self.I.close()

    def record(self, kind, key, what, att, hist, **more):
        self.rec["records"].append(dict(kind=kind, key=key, what=what, att=att, hist=hist,
                                        program=self.rec["name"], src=self.src, **more))

    def check(self, p2, att, hist):
        ir = p2.INTERNAL_proc()
        op = att["op"]
        # ---- 0'. exporter cross-check: the JSON export (what every semantic check sees) printed by the Lean printer
        #          model equals the real printer's text (blind fields masked on the real side) — docs/C17X.md
        try:
            import exportcheck
            r = exportcheck.check_proc_full(p2)
            self.cnt("export-tie:" + r["status"])
            if r["status"] == "mismatch":
                self.record("tie", "export_ir", "the export misrepresents the LoopIR: " + "; ".join(map(str, r["mismatches"][:3]))[:500], att, hist)
            elif r["status"] == "skipped" or r.get("units_skipped"):
                self.cnt("export-tie-skip:" + str(r.get("why", "?"))[:40])
        except BaseException as e:
            if isinstance(e, (KeyboardInterrupt, SystemExit, MemoryError)) or type(e).__name__ == "InfraError":
                raise
            self.cnt("export-tie-exception:" + type(e).__name__)
        # ---- 0. statement-level tie: the text the real printer produces is the model's ppProc output
        #         (Props/C17Stmt.lean parse_print_stmt is about that model)
        try:
            import printstmt
            import common as _common
            r = printstmt.check_proc_full(p2)
            self.cnt("stmt-tie:" + r["status"])
            if r["status"] == "skipped":
                self.cnt("stmt-tie-skip:" + str(r.get("why", "?")).split(" ")[0][:40])
            elif r["status"] == "mismatch":
                self.record("tie", "print_stmt", "real printer output differs from the model's ppProc (or the model parser does not read it back): "
                            + "; ".join(map(str, r["mismatches"][:3]))[:500], att, hist)
            elif r.get("wf") and r.get("rt") == "ok":
                self.cnt("stmt-tie:theorem-instances(wf and read back)")
        except BaseException as e:
            if isinstance(e, (KeyboardInterrupt, SystemExit, MemoryError)) or type(e).__name__ == "InfraError":
                raise
            self.cnt("stmt-tie-exception:" + type(e).__name__)
        # ---- 1. instrumented print
        try:
            text, ops = self.tracer.trace(lambda: str(ir))
        except BaseException as e:
            if isinstance(e, (KeyboardInterrupt, SystemExit, MemoryError)):
                raise
            self.cnt("print-exception:" + type(e).__name__)
            self.record("violation", f"print:exception:{type(e).__name__}", f"printing the result of {op} raises {type(e).__name__}: {str(e)[:200]}",
                        att, hist, tb=traceback.format_exc()[-1200:])
            return
        if text in self.seen:
            self.cnt("duplicate-text")
            return
        self.seen.add(text)
        self.cnt("procedures")
        w = walk_ops(ir)
        for k, v in w.constructs.items():
            self.cnt("construct:" + k, v)
        table = {}
        want = ops_to_line(norm_pops(w.ops), table)
        got = ops_to_line(norm_pops([(o[0], o[1]) if o[0] == "g" else o for o in ops]), table)
        names = [o[2] for o in ops if o[0] == "g"]
        shared = len({o[1].name() for o in w.ops if o[0] == "g"}) < len({id(o[1]) for o in w.ops if o[0] == "g"})
        if shared:
            self.cnt("procedures-with-shared-names")
        if any(n != str(o[1]) for n, o in zip(names, [o for o in ops if o[0] == "g"])):
            self.cnt("procedures-with-renamed-symbols")
        if want != got:
            self.cnt("traversal-differs")
            self.record("tie", "printer-traversal", f"PrintEnv operations performed while printing the result of {op} differ from the walk of the LoopIR",
                        att, hist, text=text, expected_ops=want, performed_ops=got)
        elif self.ntr < self.max_traces and (shared or self.ntr == 0):
            self.ntr += 1
            self.rec.setdefault("traces", []).append({"ops": got, "names": names})
        # two distinct live symbols shown alike?  (scopes: the walker's; names: the real printer's,
        # usable whenever the printer asked for the same symbols in the same order)
        if [o[1] for o in ops if o[0] == "g"] == [o[1] for o in w.ops if o[0] == "g"]:
            cols = live_collisions(w, names)
            for (nm, s1, s2) in cols[:1]:
                key = classify_collision(nm, s1, s2)
                self.cnt("collision:" + key)
                self.record("violation", key, f"two distinct live symbols {s1!r} and {s2!r} are both printed `{nm}` (after {op})",
                            att, hist, text=text)
            if cols:
                # reading this text back fails for the same reason; reported once
                self.cnt("reparse-skipped:name-collision-reported")
                return
        if w.ill_scoped:
            self.cnt("excluded:derived-procedure-ill-scoped")
            return
        if "Free" in w.constructs:
            self.cnt("excluded:free-statement")
            return
        if not self.opts.get("reparse", True):
            return
        # a callee printed with a name collision is the same defect, reported under the same key
        try:
            for c in collect_deps(ir)[1]:
                ctext, cops = self.tracer.trace(lambda: str(c))
                cw = walk_ops(c)
                if cw.ill_scoped:
                    # e.g. extract_subproc leaving a window variable of the caller free in the callee
                    self.cnt("excluded:callee-ill-scoped")
                    return
                cnames = [o[2] for o in cops if o[0] == "g"]
                if len(cnames) != len(cw.binder):
                    continue
                for (nm, s1, s2) in live_collisions(cw, cnames)[:1]:
                    key = classify_collision(nm, s1, s2)
                    self.cnt("collision-in-callee:" + key)
                    self.record("violation", key, f"callee {c.name}: two distinct live symbols {s1!r} and {s2!r} are both printed `{nm}` (after {op})",
                                att, hist, text=ctext)
                    self.cnt("reparse-skipped:name-collision-reported")
                    return
        except BaseException as e:
            if isinstance(e, (KeyboardInterrupt, SystemExit, MemoryError)):
                raise
            self.cnt("callee-print-exception:" + type(e).__name__)
        # ---- 2. read the text back
        try:
            rr, src = reparse(ir, text)
        except Excluded as e:
            self.cnt("excluded:" + e.reason)
            return
        except CalleeRejected as e:
            self.cnt("excluded:front-end-checks-reject-a-callee")
            return
        except BaseException as e:
            if isinstance(e, (KeyboardInterrupt, SystemExit, MemoryError)):
                raise
            cls = type(e).__name__
            self.cnt("reparse-rejected:" + cls)
            self.record("violation", f"reparse:rejected:{cls}:{norm_msg(str(e))}", f"str(p') of the result of {op} is not parsed by @proc: {cls}: {str(e)[:300]}",
                        att, hist, text=text)
            return
        self.cnt("parsed")
        d = uast_differs(ir, rr.uast)
        if d is not None:
            self.cnt("reread-differs")
            self.record("violation", "reparse:reads-back-differently:" + norm_diff(d), f"the text printed after {op} does not read back as the procedure: {d}",
                        att, hist, text=text)
            return
        self.cnt("structure-verified")
        if rr.loopir is None:
            self.cnt(f"excluded:front-end-{rr.stage}-rejects-the-derived-procedure")
            return
        if rr.stage is not None:
            self.cnt(f"front-end-{rr.stage}-check-rejects (behaviour still compared)")
        p3 = rr.loopir
        self.cnt("reparsed")
        try:
            text2 = str(p3)
        except BaseException as e:
            if isinstance(e, (KeyboardInterrupt, SystemExit, MemoryError)):
                raise
            text2 = f"<{type(e).__name__}>"
        if text2 != text:
            self.cnt("second-print-differs")
            import re as _re
            def nz(t):
                # unary minus on the literal 0 only: the previous non-blank character opens an operand position
                return _re.sub(r"(^|[(\[,:=+\-*/%<>]\s*)-\s*0(?![\w.])", lambda m: m.group(1) + "0", t)
            if nz(text) == nz(text2):
                # `-0` (unary minus applied to the literal 0, left behind by scheduling arithmetic such as `0 - 0 + n`) is read
                # back as the literal 0: same value, different text — a recorded finding, keyed by the situation, not the op
                self.record("violation", "reparse:second-print-differs:negated-zero-literal",
                            f"`-0` is printed for USub(Const 0) and read back as `0` (after {op})", att, hist, text=text, text2=text2, module=src)
            else:
                self.record("violation", f"reparse:second-print-differs:{op}", f"printing, reading back and printing again changes the text (after {op})",
                            att, hist, text=text, text2=text2, module=src)
                return
        # ---- 3. same behaviour
        try:
            pj, cfgs = export_ir.export(ir)
            pj3, cfgs3 = export_ir.export(p3)
        except export_ir.ExportError as e:
            self.cnt("export-error")
            return
        if sorted(cfgs.items()) != sorted(cfgs3.items()):
            self.record("violation", f"reparse:config-fields-differ:{op}", "the re-read procedure mentions different configuration fields",
                        att, hist, text=text)
            return
        if self.I is None:
            # executed by the parent process (one interpreter start instead of one per program)
            self.rec.setdefault("pairs", []).append({"pj": pj, "pj3": pj3, "cfgs": sorted([k[0], k[1], v] for k, v in cfgs.items()),
                                                     "att": att, "hist": hist, "text": text})
            if len(self.rec.setdefault("samples", [])) < 1:
                self.rec["samples"].append({"op": op, "args": att["args"], "text": text[:500]})
            return
        ins, res = self.I.gen_inputs(pj, cfgs, self.rng, self.n_inputs, small=True)
        if not ins:
            self.cnt("no-valid-input")
            return
        res3 = self.I.run(pj3, ins)
        self.cnt("pairs-executed")
        nontrivial = False
        for i, (ra, rb) in enumerate(zip(res, res3)):
            self.cnt("runs")
            if "ok" in ra:
                nontrivial = True
            bad = interp.compare(ra, rb) or interp.compare(rb, ra)
            if bad is None and (("ok" in ra) != ("ok" in rb)):
                bad = f"one version runs, the other does not: {list(ra)[0]} vs {list(rb)[0]}"
            if bad is not None:
                self.record("violation", f"reparse:behaviour-differs:{op}", f"the re-read procedure behaves differently: {bad}",
                            att, hist, text=text, input=ins[i], printed_result=ra, reread_result=rb)
                break
        if nontrivial:
            self.cnt("pairs-nontrivial")
        if len(self.rec.setdefault("samples", [])) < 1:
            self.rec["samples"].append({"op": op, "args": att["args"], "text": text[:500]})
