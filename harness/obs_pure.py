"""Observer for C07 (scheduling is pure): nothing that exists may change.

Plugged into the schedule stream (harness/sched_run.py).  For one pool program it keeps

  * every live `Procedure`: the original, the callees, every procedure derived so far — each with a
    deep structural *snapshot* of its LoopIR (every field of every node, for every Python list its
    identity, its length and the identity of every element — not `str`), its `str()`, and for a
    sample its `c_code_str()`;
  * a set of cursors into them: the cursor objects' own fields and the node each one denotes.

After EVERY attempt — accepted or rejected (operations that raise part-way are the interesting
ones) — the procedure the attempt was applied to, the original, the callees and a rotating sample of
the other live procedures are snapshotted again and compared; at `finish` everything is compared.
A difference is a record {"kind": "impure", ...} carrying program, history, attempt and the path
of the first changed field.  Queries (`find`, `forward`, `str`, `c_code_str`, navigation,
`get_strictest_eqv_proc`, ...) are run between attempts and checked the same way.

Function-level monitor (the tie of the translator's abstraction to the real code): for a sample of
attempts every call of a function of the anchored source files is bracketed by `sys.setprofile`:
the list / dict / set arguments, and the list fields of node / cursor arguments, are recorded at
entry and compared when the activation ends (return or exception).  An argument that changed is a
record {"kind": "func-impure", ...} unless the (function, parameter) is on the translator's
whitelist.
"""
from __future__ import annotations

import contextlib
import io
import os
import sys
import time

ATOMS = (int, float, str, bool, type(None), bytes, complex)


# ------------------------------------------------------------------------------------ snapshots
def _is_adt(x):
    return hasattr(type(x), "__attrs_attrs__")


def snap(x, memo=None, depth=0):
    """immutable deep snapshot: nested tuples of atoms and ids (never a reference to a mutable)"""
    if isinstance(x, ATOMS):
        return x
    if memo is None:
        memo = {}
    k = id(x)
    if k in memo:
        return memo[k]
    if depth > 200:
        return ("deep", type(x).__name__, k)
    if isinstance(x, list):
        r = ("list", k, tuple(snap(e, memo, depth + 1) for e in x))
    elif isinstance(x, tuple):
        r = ("tuple", tuple(snap(e, memo, depth + 1) for e in x))
    elif isinstance(x, dict):
        r = ("dict", k, tuple((snap(a, memo, depth + 1), snap(b, memo, depth + 1)) for a, b in x.items()))
    elif isinstance(x, (set, frozenset)):
        r = ("set", k, tuple(sorted(id(e) for e in x)))
    elif _is_adt(x):
        r = (type(x).__qualname__, k,
             tuple((a.name, snap(getattr(x, a.name), memo, depth + 1)) for a in type(x).__attrs_attrs__))
    elif type(x).__name__ == "Sym":
        r = ("Sym", getattr(x, "_nm", None), getattr(x, "_id", None), k)
    else:
        r = ("obj", type(x).__name__, k)
    memo[k] = r
    return r


def first_diff(a, b, path=""):
    """path of the first difference between two snapshots"""
    if a == b:
        return None
    if isinstance(a, tuple) and isinstance(b, tuple) and a and b and isinstance(a[0], str) and a[0] == b[0]:
        tag = a[0]
        if tag == "Procedure":
            if a[1] != b[1]:
                return f"{path}: another Procedure object"
            d = first_diff(a[2], b[2], path)
            if d:
                return d
            return f"{path}: Procedure._provenance_eq_Procedure / _forward replaced"
        if tag == "list":
            if a[1] != b[1]:
                return f"{path}: list object replaced"
            if len(a[2]) != len(b[2]):
                return f"{path}: list length {len(a[2])} -> {len(b[2])}"
            for i, (x, y) in enumerate(zip(a[2], b[2])):
                d = first_diff(x, y, f"{path}[{i}]")
                if d:
                    return d
        elif tag in ("tuple",):
            for i, (x, y) in enumerate(zip(a[1], b[1])):
                d = first_diff(x, y, f"{path}({i})")
                if d:
                    return d
            if len(a[1]) != len(b[1]):
                return f"{path}: tuple length {len(a[1])} -> {len(b[1])}"
        elif tag in ("dict", "set", "Sym", "obj", "deep"):
            return f"{path}: {tag} {a[1:3]} -> {b[1:3]}"
        elif len(a) == 3 and isinstance(a[2], tuple):
            # ADT node
            if a[1] != b[1]:
                return f"{path}: node {tag} replaced by another object"
            for (n1, x), (n2, y) in zip(a[2], b[2]):
                d = first_diff(x, y, f"{path}<{tag}>.{n1}")
                if d:
                    return d
    return f"{path}: {str(a)[:60]} -> {str(b)[:60]}"


def diff_class(d):
    """stable class of a difference: the chain of node types / fields without indices and ids"""
    import re
    head = d.split(":")[0]
    parts = re.findall(r"<([A-Za-z_.]+)>\.([A-Za-z_]+)", head)
    return ".".join(f"{t.split('.')[-1]}.{f}" for t, f in parts[-2:]) or "root"


def proc_snapshot(p, memo=None):
    return ("Procedure", id(p),
            snap(getattr(p, "_loopir_proc", None), memo),
            id(getattr(p, "_provenance_eq_Procedure", None)),
            id(getattr(p, "_forward", None)))


# ------------------------------------------------------------------------------------ cursors
def resolve_path(root, path):
    n = root
    for (attr, idx) in path:
        ch = getattr(n, attr)
        n = ch if idx is None else ch[idx]
    return n


def cursor_snapshot(c):
    """the cursor object's own fields + the node(s) it denotes, resolved independently of the
    cursor's cached `_node`"""
    impl = getattr(c, "_impl", None)
    if impl is None:
        return ("nocursor", type(c).__name__)
    tn = type(impl).__name__
    try:
        if tn == "Node":
            node = resolve_path(impl._root, impl._path)
            return ("Node", id(c), id(impl), id(impl._root), tuple(impl._path), id(impl._path), id(node), id(impl._node))
        if tn == "Block":
            a = impl._anchor
            nodes = getattr(resolve_path(a._root, a._path), impl._attr)[impl._range.start:impl._range.stop]
            return ("Block", id(c), id(impl), id(impl._root), id(a), tuple(a._path), impl._attr,
                    (impl._range.start, impl._range.stop), tuple(id(n) for n in nodes))
        if tn == "Gap":
            a = impl._anchor
            return ("Gap", id(c), id(impl), id(impl._root), id(a), tuple(a._path), str(impl._type),
                    id(resolve_path(a._root, a._path)))
    except Exception as e:  # a cursor that no longer resolves changed too
        return ("unresolvable", tn, id(c), type(e).__name__)
    return ("other", tn, id(c), id(impl))


# ------------------------------------------------------------------------------------ function monitor
class FuncMonitor:
    """brackets every activation of a function of the anchored files: mutable arguments must be
    the same at exit as at entry"""

    def __init__(self, files, exempt):
        self.files = files            # absolute filename -> rel
        self.exempt = exempt          # set of (rel, firstlineno, param) / (rel, firstlineno, "*")
        self.stack = {}
        self.calls = {}
        self.cur_op = None
        self.op_funcs = {}    # op name -> set of (rel, firstlineno) of analysed functions it ran
        self.found = []
        self.on = False

    @staticmethod
    def _shallow(o):
        if isinstance(o, list):
            return ("list", tuple(id(e) for e in o))
        if isinstance(o, dict):
            return ("dict", tuple((id(k), id(v)) for k, v in o.items()))
        if isinstance(o, set):
            return ("set", frozenset(id(e) for e in o))
        return None

    def _targets(self, name, v, out):
        s = self._shallow(v)
        if s is not None:
            out.append((name, v, s))
            return
        if _is_adt(v):
            for a in type(v).__attrs_attrs__:
                w = getattr(v, a.name, None)
                s = self._shallow(w)
                if s is not None:
                    out.append((f"{name}.{a.name}", w, s))
        elif type(v).__name__ in ("Node", "Block", "Gap") and hasattr(v, "_root"):
            for an in ("_path",):
                w = getattr(v, an, None)
                s = self._shallow(w)
                if s is not None:
                    out.append((f"{name}.{an}", w, s))
            a = getattr(v, "_anchor", None)
            if a is not None and isinstance(getattr(a, "_path", None), list):
                out.append((f"{name}._anchor._path", a._path, self._shallow(a._path)))

    def handler(self, frame, event, arg):
        if event == "call":
            code = frame.f_code
            rel = self.files.get(code.co_filename)
            if rel is None:
                return
            key = (rel, code.co_firstlineno)
            self.calls[key] = self.calls.get(key, 0) + 1
            if self.cur_op is not None:
                self.op_funcs.setdefault(self.cur_op, set()).add(key)
            if (rel, code.co_firstlineno, "*") in self.exempt:
                return
            n = code.co_argcount + code.co_kwonlyargcount
            names = code.co_varnames[:n]
            loc = frame.f_locals
            out = []
            for nm in names:
                if (rel, code.co_firstlineno, nm) in self.exempt:
                    continue
                if nm in loc:
                    self._targets(nm, loc[nm], out)
            if out:
                self.stack[id(frame)] = (key, code.co_qualname, out)
        elif event == "return":
            ent = self.stack.pop(id(frame), None)
            if ent is None:
                return
            key, qn, out = ent
            for (nm, obj, s) in out:
                now = self._shallow(obj)
                if now != s:
                    self.found.append({"file": key[0], "line": key[1], "func": qn, "param": nm,
                                       "before": str(s)[:200], "after": str(now)[:200],
                                       "raised": arg is None})

    def __enter__(self):
        self.on = True
        sys.setprofile(self.handler)
        return self

    def __exit__(self, *a):
        sys.setprofile(None)
        self.on = False
        self.stack.clear()


# ------------------------------------------------------------------------------------ the observer
class Observer:
    def __init__(self, rec, rng, opts):
        self.rec = rec
        self.rng = rng
        self.opts = opts
        self.live = []        # dicts: label, proc, snap, str, ccode (or None), hist
        self.cursors = []     # dicts: label, cursor, snap, owner index
        self.nattempt = 0
        self.sample_k = opts.get("pure_sample", 4)
        self.ccode_budget = opts.get("pure_ccode", 3)
        self.query_every = opts.get("pure_query_every", 40)
        self.monitor_every = opts.get("pure_monitor_every", 6)
        self.rot = 0
        self.pending = None
        self.caches = {}      # (module, name) -> {id(key): (key, snapshot of the value)}
        self.eqv = []
        self.monitor = None
        self.cur_att = None
        self.c = rec["counts"]

    # ---- bookkeeping
    def cnt(self, k, n=1):
        self.c[k] = self.c.get(k, 0) + n

    def track(self, label, p, hist, ccode=False):
        ent = {"label": label, "proc": p, "snap": proc_snapshot(p), "str": self._str(p), "ccode": None, "hist": hist}
        if ccode:
            ent["ccode"] = self._ccode(p)
        self.live.append(ent)
        self.cnt("pure:procs-tracked")
        return ent

    def _str(self, p):
        try:
            return str(p)
        except BaseException as e:
            return f"<str raised {type(e).__name__}>"

    def _ccode(self, p):
        try:
            self.cnt("pure:c_code_str")
            return p.c_code_str()
        except BaseException as e:
            return f"<c_code_str raised {type(e).__name__}>"

    def track_cursors(self, p, owner, limit=12):
        import stream
        try:
            cs = []
            for path, c, _ in stream.walk_stmts(p):
                cs.append((f"stmt{path}", c))
                try:
                    cs.append((f"gap-before{path}", c.before()))
                    cs.append((f"block{path}", c.as_block()))
                except Exception:
                    pass
                if hasattr(c, "rhs"):
                    try:
                        for epath, ec in stream.walk_exprs(c.rhs(), path + [["rhs"]]):
                            cs.append((f"expr{epath}", ec))
                    except Exception:
                        pass
            try:
                for a in p.args():
                    cs.append((f"arg:{a.name()}", a))
            except Exception:
                pass
            self.rng.shuffle(cs)
            for lab, c in cs[:limit]:
                self.cursors.append({"label": lab, "cursor": c, "snap": cursor_snapshot(c), "owner": owner})
                self.cnt("pure:cursors-tracked")
        except BaseException as e:
            self.cnt(f"pure:cursor-enum-error:{type(e).__name__}")

    # ---- checking
    def record(self, kind, what, ent_label, detail, extra=None):
        r = {"kind": kind, "what": what, "object": ent_label, "detail": detail,
             "att": self.cur_att, "program": self.rec["name"], "src": self.src,
             "attempt_no": self.nattempt}
        if extra:
            r.update(extra)
        self.rec["records"].append(r)

    def check_ent(self, ent, when, deep=True, ccode=False, memo=None, with_str=True):
        p = ent["proc"]
        self.cnt("pure:proc-checks")
        if deep:
            now = proc_snapshot(p, memo)
            if now != ent["snap"]:
                d = first_diff(ent["snap"], now) or "?"
                self.record("impure", f"{when}: structure of an existing procedure changed: {d}",
                            ent["label"], d, {"hist": ent["hist"], "diff_class": diff_class(d),
                                              "str_before": ent["str"], "str_now": self._str(p)})
                ent["snap"] = now
                ent["str"] = self._str(p)
                return False
        if not with_str:
            return True
        self.cnt("pure:str-checks")
        s = self._str(p)
        if s != ent["str"]:
            self.record("impure", f"{when}: str() of an existing procedure changed", ent["label"], "str",
                        {"hist": ent["hist"], "diff_class": "str", "str_before": ent["str"], "str_now": s})
            ent["str"] = s
            return False
        if ccode and ent["ccode"] is not None:
            cc = self._ccode(p)
            if cc != ent["ccode"]:
                self.record("impure", f"{when}: c_code_str() of an existing procedure changed", ent["label"], "c_code_str",
                            {"hist": ent["hist"], "diff_class": "c_code_str", "c_before": ent["ccode"][-1500:], "c_now": cc[-1500:]})
                ent["ccode"] = cc
                return False
        return True

    def check_caches(self, when):
        """module-level analysis caches may gain entries; an entry that exists must stay as it is"""
        import importlib
        for (mod, name) in self.opts.get("pure_caches", []):
            try:
                d = getattr(importlib.import_module(mod), name)
            except Exception:
                continue
            known = self.caches.setdefault((mod, name), {})
            try:
                items = list(d.items())
            except Exception:
                continue
            present = set()
            for k, v in items:
                present.add(id(k))
                sn = snap(v)
                self.cnt("pure:cache-entry-checks")
                if id(k) in known:
                    if known[id(k)][1] != sn:
                        dd = first_diff(known[id(k)][1], sn) or "?"
                        self.record("impure", f"{when}: an existing entry of the cache {mod}.{name} was edited: {dd}",
                                    f"{mod}.{name}", dd, {"diff_class": f"cache:{name}"})
                        known[id(k)] = (k, sn)
                else:
                    known[id(k)] = (k, sn)
            for kid in list(known):
                if kid not in present:
                    self.record("impure", f"{when}: an entry of the cache {mod}.{name} disappeared", f"{mod}.{name}",
                                "entry removed", {"diff_class": f"cache:{name}:removed"})
                    del known[kid]

    def check_cursors(self, when, owner=None):
        for ce in self.cursors:
            self.cnt("pure:cursor-checks")
            now = cursor_snapshot(ce["cursor"])
            if now != ce["snap"]:
                self.record("impure-cursor", f"{when}: an existing cursor changed / denotes another node",
                            ce["label"], f"{ce['snap']} -> {now}", {"diff_class": "cursor"})
                ce["snap"] = now

    def sweep(self, when, p=None, full=False):
        """p: the procedure the attempt was applied to"""
        todo = []
        for i, ent in enumerate(self.live):
            if full or i < self.nfixed or ent["proc"] is p:
                todo.append(i)
        if not full and len(self.live) > self.nfixed:
            n = len(self.live) - self.nfixed
            for k in range(min(self.sample_k, n)):
                todo.append(self.nfixed + (self.rot + k) % n)
            self.rot = (self.rot + self.sample_k) % max(n, 1)
        seen = set()
        memo = {}     # one walk per shared sub-tree per sweep (nothing runs between the snapshots of a sweep)
        for i in todo:
            if i in seen:
                continue
            seen.add(i)
            ent = self.live[i]
            ok = self.check_ent(ent, when, ccode=full, memo=memo,
                                with_str=full or i < self.nfixed or ent["proc"] is p)
            if not ok and not full:
                # something changed: attribute every other damaged procedure to this very attempt
                for j, other in enumerate(self.live):
                    if j not in seen and j not in todo:
                        self.check_ent(other, when, memo=memo, with_str=False)
        self.check_cursors(when, owner=None if full else seen)
        self.check_caches(when)

    # ---- queries
    def queries(self, ent):
        """read-only API calls; nothing may change"""
        import stream
        p = ent["proc"]
        from exo.core import proc_eqv
        qs = []

        def q(name, f):
            qs.append((name, f))

        q("str", lambda: str(p))
        q("name", lambda: p.name())
        q("body", lambda: [str(c) for c in p.body()])
        q("args", lambda: [a.name() for a in p.args()])
        q("find-for", lambda: p.find("for _ in _: _", many=True))
        q("find-assign", lambda: p.find("_ = _", many=True))
        q("find-reduce", lambda: p.find("_ += _", many=True))
        q("find-alloc", lambda: p.find("_ : _", many=True))
        q("find-missing", lambda: p.find("for zzz in _: _"))
        q("find_loop", lambda: p.find_loop(next(iter(stream.walk_stmts(p)))[1].name()))
        q("is_instr", lambda: p.is_instr())
        q("get_instr", lambda: p.get_instr())
        q("get_ast", lambda: p.get_ast())
        q("nav", lambda: [(c.parent(), c.next(), c.prev(), c.before(), c.after()) for _, c, _ in list(stream.walk_stmts(p))[:6]])
        q("eqv", lambda: proc_eqv.get_strictest_eqv_proc(p._loopir_proc, self.live[0]["proc"]._loopir_proc))
        q("eqv-self", lambda: proc_eqv.get_strictest_eqv_proc(p._loopir_proc, p._loopir_proc))
        q("forward", lambda: [p.forward(ce["cursor"]) for ce in self.cursors[:8]])
        q("forward-own", lambda: [p.forward(c) for _, c, _ in list(stream.walk_stmts(p))[:4]])
        q("has_dup", lambda: p.has_dup() if hasattr(p, "has_dup") else None)
        q("show_effects", lambda: p.show_effects() if hasattr(p, "show_effects") else None)
        if self.ccode_q > 0:
            self.ccode_q -= 1
            q("c_code_str", lambda: p.c_code_str())
        for name, f in qs:
            self.cur_att = {"op": "query:" + name, "path": [], "args": {"on": ent["label"]}}
            try:
                with contextlib.redirect_stdout(io.StringIO()):
                    f()
                self.cnt(f"pure:query:{name}:ok")
            except BaseException as e:
                if isinstance(e, (KeyboardInterrupt, SystemExit, MemoryError)):
                    raise
                self.cnt(f"pure:query:{name}:raised")
            self.sweep(f"after query {name}", p=p)
        self.cur_att = None

    def _eqv(self, a, b):
        """answer of the provenance query for two existing procedures (must not change later)"""
        try:
            from exo.core import proc_eqv
            r = proc_eqv.get_strictest_eqv_proc(a._loopir_proc, b._loopir_proc)
            return (id(r[0]) if _is_adt(r[0]) else r[0], tuple(sorted(str(k) for k in r[1])))
        except BaseException as e:
            return ("raised", type(e).__name__)

    # ---- hooks
    def start(self, p0, env, src):
        self.src = src
        self.track("original", p0, [], ccode=True)
        for k, v in env["callees"].items():
            self.track(f"callee:{k}", v, [], ccode=True)
        self.nfixed = len(self.live)
        self.track_cursors(p0, 0, limit=self.opts.get("pure_cursors", 16))
        self.ccode_q = self.opts.get("pure_ccode_queries", 1)
        mon = self.opts.get("pure_monitor")
        if mon:
            self.monitor = FuncMonitor(mon["files"], set(tuple(x) for x in mon["exempt"]))
        self.queries(self.live[0])

    def before(self, p, att):
        if self.pending is not None:
            # the stream driver skipped the hooks for the previous attempt (it saw str(p) change)
            self._after()
            self.cur_att = self.pending
            self.sweep(f"after {self.pending['op']} (outcome hidden by the stream driver)", p=None)
            self.pending = None
        self.nattempt += 1
        self.cur_att = att
        self.pending = att
        if self.monitor is not None and self.nattempt % self.monitor_every == 0:
            self.monitor.cur_op = att["op"]
            self.monitor.__enter__()

    def _after(self):
        if self.monitor is not None and self.monitor.on:
            self.monitor.__exit__()
            self.cnt("pure:monitored-attempts")
            for f in self.monitor.found:
                self.record("func-impure", f"{f['func']} changed its argument `{f['param']}` in place",
                            f"{f['file']}:{f['line']}", f, {"diff_class": f"{f['func']}:{f['param']}"})
            self.monitor.found = []

    def rejected(self, p, att, r):
        self.pending = None
        self._after()
        self.cnt("pure:rejected-checked")
        self.sweep(f"after rejected {att['op']} ({r.cls})", p=p)

    def accepted(self, p, att, p2, hist):
        self.pending = None
        self._after()
        self.cnt("pure:accepted-checked")
        self.sweep(f"after accepted {att['op']}", p=p)
        cc = False
        if self.ccode_budget > 0 and self.rng.random() < 0.05:
            self.ccode_budget -= 1
            cc = True
        ent = self.track(f"derived#{len(self.live)}:{att['op']}", p2, hist + [att], ccode=cc)
        if len(self.eqv) < 8:
            self.eqv.append((len(self.live) - 1, self._eqv(self.live[0]["proc"], p2)))
        if len(self.live) % 9 == 0:
            self.track_cursors(p2, len(self.live) - 1, limit=4)
        if self.query_every and self.nattempt % self.query_every == 0:
            self.queries(ent)

    def finish(self):
        if self.pending is not None:
            self._after()
            self.cur_att = self.pending
            self.sweep(f"after {self.pending['op']} (outcome hidden by the stream driver)", p=None)
            self.pending = None
        self._after()
        self.cur_att = {"op": "finish", "path": [], "args": {}}
        self.sweep("final sweep over every live procedure", full=True)
        for (i, ans) in self.eqv:
            self.cnt("pure:eqv-rechecked")
            now = self._eqv(self.live[0]["proc"], self.live[i]["proc"])
            if now != ans:
                self.record("impure", "get_strictest_eqv_proc(original, derived) answers differently after later operations",
                            self.live[i]["label"], f"{ans} -> {now}", {"hist": self.live[i]["hist"], "diff_class": "eqv-answer"})
        if self.monitor is not None:
            self.rec.setdefault("monitor_calls", {})
            for (rel, line), n in self.monitor.calls.items():
                k = f"{rel}:{line}"
                self.rec["monitor_calls"][k] = self.rec["monitor_calls"].get(k, 0) + n
            self.rec["monitor_ops"] = {op: sorted(f"{rel}:{line}" for (rel, line) in ks)
                                       for op, ks in self.monitor.op_funcs.items()}
