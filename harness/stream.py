"""The schedule stream: for a real exo Procedure enumerate (primitive, cursor, arguments) attempts
at every position where the primitive could conceivably apply, and apply them through the real
public API.  Attempts the real code rejects are the near-miss stream; attempts it accepts produce
(p, p', attempt) triples that the property checks observe (C01, C04, C06, C07, C10, C17, C19).

An attempt is a json-able dict {"op", "path", "args"} so that a failure can be replayed exactly:
`locate(p, path)` walks the public cursor API from the procedure root.
"""
from __future__ import annotations

import itertools


def _api():
    import exo
    import exo.API_cursors as C
    import exo.stdlib.scheduling as S

    return exo, C, S


# ------------------------------------------------------------------ cursor enumeration
def locate(p, path):
    cur = None
    for step in path:
        k = step[0]
        if k == "body":
            blk = p.body() if cur is None else cur.body()
            cur = blk[step[1]]
        elif k == "orelse":
            cur = cur.orelse()[step[1]]
        elif k == "rhs":
            cur = cur.rhs()
        elif k == "lhs":
            cur = cur.lhs()
        elif k == "arg":
            cur = cur.arg()
        elif k == "idx":
            cur = cur.idx()[step[1]]
        elif k == "args":
            cur = cur.args()[step[1]]
        elif k == "cond":
            cur = cur.cond()
        elif k == "lo":
            cur = cur.lo()
        elif k == "hi":
            cur = cur.hi()
        elif k == "winexpr":
            cur = cur.winexpr()
        else:
            raise ValueError(step)
    return cur


def walk_stmts(p):
    """yields (path, cursor, iters_in_scope) for every statement, preorder"""
    exo, C, S = _api()

    def rec(block, prefix, attr, iters):
        for k in range(len(block)):
            c = block[k]
            path = prefix + [[attr, k]]
            yield path, c, list(iters)
            if isinstance(c, C.ForCursor):
                yield from rec(c.body(), path, "body", iters + [c.name()])
            elif isinstance(c, C.IfCursor):
                yield from rec(c.body(), path, "body", iters)
                oe = c.orelse()
                if not isinstance(oe, C.InvalidCursor):
                    yield from rec(oe, path, "orelse", iters)

    yield from rec(p.body(), [], "body", [])


def walk_exprs(c, path):
    """yields (path, cursor) for every sub-expression below expression cursor c"""
    exo, C, S = _api()
    yield path, c
    if isinstance(c, C.BinaryOpCursor):
        yield from walk_exprs(c.lhs(), path + [["lhs"]])
        yield from walk_exprs(c.rhs(), path + [["rhs"]])
    elif isinstance(c, C.UnaryMinusCursor):
        yield from walk_exprs(c.arg(), path + [["arg"]])
    elif isinstance(c, C.ReadCursor):
        for k in range(len(c.idx())):
            yield from walk_exprs(c.idx()[k], path + [["idx", k]])
    elif isinstance(c, C.ExternFunctionCursor):
        for k in range(len(c.args())):
            yield from walk_exprs(c.args()[k], path + [["args", k]])


def estr(c):
    return str(c._impl._node)


# ------------------------------------------------------------------ attempt enumeration
def attempts(p, callees=(), configs=(), full=True):
    """list of attempts for procedure p (callees: names of candidate sub-procedures for replace)"""
    exo, C, S = _api()
    out = []

    def A(op, path, **args):
        out.append({"op": op, "path": path, "args": args})

    size_args = [a.name() for a in p.args() if str(a.type()) == "ExoType.Size"] if hasattr(p, "args") else []
    stmts = list(walk_stmts(p))
    out.append({"op": "simplify", "path": [], "args": {}})
    out.append({"op": "delete_pass", "path": [], "args": {}})
    out.append({"op": "std:cleanup", "path": [], "args": {}})
    out.append({"op": "std:unroll_loops", "path": [], "args": {}})
    allocs = [(path, c) for path, c, _ in stmts if isinstance(c, C.AllocCursor)]
    for path, c, iters in stmts:
        nxt = c.next()
        has_next = not isinstance(nxt, C.InvalidCursor)
        conds = []
        for it in iters[-2:]:
            conds += [f"{it} < 2", f"{it} == 0"]
        for s in size_args[:2]:
            conds += [f"{s} > 2", f"{s} == 1"]
        # --- any statement
        A("insert_pass", path, where="before")
        A("insert_pass", path, where="after")
        if has_next:
            A("reorder_stmts", path)
        A("add_loop", path, iter="z", hi="2", guard=False)
        A("add_loop", path, iter="z", hi="3", guard=True)
        if size_args:
            A("add_loop", path, iter="z", hi=size_args[0], guard=False)
            A("add_loop", path, iter="z", hi=size_args[0] + " - 1", guard=True)
            A("add_loop", path, iter="z", hi=size_args[0] + " - 1", guard=False)
        for cnd in conds[:4]:
            A("specialize", path, cond=cnd)
        if len(path) > 1:
            A("std:hoist_stmt", path)
            A("std:jam_stmt", path)
        A("std:reorder_stmt_forward", path)
        A("std:reorder_stmt_backwards", path)
        A("extract_subproc", path, name="sub_x", n=1)
        if has_next:
            A("extract_subproc", path, name="sub_y", n=2)
        for cal in callees:
            A("replace", path, callee=cal, n=1)
        if len(path) > 1:  # inside a loop / if: gaps can be fissioned
            A("fission", path, where="after", n_lifts=1)
            A("fission", path, where="before", n_lifts=1)
            A("autofission", path, where="after", n_lifts=1)
            if len(path) > 2:
                A("fission", path, where="after", n_lifts=2)
        # --- loops
        if isinstance(c, C.ForCursor):
            lo, hi = estr(c.lo()), estr(c.hi())
            it = c.name()
            for cut in ["1", "2", lo, hi, f"{hi} - 1", f"{lo} + 1", f"({lo} + {hi}) / 2"]:
                A("cut_loop", path, cut=cut)
            for sh in ["0", "1", "3", f"{lo} + 2"] + (size_args[:1]):
                A("shift_loop", path, new_lo=sh)
            for q in (2, 3, 4):
                for tail in ("cut", "guard", "cut_and_guard"):
                    A("divide_loop", path, q=q, iters=[it + "o", it + "i"], tail=tail, perfect=False)
                A("divide_loop", path, q=q, iters=[it + "o", it + "i"], tail="cut", perfect=True)
            A("divide_loop", path, q=1, iters=[it + "o", it + "i"], tail="cut", perfect=False)
            A("unroll_loop", path)
            A("remove_loop", path)
            A("reorder_loops", path)
            A("mult_loops", path, name=it + "j")
            A("lift_scope", path)
            A("eliminate_dead_code", path)
            A("parallelize_loop", path)
            if has_next and isinstance(nxt, C.ForCursor):
                A("join_loops", path)
                A("fuse", path)
            for std in ("interleave_loop", "unroll_and_jam", "hoist_from_loop", "fission_into_singles", "tile_loops",
                        "bound_loop_by_if", "divide_loop_recursive", "round_loop", "cut_loop_and_unroll",
                        "undo_divide_and_guard_loop", "unroll_loops", "parallelize_all_reductions"):
                A("std:" + std, path)
            A("divide_with_recompute", path, outer_hi=f"({hi}) / 2", outer_stride=2, iters=[it + "o", it + "i"])
            A("divide_with_recompute", path, outer_hi=f"({hi}) / 2 - 1", outer_stride=2, iters=[it + "o", it + "i"])
            A("divide_with_recompute", path, outer_hi=f"({hi}) / 4", outer_stride=8, iters=[it + "o", it + "i"])
            A("divide_with_recompute", path, outer_hi=f"({hi}) / 2", outer_stride=4, iters=[it + "o", it + "i"])
            A("divide_with_recompute", path, outer_hi=f"({hi}) / 4", outer_stride=2, iters=[it + "o", it + "i"])
            # staging of buffers accessed in the loop
            for b, shp in buffers_in_scope(p, path):
                if shp:
                    full_w = f"{b}[" + ", ".join(f"0:{h}" for h in shp) + "]"
                    A("stage_mem", path, win=full_w, name=b + "_s", accum=False)
                    A("stage_mem", path, win=full_w, name=b + "_s", accum=True)
                    part = f"{b}[" + ", ".join([f"0:{shp[0]} - 1"] + [f"0:{h}" for h in shp[1:]]) + "]"
                    A("stage_mem", path, win=part, name=b + "_p", accum=False)
                    if iters:
                        pt = f"{b}[" + ", ".join([f"{iters[-1]}:{iters[-1]}+1"] + [f"0:{h}" for h in shp[1:]]) + "]"
                        A("stage_mem", path, win=pt, name=b + "_q", accum=False)
        # --- ifs
        if isinstance(c, C.IfCursor):
            A("std:lift_if", path)
            A("lift_scope", path)
            A("eliminate_dead_code", path)
            if has_next and isinstance(nxt, C.IfCursor):
                A("fuse", path)
        # --- assignments / reductions
        if isinstance(c, (C.AssignCursor, C.ReduceCursor)):
            A("split_write", path)
            if isinstance(c, C.AssignCursor):
                A("fold_into_reduce", path)
                A("inline_assign", path)
            if has_next:
                A("merge_writes", path)
                A("lift_reduce_constant", path)
            for epath, ec in walk_exprs(c.rhs(), path + [["rhs"]]):
                if isinstance(ec, C.BinaryOpCursor):
                    A("commute_expr", epath)
                    A("left_reassociate_expr", epath)
                    A("bind_expr", epath, name="bnd")
                if isinstance(ec, C.ReadCursor):
                    A("bind_expr", epath, name="bnd")
                    for (cfg, fld, isdata) in configs:
                        A("bind_config", epath, config=cfg, field=fld)
                    for k in range(len(ec.idx())):
                        ie = estr(ec.idx()[k])
                        A("rewrite_expr", epath + [["idx", k]], new=f"{ie} + 0")
                        A("rewrite_expr", epath + [["idx", k]], new=f"({ie}) * 2 / 2")
                        A("rewrite_expr", epath + [["idx", k]], new=f"{ie} + 1")
                        A("rewrite_expr", epath + [["idx", k]], new=f"({ie}) / 2 * 2")
                    if len(ec.idx()) == 0 and iters:
                        pass
            for (cfg, fld, isdata) in configs:
                A("write_config", path, where="before", config=cfg, field=fld, rhs=("1.0" if isdata else "1"))
                A("write_config", path, where="after", config=cfg, field=fld, rhs=("2.0" if isdata else "0"))
        if isinstance(c, C.AssignConfigCursor):
            A("delete_config", path)
        # --- allocations
        if isinstance(c, C.AllocCursor):
            A("lift_alloc", path, n=1)
            A("lift_alloc", path, n=2)
            A("sink_alloc", path)
            A("autolift_alloc", path, n=1)
            A("delete_buffer", path)
            A("set_memory", path, mem="DRAM_STACK")
            A("set_precision", path, typ="f64")
            nd = len(c.shape()) if c.is_tensor() else 0
            ex = iters[-1] if iters else "0"
            A("expand_dim", path, size="4", idx=ex)
            if size_args:
                A("expand_dim", path, size=size_args[0], idx=ex)
            A("expand_dim", path, size="2", idx="1")
            for d in range(nd):
                shp = estr(c.shape()[d])
                A("resize_dim", path, dim=d, size=f"{shp} + 1", offset="0", fold=False)
                A("resize_dim", path, dim=d, size=f"{shp}", offset="1", fold=False)
                A("resize_dim", path, dim=d, size=f"{shp} - 1", offset="0", fold=False)
                A("resize_dim", path, dim=d, size="2", offset="0", fold=True)
                A("resize_dim", path, dim=d, size="3", offset="0", fold=True)
                A("divide_dim", path, dim=d, q=2)
                A("divide_dim", path, dim=d, q=4)
                A("unroll_buffer", path, dim=d)
            if nd >= 2:
                A("mult_dim", path, hi=0, lo=1)
                A("mult_dim", path, hi=1, lo=0)
                A("rearrange_dim", path, perm=[1, 0] + list(range(2, nd)))
            for apath, ac in allocs:
                if apath != path:
                    A("reuse_buffer", path, other=apath)
        if isinstance(c, C.WindowStmtCursor):
            A("inline_window", path)
        if isinstance(c, C.CallCursor):
            A("inline", path)
            A("call_eqv", path, how="simplify")
            A("call_eqv", path, how="cfgmod")
    return out


def buffers_in_scope(p, path):
    """(name, [shape strings]) of tensor arguments and allocations visible at `path` (approximate:
    arguments and allocations that precede it at an enclosing level)"""
    exo, C, S = _api()
    res = []
    for a in p.args():
        if a.is_tensor():
            res.append((a.name(), [estr(h) for h in a.shape()]))
    for apath, c, _ in walk_stmts(p):
        if isinstance(c, C.AllocCursor) and c.is_tensor():
            if (len(apath) <= len(path) and apath[:-1] == path[: len(apath) - 1]
                    and apath[-1][1] < path[len(apath) - 1][1]):
                res.append((c.name(), [estr(h) for h in c.shape()]))
    return res[:4]


# ------------------------------------------------------------------ applying an attempt
class Rejected(Exception):
    """the real code refused the attempt (any exception); .cls is the exception class name"""

    def __init__(self, cls, msg):
        super().__init__(f"{cls}: {msg}")
        self.cls = cls
        self.msg = msg


def apply_attempt(p, att, env):
    """apply through the real public API; env: dict with 'callees' {name: Procedure},
    'configs' {name: Config}.  Returns the new Procedure or raises Rejected."""
    exo, C, S = _api()
    from exo.libs.memories import DRAM_STACK
    op, path, a = att["op"], att["path"], att["args"]
    try:
        c = locate(p, path) if path else None
        if op.startswith("std:"):
            import exo.stdlib.stdlib as L
            import exo.stdlib.scheduling as SS
            name = op[4:]
            if name == "cleanup":
                r = L.cleanup(p)
            elif name == "unroll_loops":
                r = L.unroll_loops(p) if c is None else L.unroll_loops(p, c.as_block())
            elif name in ("interleave_loop", "unroll_and_jam", "divide_loop_recursive", "round_loop"):
                r = getattr(L, name)(p, c, 2)
            elif name == "tile_loops":
                r = L.tile_loops(p, [(c, 2)])
            elif name == "cut_loop_and_unroll":
                r = L.cut_loop_and_unroll(p, c, 1)
            elif name == "lift_if":
                r = SS.lift_if(p, c)
            else:
                r = getattr(L, name)(p, c)
            while isinstance(r, tuple):
                r = r[0]
            if not hasattr(r, "INTERNAL_proc"):
                raise Rejected("NotAProcedure", f"{name} returned {type(r).__name__}")
            return r
        if op == "simplify":
            return S.simplify(p)
        if op == "delete_pass":
            return S.delete_pass(p)
        if op == "insert_pass":
            return S.insert_pass(p, c.before() if a["where"] == "before" else c.after())
        if op == "reorder_stmts":
            return S.reorder_stmts(p, c.expand(0, 1))
        if op == "add_loop":
            return S.add_loop(p, c, a["iter"], a["hi"], guard=a["guard"])
        if op == "specialize":
            return S.specialize(p, c, a["cond"])
        if op == "extract_subproc":
            blk = c.as_block() if a["n"] == 1 else c.expand(0, a["n"] - 1)
            r = S.extract_subproc(p, blk, a["name"])
            return r[0] if isinstance(r, tuple) else r
        if op == "replace":
            return S.replace(p, c.as_block() if a["n"] == 1 else c.expand(0, a["n"] - 1), env["callees"][a["callee"]], quiet=True)
        if op == "fission":
            g = c.after() if a["where"] == "after" else c.before()
            return S.fission(p, g, n_lifts=a["n_lifts"])
        if op == "autofission":
            g = c.after() if a["where"] == "after" else c.before()
            return S.autofission(p, g, n_lifts=a["n_lifts"])
        if op == "cut_loop":
            return S.cut_loop(p, c, a["cut"])
        if op == "shift_loop":
            return S.shift_loop(p, c, a["new_lo"])
        if op == "divide_loop":
            return S.divide_loop(p, c, a["q"], a["iters"], tail=a["tail"], perfect=a["perfect"])
        if op == "unroll_loop":
            return S.unroll_loop(p, c)
        if op == "remove_loop":
            return S.remove_loop(p, c)
        if op == "reorder_loops":
            return S.reorder_loops(p, c)
        if op == "mult_loops":
            return S.mult_loops(p, c, a["name"])
        if op == "lift_scope":
            return S.lift_scope(p, c)
        if op == "eliminate_dead_code":
            return S.eliminate_dead_code(p, c)
        if op == "parallelize_loop":
            return S.parallelize_loop(p, c)
        if op == "join_loops":
            return S.join_loops(p, c, c.next())
        if op == "fuse":
            return S.fuse(p, c, c.next())
        if op == "divide_with_recompute":
            return S.divide_with_recompute(p, c, a["outer_hi"], a["outer_stride"], a["iters"])
        if op == "stage_mem":
            return S.stage_mem(p, c, a["win"], a["name"], accum=a["accum"])
        if op == "split_write":
            return S.split_write(p, c)
        if op == "fold_into_reduce":
            return S.fold_into_reduce(p, c)
        if op == "inline_assign":
            return S.inline_assign(p, c)
        if op == "merge_writes":
            return S.merge_writes(p, c.expand(0, 1))
        if op == "lift_reduce_constant":
            return S.lift_reduce_constant(p, c.expand(0, 1))
        if op == "commute_expr":
            return S.commute_expr(p, [c])
        if op == "left_reassociate_expr":
            return S.left_reassociate_expr(p, c)
        if op == "bind_expr":
            return S.bind_expr(p, [c], a["name"])
        if op == "rewrite_expr":
            return S.rewrite_expr(p, c, a["new"])
        if op == "bind_config":
            return S.bind_config(p, c, env["configs"][a["config"]], a["field"])
        if op == "write_config":
            g = c.before() if a["where"] == "before" else c.after()
            return S.write_config(p, g, env["configs"][a["config"]], a["field"], a["rhs"])
        if op == "delete_config":
            return S.delete_config(p, c)
        if op == "lift_alloc":
            return S.lift_alloc(p, c, n_lifts=a["n"])
        if op == "sink_alloc":
            return S.sink_alloc(p, c)
        if op == "autolift_alloc":
            return S.autolift_alloc(p, c, n_lifts=a["n"])
        if op == "delete_buffer":
            return S.delete_buffer(p, c)
        if op == "set_memory":
            return S.set_memory(p, c, DRAM_STACK)
        if op == "set_precision":
            return S.set_precision(p, c, a["typ"])
        if op == "expand_dim":
            return S.expand_dim(p, c, a["size"], a["idx"])
        if op == "resize_dim":
            return S.resize_dim(p, c, a["dim"], a["size"], a["offset"], fold=a["fold"])
        if op == "divide_dim":
            return S.divide_dim(p, c, a["dim"], a["q"])
        if op == "unroll_buffer":
            return S.unroll_buffer(p, c, a["dim"])
        if op == "mult_dim":
            return S.mult_dim(p, c, a["hi"], a["lo"])
        if op == "rearrange_dim":
            return S.rearrange_dim(p, c, a["perm"])
        if op == "reuse_buffer":
            return S.reuse_buffer(p, c, locate(p, a["other"]))
        if op == "inline_window":
            return S.inline_window(p, c)
        if op == "inline":
            return S.inline(p, c)
        if op == "call_eqv":
            callee = c.subproc()
            if a["how"] == "simplify":
                eq = S.simplify(callee)
            else:
                cfgs = list(env["configs"].values())
                if not cfgs:
                    raise Rejected("NoConfig", "no config available")
                cfg = cfgs[0]
                fld = cfg.fields()[0][0]
                isdata = "f" in str(cfg.lookup_type(fld)) or "R" == str(cfg.lookup_type(fld))
                first = callee.body()[0]
                eq = S.write_config(callee, first.before(), cfg, fld, "1.0" if isdata else "1")
            return S.call_eqv(p, c, eq)
        raise ValueError(f"unknown op {op}")
    except Rejected:
        raise
    except BaseException as e:  # the real code may raise anything
        if isinstance(e, (KeyboardInterrupt, SystemExit, MemoryError)):
            raise
        raise Rejected(type(e).__name__, str(e)[:300])
