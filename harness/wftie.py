"""Tie of the well-formedness preservation theorems (lean/ExoModel/Props/C04Shapes.lean) to the
real scheduling primitives.

For an accepted real rewrite `before -> after` of a modelled primitive the Lean driver
Drivers/C04Tie.lean (model: ExoModel/WfTie.lean) answers

    ok         the decidable site condition `...Ok` of the shape's `..._wf_anywhere` theorem holds at the site
    match      `after` is the model rewrite of `before` up to renaming of bound names
    scope      no binder of `after` shadows a name in scope (`scopeL`)
    wf_before  / wf_after   `(wfL Γ body).isSome`, Γ = environment of the formals

Theorem `Exo.C04.wf_tie_sound`: ok ∧ match ∧ scope ∧ wf_before ⇒ wf_after.  `classify` names the cases:

    theorem-applies           ok, match, scope, wf_before and wf_after                  (expected)
    BROKEN                    ok, match, scope, wf_before but NOT wf_after              (theorem or tie broken)
    ok-but-no-match           ok holds but the output is not the model rewrite (rwcheck reports that)
    ok-but-shadowing          ok and match hold, the output shadows a name (then wf_after is false: a finding
                              of its own — the primitive re-used a name in scope)
    cond-fails-result-wf      site condition fails, result well formed (theorem not applicable, fine)
    cond-fails-result-not-wf  site condition fails and the result is ill formed (the scope findings)
    input-not-wf              the input procedure is not well formed (pool / exporter problem)
    no-shape                  no theorem for this primitive / unexpected shape (`why` says which)

Use:  import wftie;  out = wftie.check(pj_before, pj_after, name, path, k, flag);  wftie.classify(out)
      (name, path, k, flag) as for the driver op `rwcheck`; `params_of_att(p, att)` computes them from a stream
      attempt exactly as obs_sem.rwcheck does.  `Observer` plugs into sched_run.run_stream.
Self-test:  cd /verif && /venv/bin/python harness/wftie.py [--names a,b,..] [--procs N]
"""
from __future__ import annotations

import json

# primitives with a shape model AND a well-formedness theorem (the storage rewrites have a model
# in RewriteStorage.lean but no `…_wf_anywhere` theorem yet)
MODELLED = {"insert_pass", "reorder_stmts", "cut_loop", "join_loops", "specialize",
            "eliminate_dead_code", "remove_loop", "add_loop", "fission", "fuse",
            "shift_loop", "unroll_loop", "divide_loop", "reorder_loops", "mult_loops", "lift_scope",
            # storage shapes
            "lift_alloc", "sink_alloc", "delete_buffer", "delete_pass", "bind_expr",
            "expand_dim", "divide_dim", "mult_dim", "resize_dim", "rearrange_dim",
            # data shapes
            "split_write", "merge_writes", "fold_into_reduce", "lift_reduce_constant", "inline_assign",
            "rewrite_expr", "commute_expr", "left_reassociate_expr", "divide_with_recompute",
            "stage_mem", "reuse_buffer",
            # calls
            "extract_subproc"}
# modelled shapes WITHOUT a well-formedness theorem yet: unroll_buffer, inline

_DRV = None


def driver():
    global _DRV
    if _DRV is None:
        from common import LeanDriver
        _DRV = LeanDriver("Drivers/C04Tie.lean")
    return _DRV


def close():
    global _DRV
    if _DRV is not None:
        _DRV.close()
        _DRV = None


def params_of_att(p, att):
    """(name, path, k, flag) of the driver request for a stream attempt, or None when the attempt has no shape
    model (same conventions as obs_sem.Observer.rwcheck)"""
    op, a = att["op"], att["args"]
    if op not in MODELLED:
        return None
    path, k, flag = att["path"], 0, False
    if op == "insert_pass":
        flag = a["where"] == "before"
    elif op == "add_loop":
        flag = bool(a["guard"])
    elif op == "lift_alloc":
        k = a.get("n", 1)
    elif op == "extract_subproc":
        k = a.get("n", 1)
    elif op == "divide_with_recompute":
        k = a["outer_stride"]
    elif op == "stage_mem":
        k, flag = 1, bool(a["accum"])
    elif op == "reuse_buffer":
        k = sum((2 * i + (st == "orelse") + 1) * 256 ** n for n, (st, i) in enumerate(a["other"]))
    elif op in ("bind_expr", "rewrite_expr", "commute_expr", "left_reassociate_expr"):
        path = [st for st in path if st[0] in ("body", "orelse")]
    elif op in ("divide_dim", "resize_dim"):
        if op == "resize_dim" and a.get("fold"):
            return None  # no storage model for the folding variant
        k = a["dim"]
    elif op == "mult_dim":
        k = 16 * a["hi"] + a["lo"]
    elif op == "rearrange_dim":
        k = sum(q * 16 ** i for i, q in enumerate(a["perm"]))
    elif op == "fission":
        if a.get("n_lifts", 1) != 1:
            return None
        k = path[-1][1] + (1 if a["where"] == "after" else 0)
        path = path[:-1]
        import exo.API_cursors as C
        from stream import locate
        if not path or not isinstance(locate(p, path), C.ForCursor):
            return None  # fission of an `if` is not modelled
    name = op
    if op == "divide_loop":
        name = "divide_loop_perfect" if a["perfect"] else "divide_loop_" + a["tail"]
        k = a["q"]
    return name, path, k, flag


def check(pj_before, pj_after, name, path, k, flag, drv=None):
    """one driver round trip; returns the answer dict (see module docstring); raises InfraError on a driver
    failure or a malformed request"""
    from common import InfraError
    req = {"op": "wfok", "name": name, "path": path, "k": k, "flag": bool(flag), "before": pj_before, "after": pj_after}
    out = json.loads((drv or driver()).ask(json.dumps(req, separators=(",", ":"))))
    if "bad" in out:
        raise InfraError(f"C04Tie driver: {out['bad']}")
    return out


def classify(out):
    if out.get("ok") is None:
        return "no-shape"
    if not out["wf_before"]:
        return "input-not-wf"
    if out["ok"]:
        if not out["match"]:
            return "ok-but-no-match"
        if not out["scope"]:
            return "ok-but-shadowing"
        return "theorem-applies" if out["wf_after"] else "BROKEN"
    return "cond-fails-result-wf" if out["wf_after"] else "cond-fails-result-not-wf"


class Observer:
    """sched_run observer: counts the classes per primitive; records BROKEN cases (kind `wftie-broken`) and the
    cases where the condition fails and the result is ill formed (kind `wftie-cond-fails-not-wf`)"""

    def __init__(self, rec, rng, opts):
        self.rec = rec
        self.drv = None

    def start(self, p0, env, src):
        from common import LeanDriver
        self.src = src
        self.drv = LeanDriver("Drivers/C04Tie.lean")

    def before(self, p, att):
        pass

    def rejected(self, p, att, r):
        pass

    def accepted(self, p, att, p2, hist):
        import export_ir
        c = self.rec["counts"]
        pr = params_of_att(p, att)
        if pr is None:
            return
        try:
            pj, _ = export_ir.export(p)
            pj2, _ = export_ir.export(p2)
        except export_ir.ExportError:
            c["wftie:export-error"] = c.get("wftie:export-error", 0) + 1
            return
        name, path, k, flag = pr
        out = check(pj, pj2, name, path, k, flag, self.drv)
        cls = classify(out)
        c["wftie"] = c.get("wftie", 0) + 1
        c[f"wftie:{att['op']}:{cls}"] = c.get(f"wftie:{att['op']}:{cls}", 0) + 1
        if cls == "no-shape":
            c[f"wftie:why:{att['op']}:{out.get('why')}"] = c.get(f"wftie:why:{att['op']}:{out.get('why')}", 0) + 1
        if cls in ("BROKEN", "cond-fails-result-not-wf", "ok-but-shadowing", "input-not-wf"):
            self.rec["records"].append({"kind": "wftie-" + cls.lower(), "key": f"wftie:{att['op']}:{cls}",
                                        "what": f"{att['op']}: {cls} {out}", "att": att, "hist": hist,
                                        "program": self.rec["name"], "src": self.src,
                                        "before": str(p), "after": str(p2)})

    def finish(self):
        if self.drv:
            self.drv.close()


def _selftest(argv):
    import argparse
    import os
    import sys
    import types
    sys.path.insert(0, os.path.dirname(os.path.abspath(__file__)))
    import sched_run
    ap = argparse.ArgumentParser()
    ap.add_argument("--names", default=None)
    ap.add_argument("--procs", type=int, default=3)
    ap.add_argument("--depth", type=int, default=1)
    ap.add_argument("--seed", type=int, default=0)
    ns = ap.parse_args(argv)
    ctx = types.SimpleNamespace(seed=ns.seed, quick=True)
    recs = sched_run.run_stream(ctx, ["wftie"], names=set(ns.names.split(",")) if ns.names else None,
                                opts={"depth": ns.depth}, procs=ns.procs)
    tot = {}
    for r in recs:
        if r["error"]:
            print("WORKER ERROR", r["name"], r["error"][:400])
        for k, v in r["counts"].items():
            if k.startswith("wftie"):
                tot[k] = tot.get(k, 0) + v
    ops = sorted({k.split(":")[1] for k in tot if k.count(":") == 2})
    classes = ["theorem-applies", "BROKEN", "ok-but-no-match", "ok-but-shadowing", "cond-fails-result-wf",
               "cond-fails-result-not-wf", "input-not-wf", "no-shape"]
    print(f"{'primitive':22s}" + "".join(f"{c[:14]:>16s}" for c in classes))
    for op in ops:
        print(f"{op:22s}" + "".join(f"{tot.get(f'wftie:{op}:{c}', 0):16d}" for c in classes))
    print("total requests:", tot.get("wftie", 0))
    for k in sorted(tot):
        if k.startswith("wftie:why:"):
            print(" ", k, tot[k])
    seen = set()
    for r in recs:
        for x in r["records"]:
            if x["kind"].startswith("wftie-") or x["kind"] == "observer-exception":
                prog = x.get("program", r["name"])
                key = (x.get("key") or x.get("exc"), prog.split("~")[0])
                if key in seen:
                    continue
                seen.add(key)
                print("---", x["kind"], x.get("key"), "program", prog, "att", json.dumps(x["att"]))
                if x["kind"] == "observer-exception":
                    print(x["exc"], x.get("tb", "")[-600:])
                else:
                    print(x["what"][:300])
                    print(x["after"][:700])
    return 1 if any(k.endswith(":BROKEN") for k in tot) else 0


if __name__ == "__main__":
    import sys
    sys.exit(_selftest(sys.argv[1:]))
