"""Regenerate /verif/MANIFEST.json from the table below (run: python3 harness/manifest_gen.py)."""
import json
from pathlib import Path

ROOT = Path(__file__).resolve().parent.parent

COMMON_NOTE = ("Trusted: Lean 4.33 kernel; axioms ⊆ {propext, Classical.choice, Quot.sound} (audited per theorem on "
               "every run, listed in the evidence); the harness (exporter, translators, generators, canonicalisation). "
               "Modelled, not verified: z3/pysmt and the effect analysis of new_eff.py (their verdicts are only observed), "
               "gcc/libc/CPU, CPython set/dict iteration; floating-point rounding is outside the model (data values form a "
               "commutative ring; executions use exactly representable values).")

# per-property texts live in harness/manifest_table.json


def main():
    props = [json.loads(l) for l in (ROOT / "properties.jsonl").read_text().splitlines() if l.strip()]
    table = json.loads((ROOT / "harness" / "manifest_table.json").read_text())
    checks, na = [], []
    for p in props:
        pid = p["id"]
        ent = table.get(pid)
        if not ent or not ent.get("claimed"):
            na.append({"property_id": pid, "reason": (ent or {}).get("reason", "check not built yet (work in progress; planned per DESIGN.md section 3)")})
            continue
        checks.append({
            "property_id": pid,
            "quick_cmd": f"./check {pid} --tier quick",
            "thorough_cmd": f"./check {pid} --tier thorough",
            "evidence_file": f"evidence/{pid}.json",
            "replay_cmd_template": f"./check {pid} --replay {{path}}",
            "engine": "lean4-exomodel",
            "level_claimed": {"category": "proof", "text": ent["text"], "design_ref": ent["design_ref"]},
            "level_note": ent["note"] + " " + COMMON_NOTE,
            "technique": ent["technique"],
        })
    m = {
        "version": 1,
        "setup_cmd": "cd lean && lake build",
        "hooks": {"guard": "EXO_VERIF",
                  "enable": "no source hooks: all instrumentation is done by wrapping functions from the harness process (EXO_VERIF=1 is exported by ./check and read only by the harness); /repo carries only 'fix:' commits",
                  "baseline_off_cmd": "cd /repo && /venv/bin/python -m pytest -ra -q -p no:cacheprovider --timeout=900 --continue-on-collection-errors",
                  "source_commits": [], "add_only": True},
        "engines": [{"name": "lean4-exomodel", "path": "lean/", "serves_properties": [c["property_id"] for c in checks],
                     "kind_free_text": "Lean 4 model of exo (reference semantics, rewrites, analyses) + property theorems; tied to /repo by per-run correspondence checks (harness/) and regenerated tables (lean/ExoModel/Gen)"}],
        "checks": checks,
        "notes": "see DESIGN.md; known_findings.json lists genuine defects of the pinned tree (reported as KNOWN-FINDING) and the 'fix:' commits made in /repo",
        "not_applicable": na,
    }
    (ROOT / "MANIFEST.json").write_text(json.dumps(m, indent=1))
    print(f"{len(checks)} checks, {len(na)} not claimed")


if __name__ == "__main__":
    main()
