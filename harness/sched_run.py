"""Run the schedule stream over the program pool in parallel worker processes.

Each worker: builds one pool program through the real front end, enumerates attempts
(stream.attempts), applies each through the real API and hands every accepted (p, p', attempt)
to the observer functions selected by the calling property check.  Observers run inside the
worker (they need the live Procedure objects) and return json-able records.
"""
from __future__ import annotations

import json
import multiprocessing as mp
import os
import random
import re
import time
import traceback


def variants(src, rng, n):
    """the pool source itself plus n-1 variants with small constants perturbed"""
    out = [src]
    consts = list(re.finditer(r"(?<![\w.])([2-8])(?![\w.])", src))
    for _ in range(n - 1):
        s = src
        if consts:
            m = rng.choice(consts)
            v = int(m.group(1))
            nv = rng.choice([x for x in (2, 3, 4, 5, 6) if x != v])
            s = src[: m.start(1)] + str(nv) + src[m.end(1):]
        out.append(s)
    return out


def _worker(job):
    (name, src, seed, observers, opts) = job
    import sys
    sys.path.insert(0, os.path.dirname(__file__))
    import common
    common.import_exo()
    import exo_build, stream, export_ir
    import importlib
    from exo.core.configs import Config

    rng = random.Random(f"{name}:{seed}")
    rec = {"name": name, "records": [], "counts": {}, "error": None, "src": src}

    def cnt(k, n=1):
        rec["counts"][k] = rec["counts"].get(k, 0) + n

    try:
        mod = exo_build.build_module(src)
    except BaseException as e:
        rec["error"] = f"front end rejected pool program: {type(e).__name__}: {str(e)[:300]}"
        return rec
    procs = exo_build.procs_of(mod)
    if not procs:
        rec["error"] = "no procedure"
        return rec
    names = list(procs)
    p0 = procs[names[-1]]
    env = {"callees": {k: procs[k] for k in names[:-1]},
           "configs": {k: v for k, v in vars(mod).items() if isinstance(v, Config)}}
    cfg_list = []
    for cn, cfg in env["configs"].items():
        for (fn, _t) in cfg.fields():
            isdata = not export_ir.is_ctrl_type(cfg.lookup_type(fn))
            cfg_list.append((cn, fn, isdata))
    obs = []
    for oname in observers:
        m = importlib.import_module(oname)
        obs.append(m.Observer(rec, rng, opts))
    try:
        for o in obs:
            o.start(p0, env, src)
        depth = opts.get("depth", 1)
        frontier = [(p0, [])]
        max_att = opts.get("max_attempts", 10**9)
        for d in range(depth):
            nxt = []
            for (p, hist) in frontier:
                atts = stream.attempts(p, callees=list(env["callees"]), configs=cfg_list)
                if d > 0 or len(atts) > max_att:
                    rng.shuffle(atts)
                    atts = atts[: (opts.get("depth2_attempts", 25) if d > 0 else max_att)]
                fp = str(p)
                for att in atts:
                    cnt("attempts")
                    for o in obs:
                        o.before(p, att)
                    rej = None
                    try:
                        with common.time_limit(opts.get("attempt_timeout_s", 180)):
                            p2 = stream.apply_attempt(p, att, env)
                    except stream.Rejected as r:
                        rej = r
                    except common.HarnessTimeout as t:
                        # the real operation does not come back: not a verdict on the property (counted, listed)
                        rej = stream.Rejected("HarnessTimeout", str(t))
                        rec["records"].append({"kind": "note", "key": f"timeout:{att['op']}", "what": f"{att['op']} did not return within the time limit",
                                               "att": att, "hist": hist, "program": name, "diag": "", "src": src})
                    if str(p) != fp:
                        # the operation changed an existing procedure in place (C07); record it and
                        # continue on a freshly built copy so that later results are not polluted
                        rec["records"].append({"kind": "impure", "att": att, "hist": hist, "program": name,
                                               "src": src, "before": fp, "now": str(p),
                                               "outcome": "rejected" if rej else "accepted"})
                        if d == 0:
                            mod = exo_build.build_module(src)
                            procs = exo_build.procs_of(mod)
                            p = procs[names[-1]]
                            env["callees"] = {k: procs[k] for k in names[:-1]}
                            env["configs"] = {k: v for k, v in vars(mod).items() if isinstance(v, Config)}
                            fp = str(p)
                            continue
                        break
                    if rej is not None:
                        cnt(f"rejected:{att['op']}")
                        cnt(f"rejcls:{rej.cls}")
                        for o in obs:
                            o.rejected(p, att, rej)
                        continue
                    cnt(f"accepted:{att['op']}")
                    for o in obs:
                        try:
                            o.accepted(p, att, p2, hist)
                        except common.InfraError:
                            raise
                        except BaseException as e:
                            rec["records"].append({"kind": "observer-exception", "observer": type(o).__module__,
                                                   "att": att, "hist": hist, "exc": f"{type(e).__name__}: {str(e)[:300]}",
                                                   "tb": traceback.format_exc()[-1500:]})
                    nxt.append((p2, hist + [att]))
            rng.shuffle(nxt)
            frontier = nxt[: opts.get("depth2_procs", 6)]
        for o in obs:
            o.finish()
    except common.InfraError as e:
        rec["error"] = f"infra: {e}"
    except BaseException as e:
        rec["error"] = f"worker exception: {type(e).__name__}: {str(e)[:300]}\n{traceback.format_exc()[-2000:]}"
    return rec


def run_stream(ctx, observers, names=None, nvariants=1, opts=None, procs=None, extra=None):
    """returns list of per-program records; `extra` = further programs (pool.REGRESSION) run without variants, depth 1"""
    import pool

    opts = dict(opts or {})
    jobs = []
    rng = random.Random(f"stream:{ctx.seed}")
    items = [(k, v) for k, v in pool.POOL.items() if names is None or k in names]
    for (k, src) in items:
        for vi, s in enumerate(variants(src, rng, nvariants)):
            jobs.append((k if vi == 0 else f"{k}~{vi}", s, ctx.seed, observers, opts))
    for (k, src) in (extra or {}).items():
        if names is None or k in names:
            # depth 1 only: every attempt on the program itself is enumerated (no sampling), which is what a
            # regression case needs; deeper schedules start from the results of recorded defects
            jobs.append((k, src, ctx.seed, observers, dict(opts, depth=1)))
    nproc = procs or min(16, os.cpu_count() or 4)
    with mp.get_context("spawn").Pool(nproc) as pl:
        ar = pl.map_async(_worker, jobs, chunksize=1)
        try:
            res = ar.get(timeout=opts.get("stream_timeout_s", 5400 if ctx.quick else 6 * 3600))
        except mp.TimeoutError:
            pl.terminate()
            import common
            raise common.InfraError("schedule stream did not finish in time (a worker hung)")
    return res


def replay_stream(ctx, path):
    """re-run one recorded stream failure (replay file written by ctx.violation)"""
    import json
    import common
    common.import_exo()
    import exo_build, stream, export_ir, interp
    from exo.core.configs import Config

    j = json.loads(open(path).read())
    r = j["replay"]
    if not r or "src" not in r or "att" not in r:
        print(f"replay file {path} names a broken obligation / correspondence, nothing to execute: {j.get('what')}")
        return
    mod = exo_build.build_module(r["src"])
    procs = exo_build.procs_of(mod)
    names = list(procs)
    p = procs[names[-1]]
    env = {"callees": {k: procs[k] for k in names[:-1]},
           "configs": {k: v for k, v in vars(mod).items() if isinstance(v, Config)}}
    for att in r.get("hist", []):
        p = stream.apply_attempt(p, att, env)
    print("--- before\n" + str(p))
    try:
        p2 = stream.apply_attempt(p, r["att"], env)
    except stream.Rejected as e:
        print(f"the operation is now rejected: {e}")
        return
    print("--- after\n" + str(p2))
    if "input" not in r:
        return
    I = interp.Interp()
    try:
        pj, _ = export_ir.export(p)
        pj2, _ = export_ir.export(p2)
        ra = I.run(pj, [r["input"]])[0]
        rb = I.run(pj2, [r["input"]])[0]
    finally:
        I.close()
    print("original:", json.dumps(ra)[:600])
    print("derived :", json.dumps(rb)[:600])
    bad = interp.compare(ra, rb, modulo={tuple(k) for k in r.get("reported_modulo", [])})
    if bad:
        ctx.violation(j["key"], f"{r['att']['op']}: {bad} (replayed)", r)
    else:
        print("no difference on the recorded input")
