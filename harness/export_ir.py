"""Serialise exo LoopIR (Procedure.INTERNAL_proc()) to the JSON read by lean/ExoModel/Wire.lean.

Only what has a run-time meaning is kept: srcinfo, precisions and memories are dropped.  For each
literal the exporter records whether it is control (int/bool) or data (exact rational), taken
from the type annotation of the node.  Also collects meta data the input generator needs
(argument kinds, configs mentioned).
"""
from fractions import Fraction


class ExportError(Exception):
    pass


def _mods():
    from exo.core.LoopIR import LoopIR, T

    return LoopIR, T


def sym(s):
    return [s.name(), s._id]


def is_ctrl_type(t):
    LoopIR, T = _mods()
    return isinstance(t, (T.Int, T.Index, T.Size, T.Stride, T.Bool))


def exp_expr(e, cfgs=None):
    LoopIR, T = _mods()
    if isinstance(e, LoopIR.Read):
        return ["read", sym(e.name), [exp_expr(i, cfgs) for i in e.idx]]
    if isinstance(e, LoopIR.Const):
        if isinstance(e.type, T.Bool) or isinstance(e.val, bool):
            return ["bool", bool(e.val)]
        if is_ctrl_type(e.type):
            if not isinstance(e.val, int):
                raise ExportError(f"non-integer control literal {e.val!r}")
            return ["int", int(e.val)]
        fr = Fraction(e.val)
        return ["data", fr.numerator, fr.denominator]
    if isinstance(e, LoopIR.USub):
        return ["usub", exp_expr(e.arg, cfgs)]
    if isinstance(e, LoopIR.BinOp):
        return ["binop", str(e.op), exp_expr(e.lhs, cfgs), exp_expr(e.rhs, cfgs)]
    if isinstance(e, LoopIR.Extern):
        return ["extern", e.f.name(), [exp_expr(a, cfgs) for a in e.args]]
    if isinstance(e, LoopIR.WindowExpr):
        return ["win", sym(e.name), [exp_wacc(w, cfgs) for w in e.idx]]
    if isinstance(e, LoopIR.StrideExpr):
        return ["stride", sym(e.name), int(e.dim)]
    if isinstance(e, LoopIR.ReadConfig):
        if cfgs is not None:
            cfgs[(e.config.name(), e.field)] = e.config.lookup_type(e.field)
        return ["readcfg", e.config.name(), e.field]
    raise ExportError(f"unknown expr {type(e)}")


def exp_wacc(w, cfgs=None):
    LoopIR, T = _mods()
    if isinstance(w, LoopIR.Point):
        return ["pt", exp_expr(w.pt, cfgs)]
    return ["iv", exp_expr(w.lo, cfgs), exp_expr(w.hi, cfgs)]


def exp_argty(t, cfgs=None):
    LoopIR, T = _mods()
    if isinstance(t, T.Size):
        return ["ctrl", "size"]
    if isinstance(t, T.Index):
        return ["ctrl", "index"]
    if isinstance(t, T.Int):
        return ["ctrl", "int"]
    if isinstance(t, T.Bool):
        return ["ctrl", "bool"]
    if isinstance(t, T.Stride):
        return ["ctrl", "stride"]
    if isinstance(t, T.Tensor):
        return ["tensor", [exp_expr(h, cfgs) for h in t.hi], bool(t.is_window)]
    if t.is_real_scalar():
        return ["scalar"]
    raise ExportError(f"unknown arg type {t}")


def exp_stmt(s, cfgs=None):
    LoopIR, T = _mods()
    if isinstance(s, LoopIR.Assign):
        return ["assign", sym(s.name), [exp_expr(i, cfgs) for i in s.idx], exp_expr(s.rhs, cfgs)]
    if isinstance(s, LoopIR.Reduce):
        return ["reduce", sym(s.name), [exp_expr(i, cfgs) for i in s.idx], exp_expr(s.rhs, cfgs)]
    if isinstance(s, LoopIR.WriteConfig):
        ft = s.config.lookup_type(s.field)
        if cfgs is not None:
            cfgs[(s.config.name(), s.field)] = ft
        return ["writecfg", s.config.name(), s.field, exp_expr(s.rhs, cfgs), not is_ctrl_type(ft)]
    if isinstance(s, LoopIR.Pass):
        return ["pass"]
    if isinstance(s, LoopIR.If):
        return ["if", exp_expr(s.cond, cfgs), exp_stmts(s.body, cfgs), exp_stmts(s.orelse, cfgs)]
    if isinstance(s, LoopIR.For):
        return ["for", sym(s.iter), exp_expr(s.lo, cfgs), exp_expr(s.hi, cfgs), exp_stmts(s.body, cfgs),
                isinstance(s.loop_mode, LoopIR.Par)]
    if isinstance(s, LoopIR.Alloc):
        return ["alloc", sym(s.name), [exp_expr(h, cfgs) for h in s.type.shape()]]
    if isinstance(s, LoopIR.Free):
        return ["free", sym(s.name)]
    if isinstance(s, LoopIR.Call):
        return ["call", exp_proc(s.f, cfgs), [exp_expr(a, cfgs) for a in s.args]]
    if isinstance(s, LoopIR.WindowStmt):
        return ["window", sym(s.name), exp_expr(s.rhs, cfgs)]
    raise ExportError(f"unknown stmt {type(s)}")


def exp_stmts(ss, cfgs=None):
    return [exp_stmt(s, cfgs) for s in ss]


def exp_proc(p, cfgs=None):
    return {
        "name": str(p.name),
        "args": [[sym(a.name), exp_argty(a.type, cfgs)] for a in p.args],
        "preds": [exp_expr(e, cfgs) for e in p.preds],
        "body": exp_stmts(p.body, cfgs),
    }


def export(procedure):
    """Procedure (API object) or LoopIR.proc -> (json proc, {(cfg,field): 'c'|'d'})"""
    ir = procedure.INTERNAL_proc() if hasattr(procedure, "INTERNAL_proc") else procedure
    cfgs = {}
    j = exp_proc(ir, cfgs)
    return j, {k: ("c" if is_ctrl_type(t) else "d") for k, t in cfgs.items()}
