"""Build real exo Procedures from generated source text (the @proc decorator needs a file)."""
from __future__ import annotations

import importlib.util
import itertools
import os
import sys
import tempfile

HEADER = """from __future__ import annotations
from exo import proc, instr, DRAM, config
from exo.libs.memories import *
from exo.libs.externs import *
from exo.stdlib.scheduling import *
"""

_counter = itertools.count()
_tmpdir = None


def scratch_dir():
    global _tmpdir
    if _tmpdir is None:
        _tmpdir = tempfile.TemporaryDirectory(prefix="exo_verif_")
    return _tmpdir.name


def build_module(src: str, header: str = HEADER):
    """write `src` to a scratch module, import it, return the module (raises what exo raises)"""
    n = next(_counter)
    name = f"exo_verif_gen_{os.getpid()}_{n}"
    path = os.path.join(scratch_dir(), name + ".py")
    with open(path, "w") as f:
        f.write(header + "\n" + src + "\n")
    spec = importlib.util.spec_from_file_location(name, path)
    mod = importlib.util.module_from_spec(spec)
    sys.modules[name] = mod
    try:
        spec.loader.exec_module(mod)
    except BaseException:
        sys.modules.pop(name, None)
        raise
    return mod


def procs_of(mod):
    from exo import Procedure

    return {k: v for k, v in vars(mod).items() if isinstance(v, Procedure)}
