"""Classification of a semantic mismatch into a stable key (call site + input class).

known_findings.json lists keys of genuine defects of the unchanged tree that were recorded
rather than repaired; every other key is reported as a VIOLATION.  The predicates below look at
the *situation* (primitive + shape of the code at the cursor), never at the seed, so the same
defect is recognised for every generated instance and nothing else is suppressed: a mismatch of
the same primitive in a situation not described here gets the generic key
`<op>:semantic-mismatch`, which no known finding lists.
"""
from __future__ import annotations


def _mods():
    from exo.core.LoopIR import LoopIR, T
    return LoopIR, T


def children(n):
    """direct ADT children (nodes and lists of nodes) of a LoopIR node"""
    LoopIR, T = _mods()
    out = []
    for f in getattr(type(n), "__attrs_attrs__", ()):
        if f.name in ("srcinfo", "type", "f", "mem", "config", "loop_mode"):
            continue
        v = getattr(n, f.name)
        if isinstance(v, list):
            out += [x for x in v if hasattr(type(x), "__attrs_attrs__")]
        elif hasattr(type(v), "__attrs_attrs__"):
            out.append(v)
    return out


def walk(n):
    yield n
    for c in children(n):
        yield from walk(c)


def names_read(nodes):
    LoopIR, T = _mods()
    s = set()
    for r in nodes:
        for n in walk(r):
            if isinstance(n, (LoopIR.Read, LoopIR.WindowExpr, LoopIR.StrideExpr)):
                s.add(n.name)
    return s


def names_written(nodes):
    LoopIR, T = _mods()
    s = set()
    for r in nodes:
        for n in walk(r):
            if isinstance(n, (LoopIR.Assign, LoopIR.Reduce)):
                s.add(n.name)
    return s


def defines(nodes):
    LoopIR, T = _mods()
    return [n for n in nodes if isinstance(n, (LoopIR.Alloc, LoopIR.WindowStmt))]


def window_aliases(proc_ir):
    """{window name: base buffer name} for every WindowStmt of the procedure"""
    LoopIR, T = _mods()
    al = {}
    for s in proc_ir.body:
        for n in walk(s):
            if isinstance(n, LoopIR.WindowStmt) and isinstance(n.rhs, LoopIR.WindowExpr):
                al[n.name] = al.get(n.rhs.name, n.rhs.name)
    return al


def ctrl_env(pj, inp):
    """{argument name: value} of the control arguments of an interpreter input"""
    env = {}
    for (s, ty), a in zip(pj["args"], inp["args"]):
        if "c" in a:
            env[s[0]] = a["c"]
    return env


def eval_str(expr, env):
    try:
        return eval(expr.replace("/", "//"), {"__builtins__": {}}, dict(env))
    except Exception:
        return None


def shared_statement_object(att, p):
    """the statement the cursor is in is one Python object that occurs more than once in the
    procedure (e.g. both branches of `specialize`'s if/else): the effect analysis finds its context
    by object identity and takes that of the FIRST occurrence"""
    from stream import locate
    LoopIR, T = _mods()
    path = att["path"]
    # longest prefix of the path that addresses a statement
    k = len(path)
    while k > 0 and path[k - 1][0] not in ("body", "orelse"):
        k -= 1
    if k == 0:
        return False
    ir = p._loopir_proc
    for j in range(k, 0, -1):
        node = locate(p, path[:j])._impl._node
        n = sum(1 for r in ir.body for x in walk(r) if x is node)
        if n > 1:
            return True
    return False


# stdlib wrappers that only forward to one primitive at the same cursor: classified as that primitive
STD_ALIAS = {"std:reorder_stmt_forward": "reorder_stmts", "std:reorder_stmt_backwards": "reorder_stmts",
             "std:lift_if": "lift_scope", "std:jam_stmt": "add_loop"}


def type_exprs(t):
    """index expressions occurring inside a LoopIR type (tensor extents)"""
    try:
        return list(t.shape()) if hasattr(t, "shape") and t.is_tensor_or_window() else []
    except Exception:
        return []


def iter_in_alloc_shape(loop):
    """an allocation inside the loop has an extent that mentions the loop's iteration variable
    (pattern-based substitution `_replace_reads` never visits types)"""
    LoopIR, T = _mods()
    for x in (y for s in loop.body for y in walk(s)):
        if isinstance(x, LoopIR.Alloc) and loop.iter in names_read(type_exprs(x.type)):
            return True
    return False


def cfg_reads(nodes):
    LoopIR, T = _mods()
    return {(x.config.name(), x.field) for r in nodes for x in walk(r) if isinstance(x, LoopIR.ReadConfig)}


def cfg_writes(nodes):
    LoopIR, T = _mods()
    return {(x.config.name(), x.field) for r in nodes for x in walk(r) if isinstance(x, LoopIR.WriteConfig)}


def classify_mismatch(att, p, p2, bad, pj=None, inp=None):
    op = att["op"]
    if op in STD_ALIAS:
        att = dict(att, op=STD_ALIAS[op])
        if op == "std:reorder_stmt_backwards" and att["path"]:
            # the wrapper swaps the statement with its predecessor: the primitive's cursor is the predecessor
            att["path"] = att["path"][:-1] + [[att["path"][-1][0], att["path"][-1][1] - 1]]
        op = att["op"]
    try:
        if shared_statement_object(att, p):
            return "effect-analysis:context-of-first-occurrence-of-shared-statement-object"
    except Exception:
        pass
    try:
        sub = _situation(att, p, p2, bad, ctrl_env(pj, inp) if pj and inp else {})
    except Exception as e:  # classification must never hide a mismatch
        sub = None
    return f"{op}:{sub}" if sub else f"{op}:semantic-mismatch"


def _block_nodes(c, n):
    """nodes of the n statements starting at statement cursor c"""
    out = [c._impl._node]
    cur = c
    for _ in range(n - 1):
        cur = cur.next()
        out.append(cur._impl._node)
    return out


def _rest_of_block(c):
    out = []
    cur = c.next()
    import exo.API_cursors as C
    while not isinstance(cur, C.InvalidCursor):
        out.append(cur._impl._node)
        cur = cur.next()
    return out


def _situation(att, p, p2, bad, env):
    from stream import locate
    LoopIR, T = _mods()
    op, a = att["op"], att["args"]
    c = locate(p, att["path"]) if att["path"] else None
    n = c._impl._node if c is not None else None
    ir = p._loopir_proc

    if op == "reorder_stmts":
        pair = _block_nodes(c, 2)
        if isinstance(pair[0], LoopIR.WindowStmt) and pair[0].name in names_read([pair[1]]) | names_written([pair[1]]):
            return "window-definition-moved-after-its-use"
    if op == "reorder_stmts":
        pair = _block_nodes(c, 2)
        if isinstance(pair[0], LoopIR.Alloc) and isinstance(pair[1], LoopIR.WindowStmt) and pair[0].name in names_read([pair[1].rhs]):
            return "allocation-moved-after-window-of-it"
        if isinstance(pair[0], LoopIR.Alloc) and pair[0].name in (names_read([pair[1]]) | names_written([pair[1]])):
            return "allocation-moved-after-statement-that-mentions-it-without-effect"
    if op == "lift_scope":
        import exo.API_cursors as C
        par = c.parent()
        pn = par._impl._node if not isinstance(par, C.InvalidCursor) else None

        if isinstance(n, LoopIR.If) and isinstance(pn, LoopIR.If) and not n.orelse:
            if n in pn.body and pn.orelse:
                return "if-in-if-body:inner-without-else-drops-outer-else"
            if n in pn.orelse:
                return "if-in-if-orelse:inner-without-else-drops-outer-body"
        if isinstance(n, LoopIR.For) and isinstance(pn, LoopIR.If):
            if cfg_reads([pn.cond]) & cfg_writes(n.body):
                return "for-in-if:guard-reads-config-written-by-body"
            if "badLoop" in bad:
                return "for-in-if:bounds-evaluated-when-guard-false"
        if isinstance(n, LoopIR.If) and isinstance(pn, LoopIR.For):
            if cfg_reads([n.cond]) & cfg_writes(n.body + n.orelse):
                return "if-in-for:guard-reads-config-written-by-body"
    if op == "fission":
        # fission of an `if`: no dependence check at all; allocation used only through a window / a top-level reduce
        import exo.API_cursors as C
        par = c.parent()
        pn = par._impl._node if not isinstance(par, C.InvalidCursor) else None
        # the guard of an `if` that is duplicated (the parent itself, or an ancestor crossed by n_lifts > 1) reads a
        # configuration field that the first part writes
        blk0 = None
        if pn is not None and hasattr(pn, "body"):
            blk0 = pn.body if any(x is n for x in pn.body) else getattr(pn, "orelse", [])
        if blk0 and any(x is n for x in blk0):
            k0 = next(i for i, x in enumerate(blk0) if x is n) + (1 if a.get("where") == "after" else 0)
            wr = cfg_writes(blk0[:k0])
            cur = par
            for _ in range(a.get("n_lifts", 1)):
                if isinstance(cur, C.InvalidCursor):
                    break
                cn = cur._impl._node
                if isinstance(cn, LoopIR.If) and cfg_reads([cn.cond]) & wr:
                    return "if:first-part-writes-config-read-by-guard"
                cur = cur.parent()
        if isinstance(pn, LoopIR.If) and "scope" in bad:
            blk = pn.body if n in pn.body else pn.orelse
            k = blk.index(n) + (1 if a.get("where") == "after" else 0)
            pre_defs = {x.name for x in blk[:k] if isinstance(x, LoopIR.Alloc)}
            if pre_defs:
                return "if:allocation-in-first-part-used-by-second-only-through-window-or-reduce"
    if op == "specialize":
        if isinstance(n, LoopIR.WindowStmt):
            return "block-defines-window-used-later"
    if op == "add_loop":
        if isinstance(n, (LoopIR.Alloc, LoopIR.WindowStmt)):
            return "wraps-definition-used-later"
    if op == "extract_subproc":
        blk = _block_nodes(c, a.get("n", 1))
        if defines(blk):
            return "block-defines-name-used-later"
        al = window_aliases(ir)
        if any(x in al for x in names_read(blk) | names_written(blk)) and "scope" in bad:
            return "block-uses-window-variable-that-is-not-passed"
        import exo.API_cursors as C
        if "assertFail" in bad:
            # path conditions of enclosing ifs become assertions of the sub-procedure although a statement between the
            # `if` and the block changed a configuration field the condition reads
            cur, child, loop_between = c.parent(), c, False
            while isinstance(cur, (C.IfCursor, C.ForCursor)):
                cn = cur._impl._node
                if isinstance(cur, C.IfCursor):
                    sib = cn.body if any(x is child._impl._node for x in cn.body) else cn.orelse
                    idx = next(i for i, x in enumerate(sib) if x is child._impl._node)
                    # writes that can precede the block: earlier siblings; with a loop in between also the block
                    # itself and everything else in that loop (next iteration)
                    before = sib[:idx] + (sib[idx:] if loop_between else [])
                    if cfg_reads([cn.cond]) & cfg_writes(before):
                        return "path-condition-invalidated-by-config-write-before-block"
                else:
                    loop_between = True
                child, cur = cur, cur.parent()
        if "assertFail" in bad and any(isinstance(x, LoopIR.If) and x.orelse for x in blk):
            return "path-condition-taken-from-sibling-if-orelse"
        # get_env_preds collects the (negated) condition of EVERY `if` it walks past, with or without else branch,
        # also when the `if` is a preceding sibling (of the block or of one of its ancestors) rather than an ancestor
        cur = c
        while "assertFail" in bad and not isinstance(cur, C.InvalidCursor) and cur._impl._path:
            prev = cur.prev()
            while not isinstance(prev, C.InvalidCursor):
                if isinstance(prev._impl._node, LoopIR.If):
                    return "path-condition-taken-from-sibling-if-orelse"
                prev = prev.prev()
            cur = cur.parent()
            if not isinstance(cur, (C.ForCursor, C.IfCursor)):
                break
    if op == "inline" and isinstance(n, LoopIR.Call):
        if any(isinstance(x, LoopIR.ReadConfig) for ar in n.args for x in walk(ar)) and cfg_writes(n.f.body):
            return "config-reading-actual-substituted-after-callee-write"
    if op == "reuse_buffer":
        if att["path"][:-1] != a["other"][:-1]:
            return "target-allocation-in-another-scope"
    if op == "inline_assign":
        arg_names = {x.name for x in ir.args}
        if n.name in arg_names:
            return "assigned-buffer-is-an-argument"
        if n.name in window_aliases(ir):
            return "assigned-buffer-is-a-window"
        rest = _rest_of_block(c)
        def nreads(nodes):
            return sum(1 for r in nodes for x in walk(r)
                       if isinstance(x, (LoopIR.Read, LoopIR.WindowExpr)) and x.name == n.name)
        if nreads(ir.body) > nreads(rest):
            return "assigned-buffer-read-outside-rest-of-block"
    if op in ("divide_loop", "mult_loops", "divide_with_recompute") and isinstance(n, LoopIR.For):
        iters = {n.iter} | ({n.body[0].iter} if op == "mult_loops" and n.body and isinstance(n.body[0], LoopIR.For) else set())
        if "scope" in bad and any(isinstance(x, LoopIR.Alloc) and iters & names_read(type_exprs(x.type))
                                  for st in n.body for x in walk(st)):
            return "iteration-variable-in-allocation-shape-not-substituted"
    if op == "divide_with_recompute":
        v = eval_str(a["outer_hi"], env)
        if v is None:
            # outer_hi mentions enclosing iteration variables: is it non-positive for some of their values?
            import exo.API_cursors as C
            loops, cur = [], c.parent()
            while isinstance(cur, C.ForCursor) or isinstance(cur, C.IfCursor):
                if isinstance(cur, C.ForCursor):
                    loops.insert(0, cur._impl._node)
                cur = cur.parent()

            def enum(k, e):
                if k == len(loops):
                    yield e
                    return
                lo, hi = eval_str(str(loops[k].lo), e), eval_str(str(loops[k].hi), e)
                if lo is None or hi is None:
                    return
                for x in range(lo, min(hi, lo + 64)):
                    yield from enum(k + 1, dict(e, **{str(loops[k].iter): x}))

            for e in enum(0, dict(env)):
                w = eval_str(a["outer_hi"], e)
                if w is not None and w <= 0:
                    v = w
                    break
        if v is not None and v <= 0:
            return "outer-hi-not-positive-on-this-input"
        if not (isinstance(n.lo, LoopIR.Const) and n.lo.val == 0):
            return "loop-lower-bound-not-zero"
        if names_read(n.body) & names_written(n.body):
            return "recomputed-iterations-see-writes-of-later-iterations"
    if op == "reuse_buffer":
        try:
            other = locate(p, a["other"])._impl._node
            if att["path"][:-1] == a["other"][:-1] and att["path"][-1][1] > a["other"][-1][1]:
                return "kept-buffer-allocated-after-the-replaced-one"
            rest = _rest_of_block(locate(p, a["other"]))
            direct = any(isinstance(x, (LoopIR.Assign, LoopIR.Reduce)) and x.name == other.name for st in rest for x in walk(st))
            if not direct and any(isinstance(x, LoopIR.Call) for st in rest for x in walk(st)):
                return "replaced-buffer-written-only-through-a-call"
        except Exception:
            pass
    if op == "stage_mem":
        buf = a["win"].split("[")[0]
        al = window_aliases(ir)
        touched = names_read([n]) | names_written([n])
        if any(str(al.get(x)) == buf and str(x) != buf for x in touched if x in al):
            return "block-accesses-staged-buffer-through-window-alias"
        reads = {str(x) for x in names_read([n])}
        if buf not in reads and not a.get("accum"):
            return "write-only-block:unwritten-window-cells-stored-back"
        if any(isinstance(x, LoopIR.WindowStmt) and str(getattr(x.rhs, "name", "")) == buf for x in walk(n)):
            return "window-of-staged-buffer-defined-in-block-used-after"
        if isinstance(n, LoopIR.If) and any(isinstance(x, LoopIR.Assign) and str(x.name) == buf for x in walk(n)) and "None" in bad:
            return "conditional-first-write-suppresses-copy-in"
        for x in walk(n):
            if isinstance(x, LoopIR.Call) and any(str(y) == buf for y in names_read(x.args)):
                return "staged-buffer-written-through-call-never-stored-back"
    if op == "autofission":
        return "no-dependence-check"
    if op == "simplify":
        # F14 (recorded under C12): DoSimplify's fact table is keyed by the PRINTED expression; with two distinct
        # symbols of one name (shadowing loop variables) a fact `i == 0` about one rewrites the other
        binders = [a.name for a in ir.args] + [x.iter for st in ir.body for x in walk(st) if isinstance(x, LoopIR.For)] \
            + [x.name for st in ir.body for x in walk(st) if isinstance(x, (LoopIR.Alloc, LoopIR.WindowStmt))]
        names = [b.name() for b in set(binders)]
        has_fact = any(isinstance(x, LoopIR.If) for st in ir.body for x in walk(st))
        if has_fact and len(names) != len(set(names)):
            return "fact-table-keyed-by-printed-name:shadowed-symbol-rewritten"
    if op == "lift_reduce_constant":
        if isinstance(n, LoopIR.Reduce):
            return "first-statement-is-a-reduce"
        if isinstance(n, LoopIR.Assign) and not (isinstance(n.rhs, LoopIR.Const) and n.rhs.val == 0):
            return "initial-value-not-zero"
    DIM_OPS = ("expand_dim", "divide_dim", "mult_dim", "unroll_buffer", "resize_dim", "rearrange_dim")
    if op in DIM_OPS and isinstance(n, LoopIR.Alloc):
        rest = _rest_of_block(c)
        if any(isinstance(x, LoopIR.StrideExpr) and x.name == n.name for st in rest for x in walk(st)):
            return "stride-expression-of-rewritten-buffer-not-adjusted"
        al = {}
        for st in rest:
            for x in walk(st):
                if isinstance(x, LoopIR.WindowStmt) and isinstance(x.rhs, LoopIR.WindowExpr):
                    al[x.name] = al.get(x.rhs.name, x.rhs.name)
        passed = any(isinstance(x, LoopIR.Call) and any(
            (isinstance(y, (LoopIR.WindowExpr, LoopIR.Read)) and al.get(y.name, y.name) == n.name) for ar in x.args for y in walk(ar))
            for st in rest for x in walk(st))
        if passed and "assertFail" in bad:
            return "callee-stride-precondition-not-rechecked"
    if op == "sink_alloc" and isinstance(n, LoopIR.Alloc) and "scope" in bad:
        nx = c.next()._impl._node
        if isinstance(nx, LoopIR.If) and nx.orelse and n.name in (names_read(nx.orelse) | names_written(nx.orelse)):
            return "if-else:copy-of-allocation-renamed-but-else-branch-not"
    if op == "bind_expr":
        stmt_path = [st for st in att["path"] if st[0] in ("body", "orelse")]
        sn = locate(p, stmt_path)._impl._node
        if isinstance(sn, LoopIR.Call):
            return "call-argument:callee-writes-or-takes-a-tensor"
    if op == "lift_alloc" and "nonPosSize" in bad:
        return "extent-evaluated-where-guard-or-loop-was-skipped"
    if op == "autolift_alloc" and isinstance(n, LoopIR.Alloc) and "scope" in bad:
        import exo.API_cursors as C
        crossed, cur = set(), c.parent()
        for _ in range(a.get("n", 1)):
            if isinstance(cur, C.ForCursor):
                crossed.add(cur._impl._node.iter)
            cur = cur.parent()
        if crossed & names_read(type_exprs(n.type)):
            return "allocation-size-depends-on-crossed-iteration-variable"
    if op == "merge_writes":
        al = window_aliases(ir)
        pair = _block_nodes(c, 2)
        rd = names_read([pair[1].rhs])
        if any(al.get(x) == al.get(pair[0].name, pair[0].name) and x != pair[0].name for x in rd):
            return "second-rhs-reads-lhs-through-window-alias"
    if op == "split_write":
        if isinstance(n.rhs, LoopIR.BinOp) and n.name in names_read([n.rhs.rhs]):
            return "second-operand-reads-lhs"
    if op == "resize_dim" and a.get("fold"):
        if any(isinstance(x, LoopIR.WindowExpr) and x.name == n.name and any(isinstance(w, LoopIR.Interval) for w in x.idx)
               for st in _rest_of_block(c) for x in walk(st)):
            return "fold:window-interval-ends-folded-separately"
        return "fold:live-range-wider-than-fold-size"
    return None
