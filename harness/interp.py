"""Client of the Lean reference interpreter (lean/Drivers/Sem.lean) + generator of valid inputs.

`Interp.run(proc_json, inputs)` -> list of results ({"ok":{heap,cfg}} | {"err":e} | {"invalid":e}).
`gen_inputs(proc_json, cfg_types, rng, n)` -> list of inputs valid for the procedure (sizes >= 1,
preds true, declared shapes, injective views, distinct buffers), found by rejection sampling
against the driver's own validity check.
"""
from __future__ import annotations

import json
from fractions import Fraction

from common import LeanDriver, LEAN, InfraError, sh

SIZES = [1, 2, 3, 4, 5, 6, 8, 12, 16]


class EvalError(Exception):
    pass


def eval_ctrl(e, env):
    """python evaluation of an exported control expression (floor // and %)"""
    t = e[0]
    if t == "read":
        k = tuple(e[1])
        if k not in env or e[2]:
            raise EvalError(f"unbound {k}")
        return env[k]
    if t == "int":
        return e[1]
    if t == "bool":
        return 1 if e[1] else 0
    if t == "usub":
        return -eval_ctrl(e[1], env)
    if t == "binop":
        a, b = eval_ctrl(e[2], env), eval_ctrl(e[3], env)
        op = e[1]
        if op == "+":
            return a + b
        if op == "-":
            return a - b
        if op == "*":
            return a * b
        if op == "/":
            if b <= 0:
                raise EvalError("div")
            return a // b
        if op == "%":
            if b <= 0:
                raise EvalError("mod")
            return a % b
        return int({"<": a < b, ">": a > b, "<=": a <= b, ">=": a >= b, "==": a == b,
                    "and": bool(a) and bool(b), "or": bool(a) or bool(b)}[op])
    raise EvalError(f"cannot evaluate {t}")


def rat(x):
    if x is None:
        return None
    f = Fraction(x)
    return str(f.numerator) if f.denominator == 1 else f"{f.numerator}/{f.denominator}"


def gen_one(pj, cfg_types, rng, dense_only=False, small=False):
    env = {}
    args = []
    heap = []
    sizes = [1, 2, 3, 4] if small else SIZES
    # control arguments first (shapes may mention later ones, so two passes)
    for (s, ty) in pj["args"]:
        if ty[0] == "ctrl":
            k = ty[1]
            if k == "size":
                v = rng.choice(sizes)
            elif k == "bool":
                v = rng.randint(0, 1)
            elif k == "stride":
                v = rng.randint(1, 3)
            else:
                v = rng.randint(-2, 6)
            env[tuple(s)] = v
    for (s, ty) in pj["args"]:
        if ty[0] == "ctrl":
            args.append({"c": env[tuple(s)]})
            continue
        if ty[0] == "scalar":
            shape, is_win = [], False
        else:
            try:
                shape = [eval_ctrl(h, env) for h in ty[1]]
            except EvalError:
                return None
            is_win = ty[2]
        if any(d < 1 for d in shape):
            return None
        k = len(heap)
        if not is_win or dense_only or rng.random() < 0.4:
            strides = []
            acc = 1
            for d in reversed(shape):
                strides.insert(0, acc)
                acc *= d
            off, blen = 0, acc
            if is_win and not dense_only and rng.random() < 0.5:
                off = rng.randint(0, 3)
                blen = acc + off + rng.randint(0, 2)
        else:
            # injective strided view: row-major over a permuted, padded shape, scaled
            n = len(shape)
            perm = list(range(n))
            if rng.random() < 0.3:
                rng.shuffle(perm)
            pad = [shape[i] + rng.randint(0, 2) for i in range(n)]
            scale = rng.choice([1, 1, 2, 3])
            strides = [0] * n
            acc = scale
            for i in reversed(perm):
                strides[i] = acc
                acc *= pad[i]
            off = rng.randint(0, 3)
            blen = off + sum((shape[i] - 1) * strides[i] for i in range(n)) + 1 + rng.randint(0, 2)
        data = [rat(rng.randint(-3, 3)) if rng.random() < 0.85 else rat(Fraction(rng.randint(-5, 5), 2))
                for _ in range(blen)]
        heap.append(data)
        args.append({"v": {"buf": k, "off": off, "dims": [[d, st] for d, st in zip(shape, strides)]}})
    cfg = []
    for (c, f), t in sorted(cfg_types.items()):
        if t == "d":
            cfg.append([c, f, "d", rat(rng.randint(-3, 3))])
        else:
            cfg.append([c, f, "c", rng.randint(0, 4)])
    return {"args": args, "heap": heap, "cfg": cfg}


class Interp:
    def __init__(self):
        self.drv = LeanDriver("Drivers/Sem.lean")

    def close(self):
        self.drv.close()

    def run(self, pj, inputs):
        if not inputs:
            return []
        out = self.drv.ask(json.dumps({"op": "exec", "proc": pj, "inputs": inputs}, separators=(",", ":")))
        r = json.loads(out)
        if "bad" in r:
            raise InfraError(f"Sem driver rejected request: {r['bad']}")
        return r["results"]

    def gen_inputs(self, pj, cfg_types, rng, n, tries=40, small=False):
        """inputs valid for pj, with their results on pj"""
        good, res = [], []
        for t in range(tries):
            if len(good) >= n:
                break
            cand = []
            for _ in range(2 * n):
                c = gen_one(pj, cfg_types, rng, dense_only=(t % 3 == 2), small=small)
                if c is not None:
                    cand.append(c)
            if not cand:
                continue
            rs = self.run(pj, cand)
            for c, r in zip(cand, rs):
                if "invalid" in r or "bad" in r:
                    continue
                if len(good) < n:
                    good.append(c)
                    res.append(r)
        return good, res


def refines(a, b):
    """poison order on cells: None ⊑ x, v ⊑ v"""
    return a is None or a == b


def compare(ra, rb, modulo=()):
    """Equiv direction of DESIGN 1.1: original ok ⇒ derived ok and original ⊑ derived on caller
    buffers and on cfg fields outside `modulo`.  Returns None if fine, else a description."""
    if "err" in ra:
        return None  # original trips a monitor: nothing is promised
    if "ok" not in ra:
        return None
    if "err" in rb:
        return f"derived procedure fails with {rb['err']} where the original runs"
    if "ok" not in rb:
        return f"derived procedure not runnable: {rb}"
    ha, hb = ra["ok"]["heap"], rb["ok"]["heap"]
    if len(ha) != len(hb):
        return "different number of caller buffers"
    for k, (ba, bb) in enumerate(zip(ha, hb)):
        for c, (x, y) in enumerate(zip(ba, bb)):
            if not refines(x, y):
                return f"buffer {k} cell {c}: original {x} derived {y}"
    ca = {(c[0], c[1]): c[3] for c in ra["ok"]["cfg"]}
    cb = {(c[0], c[1]): c[3] for c in rb["ok"]["cfg"]}
    for k, v in ca.items():
        if k in modulo or f"{k[0]}.{k[1]}" in modulo:
            continue
        if k not in cb:
            return f"config field {k} missing in derived run"
        if not refines(v, cb[k]):
            return f"config field {k}: original {v} derived {cb[k]}"
    return None
