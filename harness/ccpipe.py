"""C02 / C08 search X: the REAL backend pipeline against the Lean reference interpreter.

    Procedure --compile_procs_to_strings--> p.c / p.h
              --generated main.c (same inputs as the interpreter gets)--> gcc -O1 -g -Wall -Wextra
                 -fsanitize=address,undefined -fno-sanitize-recover=all --> run (one process per input)
              --> printed argument buffers / context fields  vs  interp.Interp().run(exported LoopIR, inputs)

`check_proc` returns a list of *findings* (dicts with "kind", "key", "what", replay material) and
updates a counter dict.  Kinds:
    diff       C02  a printed cell / scalar / ctxt field differs from the reference result
    abort      C02+C08 the run died (sanitizer report, signal); "san" holds the sanitizer kind
    leak       C08  LeakSanitizer report after a run that printed everything
    cc-error   (C15's subject, reported under its own key) gcc rejects the emitted C
    const      C08  gcc diagnoses a const violation in the emitted C
Nothing is promised (and nothing is run) for inputs on which the reference interpretation trips a
monitor ({"err":..}).  Classification of known findings:
    F6  `%` emitted verbatim: the same input is re-interpreted with every control `%` replaced by
        C's truncating remainder (expressed with floor operations); if that changes the reference
        outcome the input is "mod-sensitive" and the failure gets the key KEY_F6.
    F7  free placed before a use through a window alias: decided on the MemoryAnalysis output.
"""
from __future__ import annotations

import json
import os
import re
import struct
import subprocess
import tempfile
from fractions import Fraction

import export_ir
import interp

KEY_F6 = "c-mod:possibly-negative-numerator-emitted-as-c-remainder"
KEY_F7 = "free:placed-before-use-through-window-alias"
KEY_STRIDE = "stride-ref:renamed-window-uses-symbol-name-not-c-name"
KEY_F10 = "cc-error:array-subscript-is-not-an-integer"

CFLAGS = ["-std=gnu11", "-O1", "-g", "-Wall", "-Wextra", "-Wno-unused-parameter", "-Wno-unknown-pragmas",
          "-fsanitize=address,undefined", "-fno-sanitize-recover=all"]

INT_RANGES = {"int8_t": (-128, 127), "uint8_t": (0, 255), "uint16_t": (0, 65535),
              "int32_t": (-2 ** 31, 2 ** 31 - 1), "bool": (0, 1), "int_fast32_t": (-2 ** 63, 2 ** 63 - 1)}
FLOAT_TYPES = {"float", "double", "_Float16"}

CUSTOM_MALLOC_H = """#pragma once
#include <stdlib.h>
static inline void *malloc_dram(size_t n) { return malloc(n); }
static inline void free_dram(void *p) { free(p); }
"""

# ---------------------------------------------------------------------------------- programs
# situations the pool does not contain: precisions and casts, scalars by reference through
# calls, negative index arguments, shadowed / colliding C names, library memories realisable on
# the host, stride assertions, windows of windows with point accesses, F6 / F7 witnesses.
EXTRA = {}


def _add(name, src):
    EXTRA[name] = src


_add("x_mod_neg", '''
@proc
def x_mod_neg(x: f32[8], y: f32[4]):
    for i in seq(0, 4):
        y[i] = x[(i - 3) % 8]
''')

_add("x_div_neg", '''
@proc
def x_div_neg(n: size, x: f32[n + 4], y: f32[n]):
    for i in seq(0, n):
        y[i] = x[(i - 3) / 2 + 2]
''')

# a size-typed numerator that can be negative: `n - 8` has type `size` for the type checker, yet is negative for n < 8
# (seeded change C02_3 treated every size-typed expression as non-negative and emitted C `/` for it)
_add("x_div_neg_size", '''
@proc
def x_div_neg_size(n: size, x: f32[2 * n + 8], y: f32[n]):
    for i in seq(0, n):
        y[i] = x[(n - 8) / 4 + 2 + i]
''')

# a window STATEMENT with a leading point over a 3-d window argument whose inner strides are asserted constant
# (seeded change C02_4 carried _known_strides to the new window under the SOURCE dimension numbers)
_add("x_win3_known_strides", '''
@proc
def plane(b: index, dst: f32[3, 4], A: [f32][2, 3, 4]):
    assert b >= 0 and b < 2
    assert stride(A, 1) == 8
    assert stride(A, 2) == 1
    w = A[b, :, :]
    for i in seq(0, 3):
        for j in seq(0, 4):
            dst[i, j] = w[i, j]

@proc
def x_win3_known_strides(b: index, dst: f32[3, 4], buf: f32[2, 3, 8]):
    assert b >= 0 and b < 2
    plane(b, dst, buf[:, :, 0:4])
''')

_add("x_div_neg_bound", '''
@proc
def x_div_neg_bound(n: size, k: index, x: f32[n + 8]):
    assert k >= -4
    assert k <= n
    for j in seq(0, (k - 1) / 2 + 3):
        x[j] = 2.0
''')

_add("x_free_alias", '''
@proc
def x_free_alias(n: size, y: f32[n]):
    x: f32[n + 4]
    for i in seq(0, n + 4):
        x[i] = 1.0
    w = x[0:4]
    for i in seq(0, n):
        y[i] = w[i % 4] + 2.0
''')

_add("x_prec", '''
@proc
def x_prec(n: size, a: f64, x: f32[n], y: f64[n], z: i32[n], q: i8[n]):
    for i in seq(0, n):
        y[i] = x[i]
        y[i] += a
    t: f64
    t = a
    for i in seq(0, n):
        x[i] = t
    for i in seq(0, n):
        z[i] = q[i]
        z[i] += 3.0
''')

_add("x_scalar_ref", '''
@proc
def bump(v: f32, d: f32):
    v = v + d
    v += 1.0

@proc
def x_scalar_ref(n: size, acc: f32, x: f32[n], out: f32[2]):
    t: f32
    t = 0.0
    d: f32
    for i in seq(0, n):
        d = x[i]
        bump(t, d)
        bump(acc, t)
    out[0] = t
    out[1] = acc
''')

_add("x_neg_arg", '''
@proc
def x_neg_arg(n: size, k: index, x: f32[n + 8], y: f32[n]):
    assert k >= -3
    assert k <= 4
    for i in seq(0, n):
        y[i] = x[i + k + 3] + x[(i + k + 3) / 2] + x[(k + 3) / 2]
''')

_add("x_names", '''
@proc
def x_names(n: size, i_1: f32[n], ctxt: f32[n]):
    for i in seq(0, n):
        i_1[i] = 1.0
        for i in seq(0, n):
            ctxt[i] += i_1[i]
            for i in seq(0, 2):
                ctxt[0] += 2.0
    x_1: f32
    x_1 = 2.0
    for x in seq(0, n):
        x: f32
        x = x_1
        ctxt[0] += x
''')

_add("x_mems", '''
@proc
def x_mems(x: f32[6], y: f32[6]):
    a: f32[6] @ DRAM_STATIC
    b: f32[2, 3] @ DRAM_STACK
    c: f32[6] @ MDRAM
    for i in seq(0, 6):
        a[i] = x[i] + 1.0
        c[i] = a[i] * 2.0
    for i in seq(0, 2):
        for j in seq(0, 3):
            b[i, j] = c[3 * i + j]
    for i in seq(0, 6):
        y[i] = b[i / 3, i % 3] + a[i]
''')

_add("x_stride_assert", '''
@proc
def inner(n: size, m: size, dst: [f32][n, m], src: [f32][m]):
    assert stride(dst, 1) == 1
    for i in seq(0, n):
        for j in seq(0, m):
            dst[i, j] += src[j] * 2.0

@proc
def x_stride_assert(n: size, A: f32[n + 1, 6], b: f32[8, 2]):
    inner(n, 4, A[1:n + 1, 1:5], b[2:6, 1])
''')

_add("x_win3", '''
@proc
def x_win3(n: size, A: f32[n + 2, 4, n + 3], y: [f32][n]):
    w = A[1:n + 2, 2, 1:n + 3]
    u = w[0:n, 1:n + 1]
    v = u[0:n, 0]
    for i in seq(0, n):
        y[i] = v[i] + u[i, n - 1]
        v[i] = 3.0
''')

_add("x_alloc2d", '''
@proc
def x_alloc2d(n: size, m: size, x: f32[n, m], y: f32[m, n]):
    for i in seq(0, n):
        t: f32[m, 2]
        for j in seq(0, m):
            t[j, 0] = x[i, j]
            t[j, 1] = x[i, m - 1 - j]
        if i < n - 1:
            u: f32[m]
            for j in seq(0, m):
                u[j] = t[j, 1] * 2.0
            for j in seq(0, m):
                y[j, i] = u[j]
        else:
            for j in seq(0, m):
                y[j, i] = t[j, 0]
''')

_add("x_else_alloc", '''
@proc
def x_else_alloc(n: size, x: f32[n], y: f32[n]):
    for i in seq(0, n):
        if i == 0:
            y[i] = x[i]
        else:
            u: f32[n]
            for j in seq(0, n):
                u[j] = x[j] + x[i]
            y[i] = u[i - 1] + u[i]
''')

_add("x_cfg_types", '''
@config
class CfgT:
    b: bool
    k: index
    s: f64
    t: f32

@proc
def x_cfg_types(n: size, a: f64, x: f64[n], y: f32[n]):
    CfgT.t = 2.0
    if CfgT.b:
        CfgT.k = 1
    else:
        CfgT.k = 0
    for i in seq(0, n):
        x[i] = CfgT.s
        y[i] = CfgT.t
    x[0] = 0.5
    CfgT.s = a
''')

_add("x_extern64", '''
@proc
def x_extern64(n: size, x: f64[n], y: f64[n]):
    for i in seq(0, n):
        y[i] = relu(x[i]) + select(x[i], y[i], 1.0, 2.0) + fmaxf(x[i], y[i])
''')


_add("x_inline_win", '''
@proc
def inl_callee(n: size, src: [f32][n, n], dst: [f32][n]):
    w = src[0:n, 0]
    for i in seq(0, n):
        dst[i] = w[i]

@proc
def x_inline_win(n: size, A: f32[n, n], y: f32[n]):
    w = A[0, 0:n]
    for i in seq(0, n):
        y[i] = w[i]
    inl_callee(n, A[0:n, 0:n], y[0:n])
    y[0] += w[0]
''')

# schedules applied by the observer to the program as written (besides the sampled stream)
EXTRA_SCHED = {
    "x_inline_win": [{"op": "inline", "path": [["body", 2]], "args": {}}],
    "call_sub": [{"op": "inline", "path": [["body", 0], ["body", 0]], "args": {}}],
    "x_scalar_ref": [{"op": "inline", "path": [["body", 3], ["body", 1]], "args": {}}],
}


# ---------------------------------------------------------------------------------- unit
class Skip(Exception):
    """this procedure / input is outside what the differential run can judge"""

    def __init__(self, why):
        super().__init__(why)
        self.why = why


def _walk_procs(ir, seen=None):
    from exo.core.LoopIR import LoopIR

    seen = seen if seen is not None else {}
    if id(ir) in seen:
        return seen
    seen[id(ir)] = ir

    def stmts(ss):
        for s in ss:
            if isinstance(s, LoopIR.Call):
                _walk_procs(s.f, seen)
            elif isinstance(s, LoopIR.For):
                stmts(s.body)
            elif isinstance(s, LoopIR.If):
                stmts(s.body)
                stmts(s.orelse)

    stmts(ir.body)
    return seen


def all_basetypes(ir):
    """ctypes of every argument / allocation of the procedure and its callees"""
    from exo.core.LoopIR import LoopIR

    out = set()

    def stmts(ss):
        for s in ss:
            if isinstance(s, LoopIR.Alloc):
                out.add(s.type.basetype().ctype())
            elif isinstance(s, LoopIR.For):
                stmts(s.body)
            elif isinstance(s, LoopIR.If):
                stmts(s.body)
                stmts(s.orelse)

    for p in _walk_procs(ir).values():
        for a in p.args:
            if a.type.is_numeric():
                out.add(a.type.basetype().ctype())
        stmts(p.body)
    return out


UNSUPPORTED_EXTERNS = {"sin", "expf", "sigmoid", "sqrt"}


def scan_json(pj):
    """(externs used, has a data division by a non power of two / non literal, has control %)"""
    ext, baddiv, hasmod = set(), [False], [False]

    def is_pow2(n, d):
        fr = Fraction(n, d)
        if fr <= 0:
            return False
        a, b = fr.numerator, fr.denominator
        return (a & (a - 1)) == 0 and (b & (b - 1)) == 0

    def ex(e):
        t = e[0]
        if t == "read":
            for i in e[2]:
                ex(i)
        elif t == "usub":
            ex(e[1])
        elif t == "binop":
            if e[1] == "/" and e[3][0] != "int":
                if not (e[3][0] == "data" and is_pow2(e[3][1], e[3][2])):
                    baddiv[0] = True
            if e[1] == "%":
                hasmod[0] = True
            ex(e[2])
            ex(e[3])
        elif t == "extern":
            ext.add(e[1])
            for a in e[2]:
                ex(a)
        elif t == "win":
            for w in e[2]:
                for x in w[1:]:
                    ex(x)

    def st(s):
        t = s[0]
        if t in ("assign", "reduce"):
            for i in s[2]:
                ex(i)
            ex(s[3])
        elif t == "writecfg":
            ex(s[3])
        elif t == "if":
            ex(s[1])
            for b in s[2] + s[3]:
                st(b)
        elif t == "for":
            ex(s[2])
            ex(s[3])
            for b in s[4]:
                st(b)
        elif t == "alloc":
            for h in s[2]:
                ex(h)
        elif t == "call":
            pr(s[1])
            for a in s[2]:
                ex(a)
        elif t == "window":
            ex(s[2])

    def pr(p):
        for e in p["preds"]:
            ex(e)
        for a in p["args"]:
            if a[1][0] == "tensor":
                for h in a[1][1]:
                    ex(h)
        for s in p["body"]:
            st(s)

    pr(pj)
    return ext, baddiv[0], hasmod[0]


def trunc_mod_json(pj):
    """copy of the exported procedure in which every control `a % q` is replaced by C's truncating
    remainder written with floor operations:  a % q - q * ((a < 0) and (0 < a % q))"""

    def ex(e):
        t = e[0]
        if t == "read":
            return ["read", e[1], [ex(i) for i in e[2]]]
        if t == "usub":
            return ["usub", ex(e[1])]
        if t == "binop":
            a, b = ex(e[2]), ex(e[3])
            if e[1] == "%":
                m = ["binop", "%", a, b]
                return ["binop", "-", m, ["binop", "*", b,
                                         ["binop", "and", ["binop", "<", a, ["int", 0]], ["binop", "<", ["int", 0], m]]]]
            return ["binop", e[1], a, b]
        if t == "extern":
            return ["extern", e[1], [ex(a) for a in e[2]]]
        if t == "win":
            return ["win", e[1], [[w[0]] + [ex(x) for x in w[1:]] for w in e[2]]]
        return e

    def st(s):
        t = s[0]
        if t in ("assign", "reduce"):
            return [t, s[1], [ex(i) for i in s[2]], ex(s[3])]
        if t == "writecfg":
            return [t, s[1], s[2], ex(s[3]), s[4]]
        if t == "if":
            return [t, ex(s[1]), [st(b) for b in s[2]], [st(b) for b in s[3]]]
        if t == "for":
            return [t, s[1], ex(s[2]), ex(s[3]), [st(b) for b in s[4]], s[5]]
        if t == "alloc":
            return [t, s[1], [ex(h) for h in s[2]]]
        if t == "call":
            return [t, pr(s[1]), [ex(a) for a in s[2]]]
        if t == "window":
            return [t, s[1], ex(s[2])]
        return s

    def pr(p):
        # predicates and declared shapes are validity conditions of the input, not emitted C
        return {"name": p["name"], "args": p["args"], "preds": p["preds"], "body": [st(s) for s in p["body"]]}

    return pr(pj)


def free_before_alias_use(ir):
    """F7 on the MemoryAnalysis output: is some Free(x) followed, in its block, by a statement
    that uses a window derived from x?  Returns the list of such buffer names."""
    from exo.core.LoopIR import LoopIR
    from exo.backend.mem_analysis import MemoryAnalysis
    from exo.backend.win_analysis import WindowAnalysis

    try:
        q = MemoryAnalysis().run(WindowAnalysis().apply_proc(ir))
    except Exception:
        return []
    hits = []
    direct = []

    def names_e(e, out):
        if isinstance(e, LoopIR.Read):
            out.add(e.name)
            for i in e.idx:
                names_e(i, out)
        elif isinstance(e, LoopIR.USub):
            names_e(e.arg, out)
        elif isinstance(e, LoopIR.BinOp):
            names_e(e.lhs, out)
            names_e(e.rhs, out)
        elif isinstance(e, LoopIR.Extern):
            for a in e.args:
                names_e(a, out)
        elif isinstance(e, (LoopIR.WindowExpr, LoopIR.StrideExpr)):
            out.add(e.name)

    def names_s(s, out):
        if isinstance(s, (LoopIR.Assign, LoopIR.Reduce)):
            out.add(s.name)
            for i in s.idx:
                names_e(i, out)
            names_e(s.rhs, out)
        elif isinstance(s, LoopIR.WriteConfig):
            names_e(s.rhs, out)
        elif isinstance(s, LoopIR.If):
            names_e(s.cond, out)
            for b in list(s.body) + list(s.orelse):
                names_s(b, out)
        elif isinstance(s, LoopIR.For):
            for b in s.body:
                names_s(b, out)
        elif isinstance(s, LoopIR.Call):
            for a in s.args:
                names_e(a, out)
        elif isinstance(s, LoopIR.WindowStmt):
            names_e(s.rhs, out)

    def block(ss, alias):
        alias = dict(alias)
        freed = []
        for s in ss:
            used = set()
            names_s(s, used)
            roots = set()
            for u in used:
                r = u
                while r in alias:
                    r = alias[r]
                roots.add(r)
            for x in freed:
                if x in used:
                    direct.append(str(x))      # a textual use after the free: not F7 (not the unchanged tree's behaviour)
                elif x in roots:
                    hits.append(str(x))
            if isinstance(s, LoopIR.Free):
                freed.append(s.name)
            elif isinstance(s, LoopIR.WindowStmt):
                alias[s.name] = s.rhs.name
            elif isinstance(s, LoopIR.For):
                block(s.body, alias)
            elif isinstance(s, LoopIR.If):
                block(s.body, alias)
                block(s.orelse, alias)

    block(q.body, {})
    return [] if direct else hits


def stride_name_clash(ctext):
    """does some emitted access `X.data[ ... Y.strides[k] ... ]` (or window construction from X) use the
    strides of a different variable Y, where X is Y renamed by new_varname (`Y_<n>`)?"""
    for m in re.finditer(r"(\w+)\.data\[([^\]\n]*)", ctext):
        x = m.group(1)
        for y in re.findall(r"(\w+)\.strides\[", m.group(2)):
            if y != x and re.fullmatch(re.escape(y) + r"_\d+", x):
                return True
    return False


class Unit:
    """one compiled procedure: emitted C, header facts, exported LoopIR"""

    def __init__(self, p):
        from exo.API import compile_procs_to_strings

        self.p = p
        self.ir = p.INTERNAL_proc() if hasattr(p, "INTERNAL_proc") else p
        self.name = str(self.ir.name)
        self.cfg_full = {}
        self.pj = export_ir.exp_proc(self.ir, self.cfg_full)
        self.cfgs = {k: ("c" if export_ir.is_ctrl_type(t) else "d") for k, t in self.cfg_full.items()}
        self.cfg_bool = {k for k, t in self.cfg_full.items() if str(t) == "bool"}
        ext, baddiv, self.has_mod = scan_json(self.pj)
        if ext & UNSUPPORTED_EXTERNS:
            raise Skip("extern-without-common-meaning")
        if ext - UNSUPPORTED_EXTERNS - {"relu", "select", "fmaxf"}:
            raise Skip("extern-unknown")
        if baddiv:
            raise Skip("data-division")
        self.types = all_basetypes(self.ir)
        if "_Float16" in self.types:
            raise Skip("f16")
        self.int_data = any(t not in FLOAT_TYPES for t in self.types)
        self.c, self.h = compile_procs_to_strings([p], "p.h")
        self._parse_header()

    def _parse_header(self):
        m = re.search(r"^void\s+" + re.escape(self.name) + r"\(\s*(.*?)\s*\);", self.h, re.M | re.S)
        if not m:
            raise Skip("no-public-declaration")
        params = [x.strip() for x in m.group(1).split(",")]
        self.ctxt_type = params[0].rsplit("*", 1)[0].strip()
        self.params = params[1:]
        if len(self.params) != len(self.ir.args):
            raise Skip("header-arity")
        self.structs = {}
        for sm in re.finditer(r"struct (exo_win_\w+)\{\s*(const )?([\w ]+?) \* const data;", self.h):
            self.structs[sm.group(1)] = (bool(sm.group(2)), sm.group(3).strip())
        # per argument: kind, element C type, const?
        self.arginfo = []
        for prm, a in zip(self.params, self.ir.args):
            prm = prm.strip()
            if prm.startswith("struct "):
                sname = prm.split()[1]
                if sname not in self.structs:
                    raise Skip("struct-not-in-header")
                self.arginfo.append(("win", self.structs[sname][1], self.structs[sname][0], sname))
            elif "*" in prm:
                ty = prm.rsplit("*", 1)[0].strip()
                is_const = ty.startswith("const ")
                ty = ty[6:].strip() if is_const else ty
                self.arginfo.append(("ptr", ty, is_const, None))
            else:
                ty = prm.rsplit(" ", 1)[0].strip()
                self.arginfo.append(("val", ty, False, None))
        # context struct fields
        self.cfg_ctype = {}
        for cm in re.finditer(r"struct (\w+) \{([^{}]*)\} \1;", self.h):
            for fm in re.finditer(r"([\w ]+?)\s+(\w+);", cm.group(2)):
                self.cfg_ctype[(cm.group(1), fm.group(2))] = fm.group(1).strip()


# ---------------------------------------------------------------------------------- inputs
def fr(x):
    return None if x is None else Fraction(x)


def representable(v, cty):
    if v is None:
        return True
    if cty in INT_RANGES:
        lo, hi = INT_RANGES[cty]
        return v.denominator == 1 and lo <= v <= hi
    if cty == "float":
        try:
            return Fraction(struct.unpack("f", struct.pack("f", float(v)))[0]) == v
        except (OverflowError, struct.error):
            return False
    if cty == "double":
        return Fraction(float(v)) == v
    return False


def adapt_input(unit, inp, rng):
    """make the data of an input fit the C element types (integers for integer buffers; all
    integers if any integer type occurs anywhere, so that no cast truncates)"""
    inp = json.loads(json.dumps(inp))
    bufs = [a["v"]["buf"] for a in inp["args"] if "v" in a]
    k = 0
    for a, info in zip(inp["args"], unit.arginfo):
        if "v" not in a:
            if info[1] == "bool":
                a["c"] = 1 if a["c"] else 0
            continue
        b = a["v"]["buf"]
        cty = info[1]
        data = inp["heap"][b]
        for i, x in enumerate(data):
            v = Fraction(x)
            if unit.int_data or cty in INT_RANGES:
                v = Fraction(int(v))
            if cty in INT_RANGES and INT_RANGES[cty][0] == 0:
                v = abs(v)
            data[i] = interp.rat(v)
    for c in inp["cfg"]:
        key = (c[0], c[1])
        if key in unit.cfg_bool:
            c[3] = 1 if c[3] else 0
        elif c[2] == "d" and unit.int_data:
            c[3] = interp.rat(Fraction(int(Fraction(c[3]))))
    return inp


# ---------------------------------------------------------------------------------- main.c
def c_num(v, cty):
    v = Fraction(v)
    if cty in FLOAT_TYPES:
        return float(v).hex()
    return str(int(v))


def gen_main(unit, inputs):
    L = ['#include "p.h"', "#include <stdio.h>", "#include <stdlib.h>", "#include <string.h>", ""]
    has_ctxt = unit.ctxt_type != "void"
    for k, inp in enumerate(inputs):
        L.append(f"static int run_{k}(void) {{")
        if has_ctxt:
            L.append(f"  {unit.ctxt_type} ctxt_s; memset(&ctxt_s, 0, sizeof ctxt_s);")
            for (c, f, kind, v) in inp["cfg"]:
                cty = unit.cfg_ctype.get((c, f))
                if cty is None:
                    continue
                L.append(f"  ctxt_s.{c}.{f} = ({cty}){c_num(v, cty) if kind == 'd' else int(v)};")
        # buffers
        elt = {}
        for a, info in zip(inp["args"], unit.arginfo):
            if "v" in a:
                elt[a["v"]["buf"]] = info[1]
        for b, data in enumerate(inp["heap"]):
            cty = elt.get(b, "float")
            n = max(len(data), 1)
            L.append(f"  {cty} *b{b} = ({cty}*) malloc({n} * sizeof({cty}));")
            if data:
                init = ", ".join(c_num(x, cty) for x in data)
                L.append(f"  {{ static const {'double' if cty in FLOAT_TYPES else 'long long'} d[] = {{ {init} }};"
                         f" for (int i = 0; i < {len(data)}; i++) b{b}[i] = ({cty}) d[i]; }}")
        call = []
        call.append("&ctxt_s" if has_ctxt else "NULL")
        for a, info in zip(inp["args"], unit.arginfo):
            kind, cty, is_const, sname = info
            if "c" in a:
                call.append(f"({cty}){int(a['c'])}")
            else:
                v = a["v"]
                ptr = f"b{v['buf']} + {int(v['off'])}"
                if kind == "win":
                    strides = ", ".join(str(int(d[1])) for d in v["dims"])
                    call.append(f"(struct {sname}){{ {ptr}, {{ {strides} }} }}")
                elif kind == "ptr":
                    call.append(ptr)
                else:  # a mutated backend may pass scalars by value
                    call.append(f"*({ptr})")
        L.append(f"  {unit.name}({', '.join(call)});")
        for b, data in enumerate(inp["heap"]):
            cty = elt.get(b, "float")
            fmt, cast = ("%a", "double") if cty in FLOAT_TYPES else ("%lld", "long long")
            L.append(f'  printf("B {b}"); for (int i = 0; i < {len(data)}; i++) printf(" {fmt}", ({cast}) b{b}[i]); printf("\\n");')
        if has_ctxt:
            for (c, f), cty in sorted(unit.cfg_ctype.items()):
                fmt, cast = ("%a", "double") if cty in FLOAT_TYPES else ("%lld", "long long")
                L.append(f'  printf("C {c} {f} {fmt}\\n", ({cast}) ctxt_s.{c}.{f});')
        for b in range(len(inp["heap"])):
            L.append(f"  free(b{b});")
        L.append('  printf("DONE\\n"); fflush(stdout);')
        L.append("  return 0;")
        L.append("}")
        L.append("")
    L.append("int main(int argc, char **argv) {")
    L.append("  int k = argc > 1 ? atoi(argv[1]) : 0;")
    L.append("  switch (k) {")
    for k in range(len(inputs)):
        L.append(f"    case {k}: return run_{k}();")
    L.append("  }")
    L.append("  return 2;")
    L.append("}")
    return "\n".join(L) + "\n"


# ---------------------------------------------------------------------------------- run
SAN_PATTERNS = [
    ("heap-use-after-free", r"AddressSanitizer: heap-use-after-free"),
    ("double-free", r"AddressSanitizer: attempting double-free"),
    ("heap-buffer-overflow", r"AddressSanitizer: heap-buffer-overflow"),
    ("stack-buffer-overflow", r"AddressSanitizer: stack-buffer-(over|under)flow"),
    ("global-buffer-overflow", r"AddressSanitizer: global-buffer-overflow"),
    ("stack-use-after-scope", r"AddressSanitizer: stack-use-after-(scope|return)"),
    ("bad-free", r"AddressSanitizer: attempting free on address which was not malloc"),
    ("segv", r"AddressSanitizer: SEGV|DEADLYSIGNAL"),
    ("alloc-too-big", r"AddressSanitizer: requested allocation size|allocation-size-too-big"),
    ("signed-overflow", r"runtime error: signed integer overflow"),
    ("div-by-zero", r"runtime error: division by zero"),
    ("index-out-of-bounds", r"runtime error: index -?\d+ out of bounds"),
    ("null-deref", r"runtime error: .*null pointer"),
    ("misaligned", r"runtime error: .*misaligned address"),
    ("object-size", r"runtime error: .*insufficient space for an object"),
    ("float-cast-overflow", r"runtime error: .* is outside the range of representable values"),
    ("unreachable", r"runtime error: execution reached an unreachable program point"),
    ("ubsan-other", r"runtime error:"),
    ("leak", r"LeakSanitizer: detected memory leaks"),
    ("asan-other", r"AddressSanitizer"),
]


def san_kind(stderr):
    for k, pat in SAN_PATTERNS:
        if re.search(pat, stderr):
            return k
    return None


def cc_class(msg):
    """stable class of a gcc diagnostic"""
    m = re.search(r"(error|warning): (.*)", msg)
    if not m:
        return "unknown"
    t = m.group(2)
    t = re.sub(r"[‘'`][^’']*[’']", "_", t)
    t = re.sub(r"\[-W[\w=-]+\]", "", t)
    t = re.sub(r"\d+", "N", t)
    t = re.sub(r"[^A-Za-z_N]+", "-", t).strip("-")
    return t[:70]


CONST_DIAG = re.compile(r"discards [‘'`]?const|read-only|discarded-qualifiers")


def compile_unit(unit, inputs, workdir):
    os.makedirs(workdir, exist_ok=True)
    main = gen_main(unit, inputs)
    with open(os.path.join(workdir, "p.c"), "w") as f:
        f.write(unit.c)
    with open(os.path.join(workdir, "p.h"), "w") as f:
        f.write(unit.h)
    with open(os.path.join(workdir, "main.c"), "w") as f:
        f.write(main)
    with open(os.path.join(workdir, "custom_malloc.h"), "w") as f:
        f.write(CUSTOM_MALLOC_H)
    try:
        r = subprocess.run(["gcc", *CFLAGS, "-I.", "p.c", "main.c", "-o", "t.exe", "-lm"], cwd=workdir,
                           capture_output=True, text=True, timeout=1500)
    except subprocess.TimeoutExpired:
        return None, "gcc timeout", main
    return r.returncode == 0, r.stderr, main


def run_exe(workdir, k):
    env = dict(os.environ)
    env["ASAN_OPTIONS"] = "detect_leaks=1:abort_on_error=0:exitcode=97:allocator_may_return_null=0"
    env["UBSAN_OPTIONS"] = "print_stacktrace=0"
    try:
        r = subprocess.run(["./t.exe", str(k)], cwd=workdir, capture_output=True, text=True, timeout=600, env=env)
    except subprocess.TimeoutExpired:
        return None, "", "timeout"
    return r.returncode, r.stdout, r.stderr


def parse_out(stdout):
    bufs, cfg, done = {}, {}, False
    for line in stdout.splitlines():
        t = line.split()
        if not t:
            continue
        if t[0] == "B":
            bufs[int(t[1])] = t[2:]
        elif t[0] == "C":
            cfg[(t[1], t[2])] = t[3]
        elif t[0] == "DONE":
            done = True
    return bufs, cfg, done


def tok_val(tok):
    if tok in ("nan", "-nan", "inf", "-inf"):
        return tok
    if "x" in tok or "p" in tok:
        return Fraction(float.fromhex(tok))
    return Fraction(int(tok))


def compare_out(unit, inp, res, stdout):
    """None or a description of the first difference"""
    bufs, cfg, done = parse_out(stdout)
    if not done:
        return "the run printed no complete result"
    heap = res["ok"]["heap"]
    for b, exp in enumerate(heap):
        got = bufs.get(b)
        if got is None or len(got) != len(exp):
            return f"buffer {b}: {len(exp)} cells expected, {None if got is None else len(got)} printed"
        for i, (e, g) in enumerate(zip(exp, got)):
            if e is None:
                continue
            gv = tok_val(g)
            if gv != Fraction(e):
                return f"buffer {b} cell {i}: reference {e}, C {g if isinstance(gv, str) else interp.rat(gv)}"
    for c in res["ok"]["cfg"]:
        key = (c[0], c[1])
        if key not in unit.cfg_ctype or c[3] is None:
            continue
        g = cfg.get(key)
        if g is None:
            return f"context field {key} not printed"
        gv = tok_val(g)
        if gv != Fraction(c[3]):
            return f"context field {c[0]}.{c[1]}: reference {c[3]}, C {g if isinstance(gv, str) else interp.rat(gv)}"
    return None


def outputs_representable(unit, inp, res):
    elt = {}
    for a, info in zip(inp["args"], unit.arginfo):
        if "v" in a:
            elt[a["v"]["buf"]] = info[1]
    for b, cells in enumerate(res["ok"]["heap"]):
        cty = elt.get(b, "float")
        for x in cells:
            if not representable(fr(x), cty):
                return False
    for c in res["ok"]["cfg"]:
        cty = unit.cfg_ctype.get((c[0], c[1]))
        if cty and c[3] is not None and not representable(Fraction(c[3]), cty):
            return False
    return True


def exc_class(e):
    return type(e).__name__


def _restart(I):
    """the Sem driver died or answered garbage (observed on an overloaded machine: the process is
    killed while answering): start a fresh one"""
    import common

    try:
        I.drv.p.kill()
    except Exception:
        pass
    I.drv = common.LeanDriver("Drivers/Sem.lean")


def safe_run(I, pj, ins):
    import common

    if not ins:
        return []
    last = None
    for attempt in range(3):
        try:
            return I.run(pj, ins)
        except (json.JSONDecodeError, common.InfraError, BrokenPipeError, OSError) as e:
            if isinstance(e, common.InfraError) and "rejected request" in str(e):
                raise
            last = e
            _restart(I)
    raise common.InfraError(f"Sem driver unusable after restarts: {last}")


def safe_gen_inputs(I, pj, cfgs, rng, n, small=False):
    import common

    last = None
    for attempt in range(3):
        try:
            return I.gen_inputs(pj, cfgs, rng, n, small=small)
        except (json.JSONDecodeError, common.InfraError, BrokenPipeError, OSError) as e:
            if isinstance(e, common.InfraError) and "rejected request" in str(e):
                raise
            last = e
            _restart(I)
    raise common.InfraError(f"Sem driver unusable after restarts: {last}")


def check_proc(p, I, rng, counts, n_inputs=3, tag="", workdir=None, keep=None, small=False, fixed_inputs=None):
    """compile + run one procedure.  Returns list of findings."""

    def cnt(k, n=1):
        counts[k] = counts.get(k, 0) + n

    findings = []
    try:
        unit = Unit(p)
    except Skip as s:
        cnt("skip:" + s.why)
        return findings
    except export_ir.ExportError:
        cnt("skip:export-error")
        return findings
    except BaseException as e:  # the real compiler refused: "for every procedure that compiles"
        if isinstance(e, (KeyboardInterrupt, SystemExit, MemoryError)):
            raise
        cnt("exo-compile-exception:" + exc_class(e))
        return [{"kind": "exo-exception", "key": f"exo-compile-exception:{exc_class(e)}",
                 "what": f"compile_procs_to_strings raised {exc_class(e)}: {str(e)[:200]}", "exc": exc_class(e)}]
    cnt("units")
    # inputs
    if fixed_inputs is not None:
        ins = fixed_inputs
    else:
        ins0, _ = safe_gen_inputs(I, unit.pj, unit.cfgs, rng, n_inputs, small=small)
        ins = [adapt_input(unit, i, rng) for i in ins0]
    if not ins:
        cnt("no-valid-input")
    res = safe_run(I, unit.pj, ins)
    judged = []
    for i, r in zip(ins, res):
        if "ok" not in r:
            cnt("ref-" + ("err:" + r["err"] if "err" in r else "invalid"))
            continue
        if not outputs_representable(unit, i, r):
            cnt("skip-input:result-not-representable")
            continue
        judged.append((i, r))
    own_tmp = None
    if workdir is None:
        own_tmp = tempfile.TemporaryDirectory(prefix="ccpipe_", ignore_cleanup_errors=True)
        workdir = own_tmp.name
    try:
        ok, diag, main = compile_unit(unit, [i for i, _ in judged], workdir)
        cnt("gcc-runs")
        if ok is None:
            cnt("gcc-timeout")   # infrastructure (overloaded machine), not a verdict
            return findings
        base = {"proc": unit.name, "tag": tag, "c": unit.c, "h": unit.h}
        pdiag = [l for l in diag.splitlines() if re.match(r"p\.[ch]:\d+", l) and ("error:" in l or "warning:" in l)]
        for l in pdiag:
            cnt("gcc-diag:" + cc_class(l))
        if not ok:
            errs = [l for l in diag.splitlines() if "error:" in l]
            first = errs[0] if errs else diag[:200]
            where = "p" if re.match(r"p\.[ch]:", first) else "main"
            if where == "main":
                # the driver itself does not fit the emitted interface
                findings.append(dict(base, kind="cc-error", key=f"cc-error:driver:{cc_class(first)}",
                                     what=f"generated driver does not compile against the emitted header: {first[:200]}",
                                     diag=diag[:3000], main=main))
            else:
                findings.append(dict(base, kind="cc-error", key=f"cc-error:{cc_class(first)}",
                                     what=f"gcc rejects the emitted C: {first[:200]}", diag=diag[:3000], main=main))
            cnt("gcc-rejected")
            return findings
        for l in pdiag:
            if not re.search(r"unused variable|set but not used|may be used after|unused-but-set", l):
                findings.append(dict(base, kind="note", key="note:" + cc_class(l), what=l[:200], diag=diag[:1500]))
                break
        for l in pdiag:
            if CONST_DIAG.search(l):
                findings.append(dict(base, kind="const", key=f"const:{cc_class(l)}",
                                     what=f"const violation in the emitted C: {l[:200]}", diag=l, main=main))
                break
        if not judged:
            return findings
        f7 = None
        ptr_sens = None
        for k, (inp, r) in enumerate(judged):
            rc, out, err = run_exe(workdir, k)
            cnt("runs")
            san = san_kind(err) if (rc != 0 or err) else None
            bad = None
            kind = None
            if rc is None:
                kind, bad = "abort", "the run timed out"
                san = san or "timeout"
            elif rc != 0 and san != "leak":
                kind, bad = "abort", f"the run died (exit {rc}, {san or 'no sanitizer report'})"
                san = san or f"exit-{rc}"
            else:
                d = compare_out(unit, inp, r, out)
                if d is not None:
                    kind, bad = "diff", d
                elif san == "leak":
                    kind, bad = "leak", "LeakSanitizer: memory allocated by the emitted C is never freed"
            if kind is None:
                cnt("runs-agree")
                continue
            cnt("runs-" + kind)
            # ---- classification
            key = None
            if unit.has_mod:
                if ptr_sens is None:
                    ptr_sens = trunc_mod_json(unit.pj)
                rt = safe_run(I, ptr_sens, [inp])[0]
                if rt != r:
                    # the input distinguishes C's remainder from floor modulo
                    explained = ("ok" not in rt) or (kind == "diff" and compare_out(unit, inp, rt, out) is None) or kind == "abort"
                    if explained:
                        key = KEY_F6
            if key is None and kind in ("abort", "diff") and (san in ("heap-use-after-free",) or kind == "diff"):
                if f7 is None:
                    f7 = free_before_alias_use(unit.ir)
                if f7 and san == "heap-use-after-free":
                    key = KEY_F7
            if key is None and stride_name_clash(unit.c):
                key = KEY_STRIDE
            if key is None:
                if kind == "abort":
                    key = f"abort:{san}"
                elif kind == "leak":
                    key = "leak"
                else:
                    key = "diff"
            findings.append(dict(base, kind=kind, key=key, san=san, what=bad, input=inp, reference=r,
                                 stdout=out[-2000:], stderr=err[-2500:], main=main, run_index=k))
            if keep is not None:
                keep.append(workdir)
            break  # one finding per unit is enough
        return findings
    finally:
        if own_tmp is not None:
            own_tmp.cleanup()


# ---------------------------------------------------------------------------------- random programs
def gen_program(rng, k, allow_alias=False):
    """random well-formed Exo procedure with allocations at several depths, branches, shadowed and
    colliding names, windows; every allocation is initialised right after it is made"""
    name = f"gen{k}"
    dims = ["n", "n + 1", "2"]
    lines = []
    bufs = [("x", ["n + 1"]), ("y", ["n + 1"]), ("A", ["n", "2"])]   # visible (name, shape)
    ctr = [0]
    alloc_names = ["t", "u", "t", "t_1", "acc", "i_1", "ctxt"]
    iter_names = ["i", "i", "j", "i_1", "k"]

    def fresh(pool):
        ctr[0] += 1
        return rng.choice(pool)

    def idx_for(dim, iters):
        """an index expression valid for a dimension of extent `dim` (n >= 1)"""
        opts = ["0"]
        for (it, hi) in iters:
            if hi == "n" and dim in ("n", "n + 1"):
                opts += [it, it]
                if dim == "n + 1":
                    opts += [f"{it} + 1", f"n - {it}"]
                else:
                    opts += [f"n - 1 - {it}", f"({it} + n) / 2", f"{it} / 2 * 2 / 2"]
            if hi == "2" and dim in ("2", "n + 1"):
                opts += [it, it, f"({it} + 1) % 2", f"1 - {it}"]
        if dim in ("2", "n + 1"):
            opts.append("1")
        return rng.choice(opts)

    def read(bufs_, iters):
        b, shp = rng.choice(bufs_)
        if not shp:
            return b
        return f"{b}[" + ", ".join(idx_for(d, iters) for d in shp) + "]"

    def expr(bufs_, iters):
        r = rng.random()
        if r < 0.3:
            return read(bufs_, iters)
        if r < 0.45:
            return rng.choice(["1.0", "2.0", "0.5", "3.0"])
        op = rng.choice([" + ", " * ", " + ", " - "])
        return read(bufs_, iters) + op + (read(bufs_, iters) if rng.random() < 0.6 else rng.choice(["2.0", "0.5"]))

    def block(ind, bufs_, iters, depth, budget):
        pad = "    " * ind
        bufs_ = list(bufs_)
        n_st = rng.randint(2, 4)
        for _ in range(n_st):
            if budget[0] <= 0:
                break
            budget[0] -= 1
            r = rng.random()
            if r < 0.28:
                nm = fresh(alloc_names)
                if any(nm == it for it, _ in iters):
                    nm = "t"
                shp = [] if rng.random() < 0.35 else [rng.choice(dims) for _ in range(rng.randint(1, 2))]
                if not shp:
                    lines.append(f"{pad}{nm}: f32")
                    lines.append(f"{pad}{nm} = {expr(bufs_, iters)}")
                else:
                    lines.append(f"{pad}{nm}: f32[{', '.join(shp)}]")
                    its = []
                    for d, ext in enumerate(shp):
                        it = f"z{d}"
                        lines.append(f"{pad}{'    ' * d}for {it} in seq(0, {ext}):")
                        its.append((it, ext))
                    rhs_iters = iters + [(it, ext) for it, ext in its if ext in ("n", "2")]
                    lines.append(f"{pad}{'    ' * len(shp)}{nm}[{', '.join(i for i, _ in its)}] = {expr(bufs_, rhs_iters)}")
                bufs_ = [b for b in bufs_ if b[0] != nm] + [(nm, shp)]
            elif r < 0.36 and (allow_alias or True):
                cands = [b for b in bufs_ if b[1] and (allow_alias or b[0] in ("x", "y", "A"))]
                if not cands:
                    continue
                b, shp = rng.choice(cands)
                acc, nshp = [], []
                for d in shp:
                    q = rng.random()
                    if q < 0.3 and len(shp) > 1:
                        acc.append(idx_for(d, iters))
                    elif d == "n + 1" and q < 0.7:
                        lo = rng.choice(["0", "1"])
                        acc.append(f"{lo}:{'n' if lo == '0' else 'n + 1'}")
                        nshp.append("n")
                    else:
                        acc.append(f"0:{d}")
                        nshp.append(d)
                if not nshp:
                    continue
                ctr[0] += 1
                wn = f"w{ctr[0]}"
                lines.append(f"{pad}{wn} = {b}[{', '.join(acc)}]")
                bufs_.append((wn, nshp))
            elif r < 0.55 and depth < 3:
                it = fresh(iter_names)
                if any(it == b for b, _ in bufs_):
                    it = "k"
                hi = rng.choice(["n", "n", "2"])
                lines.append(f"{pad}for {it} in seq(0, {hi}):")
                block(ind + 1, bufs_, iters + [(it, hi)], depth + 1, budget)
            elif r < 0.68 and depth < 3:
                conds = ["n > 2", "n == 1"] + [f"{it} < 1" for it, _ in iters] + [f"{it} == n - 1" for it, hi in iters if hi == "n"]
                lines.append(f"{pad}if {rng.choice(conds)}:")
                block(ind + 1, bufs_, iters, depth + 1, budget)
                if rng.random() < 0.5:
                    lines.append(f"{pad}else:")
                    block(ind + 1, bufs_, iters, depth + 1, budget)
            else:
                wr = [b for b in bufs_]
                b, shp = rng.choice(wr)
                lhs = b if not shp else f"{b}[" + ", ".join(idx_for(d, iters) for d in shp) + "]"
                op = rng.choice(["=", "+=", "="])
                lines.append(f"{pad}{lhs} {op} {expr(bufs_, iters)}")
        if not lines or lines[-1].rstrip().endswith(":"):
            lines.append(f"{pad}pass")

    hdr = f"@proc\ndef {name}(n: size, x: f32[n + 1], y: f32[n + 1], A: f32[n, 2]):"
    block(1, bufs, [], 0, [rng.randint(6, 14)])
    return name, hdr + "\n" + "\n".join(lines) + "\n"


# ---------------------------------------------------------------------------------- the search, shared by C02 and C08
A_KINDS = {"C02": {"lift", "simp", "comp", "compe", "tstr", "idx", "acc", "wsf", "ev", "name", "fdiv"},
           "C08": {"mem", "nc", "simp", "comp", "compe", "fdiv"}}
X_KINDS = {"C02": {"diff", "abort", "cc-error"},
           "C08": {"abort", "leak", "const", "free-discipline"}}


def floor_div_helper_table(exo_mod):
    """compile the REAL text of the static helper and tabulate it"""
    from exo.backend import LoopIR_compiler as LC

    text = LC._static_helpers["exo_floor_div"]
    grid = [(n, q) for q in (1, 2, 3, 4, 7, 8, 16) for n in list(range(-20, 21)) + [-1000, 999, -2 ** 20 - 1]]
    with tempfile.TemporaryDirectory(prefix="ccpipe_fd_") as d:
        src = "#include <stdio.h>\n" + text + "\nint main(void){\n"
        for n, q in grid:
            src += f'  printf("%d\\n", exo_floor_div({n}, {q}));\n'
        src += "  return 0;\n}\n"
        with open(os.path.join(d, "fd.c"), "w") as f:
            f.write(src)
        r = subprocess.run(["gcc", "-O0", "-fsanitize=undefined", "-fno-sanitize-recover=all", "fd.c", "-o", "fd.exe"],
                           cwd=d, capture_output=True, text=True, timeout=1500)
        if r.returncode != 0:
            return None, r.stderr[:500]
        r = subprocess.run(["./fd.exe"], cwd=d, capture_output=True, text=True, timeout=600)
        if r.returncode != 0:
            return None, r.stderr[:500]
        vals = r.stdout.split()
    return [(f"fdiv|{n} {q}", v) for (n, q), v in zip(grid, vals)], None


def _apply_hist(p, hist, env):
    import stream

    for att in hist:
        p = stream.apply_attempt(p, att, env)
    return p


def replay(ctx, obj):
    """re-run one recorded finding: rebuild the program, re-apply the schedule history, compile and
    run on the recorded input"""
    import random

    import exo_build
    from exo.core.configs import Config

    r = obj.get("replay") or obj
    mod = exo_build.build_module(r["src"])
    procs = exo_build.procs_of(mod)
    names = list(procs)
    env = {"callees": {k: procs[k] for k in names[:-1]},
           "configs": {k: v for k, v in vars(mod).items() if isinstance(v, Config)}}
    p = _apply_hist(procs[names[-1]], r.get("hist", []), env)
    I = interp.Interp()
    try:
        counts = {}
        fs = check_proc(p, I, random.Random(0), counts, fixed_inputs=[r["input"]] if r.get("input") else None,
                        n_inputs=4, tag="replay")
    finally:
        I.close()
    return fs, counts


def run(ctx, prop):
    """body of harness/props/c02.py and c08.py"""
    import common
    import pool
    import sched_run

    exo = common.import_exo()
    import ccmodel

    other = "C08" if prop == "C02" else "C02"
    ctx.rule = (
        "X: pool program (harness/pool.py) or C-backend situation (ccpipe.EXTRA) or random allocation/branch/"
        "window program (ccpipe.gen_program), as written and after a sample of accepted scheduling rewrites "
        "(harness/stream.py); one evaluation = one (procedure, valid input) pair compiled by the real backend, "
        "built by gcc with ASan/UBSan/LSan, run, and compared cell by cell with the Lean reference interpreter; "
        "distinct = (procedure text, input); non-trivial = the reference run trips no monitor.  "
        "A: every call of the modelled backend functions made while those procedures are compiled, plus random "
        "CIR trees / name sequences, replayed in the Lean model; distinct = request line")
    ctx.assumptions += [
        "statement-level simulation exec ~ execC is proved (Props/C02Stmt.lean, compL_simulation_partial) for the DRAM core "
        "(Pass/Assign/Reduce/WriteConfig/If/For/Alloc/Free/WindowStmt; tensors, windows, scalars, config) with allocation-status "
        "monitors off and under modOK (no possibly-negative % numerator); calls, instructions, externs, casts, other memories are "
        "covered by the differential search only",
        "range analysis flags (is_non_neg) are sound: proved for the model in C13, assumed here as hypothesis FlagsOK",
        "inputs are small integers / dyadic rationals so that f32/f64 arithmetic is exact; index values fit int (exo_floor_div takes int)",
        "gcc 12 -O1 with ASan/UBSan/LSan as the observer of undefined behaviour and leaks",
    ]
    ctx.trusted += [
        "gcc, libasan/libubsan, the generated C driver (harness/ccpipe.py gen_main)",
        "harness/ccmodel.py serialisers and the C expression evaluator c_eval (ties emitted text to CExpr trees)",
        "memories other than DRAM / DRAM_STATIC / DRAM_STACK / MDRAM, instruction procedures and f16 are not executed",
    ]
    broken = ctx.lean_obligations([f"ExoModel.Props.{prop}", "ExoModel.Props.C02Stmt"])
    for b in broken:
        ctx.violation(f"obligation:{b}", f"proof obligation broken: {b}", {"obligation": b}, no_input=True)

    if ctx.replay:
        obj = json.loads(open(ctx.replay).read())
        fs, counts = replay(ctx, obj)
        for k, v in counts.items():
            ctx.count(k, v)
        for f in fs:
            if f["kind"] in X_KINDS[prop] or f["kind"] == "exo-exception":
                ctx.violation(f["key"], f["what"], f)
        ctx.evaluated("replay")
        return

    # ------------------------------------------------------------------ programs
    progs = dict(pool.POOL)
    progs.update(EXTRA)
    n_gen = 12   # (the thorough tier repeats the stream over three seeds instead of generating more programs)
    grng = __import__("random").Random(f"gen:{prop}:{ctx.seed}")
    for k in range(n_gen):
        nm, src = gen_program(grng, k, allow_alias=(k % 6 == 0))
        progs[nm] = src
    only = os.environ.get("VERIF_CC_ONLY")
    if only:   # development aid (mutation experiments on a loaded machine): restrict the program set
        keep = set(only.split(","))
        progs = {k: v for k, v in progs.items() if k in keep}
        ctx.assumptions.append(f"VERIF_CC_ONLY set: program set restricted to {sorted(keep)}")
    light = os.environ.get("VERIF_CC_LIGHT") == "1"   # development aid: few stream attempts per program
    saved = dict(pool.POOL)
    pool.POOL.clear()
    pool.POOL.update(progs)
    try:
        # thorough tier = the quick configuration over three consecutive seeds (the deeper configuration — depth 2,
        # 90 attempts per program — has not been validated against the unchanged tree after the last extensions)
        recs = []
        seed0 = ctx.seed
        for ds in range(ctx.scale(1, 3)):
            ctx.seed = seed0 + ds
            try:
                recs += sched_run.run_stream(
                    ctx, ["obs_cc"], nvariants=1,
                    opts={"depth": 1, "max_attempts": 8 if light else 25, "depth2_attempts": 15, "depth2_procs": 3,
                          "cc_per_op": 1, "cc_total": 4, "cc_prob": 0.6,
                          "n_inputs0": 4, "n_inputs": 3, "salt": prop,
                          "record_limit": 250})
            finally:
                ctx.seed = seed0
    finally:
        pool.POOL.clear()
        pool.POOL.update(saved)

    cases = {}
    stmt_bad = []
    n_units = n_exc = 0
    for r in recs:
        if r["error"]:
            if r["error"].startswith("infra"):
                raise common.InfraError(r["error"])
            if r["error"].startswith("front end rejected") and r["name"].startswith("gen"):
                ctx.count("gen-program-rejected-by-front-end")
                continue
            ctx.violation(f"stream:{r['name']}:worker-error", r["error"][:400], {"program": r["name"], "src": r["src"]}, no_input=True)
            continue
        for k, v in r["counts"].items():
            ctx.count(k, v)
        n_units += r["counts"].get("units", 0)
        for s in r.get("samples", []):
            ctx.sample(s)
        for req, exp in r.get("cases", {}).items():
            cases.setdefault(req, exp)
        for x in r["records"]:
            kind = x.get("kind")
            if kind == "observer-exception":
                ctx.violation(f"observer-exception:{x['att']['op']}", x["exc"], x, no_input=True)
            elif kind == "impure":
                ctx.count("impure-op-seen")
            elif kind == "exo-exception":
                n_exc += 1
            elif kind == "note":
                ctx.count("note:" + x["key"])
                notes = ctx.extra.setdefault("gcc_notes", [])
                if len(notes) < 12 and not any(n["key"] == x["key"] for n in notes):
                    notes.append({"key": x["key"], "what": x["what"], "program": x["program"],
                                  "hist": [h["op"] for h in x.get("hist", [])], "diag": x["diag"][:800]})
            elif kind == "wtc":
                ctx.count("wtC-false")
                if prop == "C02":
                    ctx.violation("model-correspondence:wtC", f"{x['program']}: {x['what']}", x, no_input=True)
            elif kind == "stmt-mismatch":
                ctx.count("stmt-mismatch")
                if prop == "C02":
                    stmt_bad.append(x)
            elif kind in X_KINDS[prop]:
                ctx.violation(x["key"], f"{x['program']} [{' ; '.join(h['op'] for h in x.get('hist', [])) or 'as written'}]: {x['what']}", x)
            else:
                ctx.count(f"finding-of-{other}:{kind}")
    if stmt_bad:
        x = min(stmt_bad, key=lambda y: len(y.get("proc_text", "")))
        # the simulation theorem (Props/C02Stmt.lean) is about compL; the real comp_s no longer is compL
        ctx.violation("model-correspondence:comp_s", f"{x['program']}: {x['what']}", x,
                      no_input=not any(v["key"] != "model-correspondence:comp_s" and not v["no_input"] for v in ctx.violations))
    ctx.evaluations += ctx.counts.get("runs", 0)
    for i in range(ctx.counts.get("runs-agree", 0) + ctx.counts.get("runs-diff", 0) + ctx.counts.get("runs-abort", 0)):
        ctx.distinct.add(("run", i))
    if n_units + n_exc > 10 and n_exc > (n_units + n_exc) // 2:
        ctx.violation("backend-raises-on-most-programs", f"compile_procs_to_strings raised on {n_exc} of {n_units + n_exc} procedures",
                      {"exceptions": n_exc}, no_input=True)

    # ------------------------------------------------------------------ correspondence A
    rec = ccmodel.Recorder(limit=ctx.scale(1500, 6000))
    rec.install()
    try:
        ccmodel.random_cases(rec, ctx.rng, 200 if light else ctx.scale(1500, 8000), 30 if light else ctx.scale(150, 800))
    finally:
        rec.uninstall()
    for req, exp in rec.cases.items():
        cases.setdefault(req, exp)
    tab, err = floor_div_helper_table(exo)
    if tab is None:
        ctx.violation("exo_floor_div:helper-does-not-compile", f"the static helper text does not compile: {err}", {"err": err}, no_input=True)
    else:
        for req, exp in tab:
            cases[req] = exp
    kinds = A_KINDS[prop]
    sel = [(q, e) for q, e in cases.items() if q.split("|", 1)[0] in kinds]
    sel.sort()
    cap = ctx.scale(25000, 120000)
    if len(sel) > cap:
        ctx.rng.shuffle(sel)
        sel = sorted(sel[:cap])
    answers = common.lean_batch("Drivers/C02.lean", [q for q, _ in sel]) if sel else []
    first_bad = {}
    for (q, e), a in zip(sel, answers):
        kind = q.split("|", 1)[0]
        ctx.count("A:" + kind)
        ctx.evaluated(("A", q), nontrivial=True)
        d = ccmodel.compare(q, e, a)
        if d is not None:
            ctx.count("A-mismatch:" + kind)
            if kind not in first_bad or len(q) < len(first_bad[kind][0]):
                first_bad[kind] = (q, e, a, d)
    for kind, (q, e, a, d) in first_bad.items():
        ctx.violation(f"model-correspondence:{kind}", f"real code and Lean model disagree on `{kind}`: {d}",
                      {"request": q, "real": e, "model": a}, no_input=True)
    for q, e in sel[:3]:
        ctx.sample({"request": q[:300], "real": e[:200]})
