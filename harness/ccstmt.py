"""C02 wave 2, correspondence A of the statement-level compiler model (lean/ExoModel/CompileS.lean).

    check_proc(exo_proc) -> list[str]          mismatches (empty: equal, or outside the fragment)
    check_proc_full(exo_proc, driver=None)     -> {"status": "covered"|"skipped"|"mismatch",
                                                   "why": str, "mismatches": [...], "modOK": bool|None,
                                                   "wtC": bool|None (the emitted tree incl. callees is well-typed
                                                   mini-C, lean/ExoModel/CTyping.lean `wtFun`),
                                                   "freeOK": bool|None  (static `free` discipline of the emitted body,
                                                   lean/ExoModel/CompileS.lean `freeOK`; False = F7 situation),
                                                   "real": [...], "model": [...]}

The procedure is compiled by the REAL backend (`compile_procs_to_strings([p], "p.h")`, as
harness/ccpipe.py does).  While it runs, a wrapper around `Compiler.__init__` records what the
`Compiler` was given: the LoopIR *after* ParallelAnalysis / PrecisionAnalysis / WindowAnalysis /
MemoryAnalysis (so with `Free` nodes) and the initial `range_env` (bounds of the size arguments,
SMT-derived in the real code).  That LoopIR is exported (harness/export_ir.py) and sent to
`lean/Drivers/C02S.lean`, which answers with the body lines that the model's `compL` + printer
produce.  The body of the emitted C function is extracted from the real `.c` text, the lines that
`Compiler.__init__` emits for the preconditions (`// assert …`, `EXO_ASSUME(…);`) are dropped, both
sides are canonicalised and compared line by line.

Canonicalisation (both sides): leading / trailing blanks, empty lines; window struct type names
lose the `c` (const) suffix (const-ness is C08's tie); data literals are rewritten to
`lit(num/den)` (`0.5f`, `2.0`, `((int8_t) 3)`); a redundant pair of parentheses around a whole
right-hand side is NOT removed — the model prints the same parentheses as the real code.

Calls: every function the backend emits for the compile (the procedure and its transitive
non-instruction callees, each compiled by its own `Compiler`) is compared with the model's output
for that procedure; `modOK` / `freeOK` are those of the target including its callees.
Skipped (counted by reason): procedures the real backend refuses (`exo-compile-exception:*`),
and what the model does not cover: calls of instruction procedures, data expressions as
arguments, externs, memories other than DRAM, more than one precision / casts.  The Lean side decides
`unsupported:*` for what it can see (calls, externs); the Python side decides what the export
drops (memories, precisions, casts).
"""
from __future__ import annotations

import json
import os
import re
import sys
from collections import Counter
from fractions import Fraction

sys.path.insert(0, os.path.dirname(os.path.abspath(__file__)))

import common  # noqa: E402
import export_ir  # noqa: E402

DRIVER = common.LEAN / "Drivers" / "C02S.lean"

SHORT = {"float": "f32", "double": "f64", "_Float16": "f16", "int8_t": "i8", "uint8_t": "ui8",
         "uint16_t": "ui16", "int32_t": "i32"}


class _Skip(Exception):
    def __init__(self, why):
        super().__init__(why)
        self.why = why


# ---------------------------------------------------------------------------------- real side
class _Capture:
    """wrap Compiler.__init__ for the duration of one compile"""

    def __init__(self):
        self.seen = []

    def __enter__(self):
        from exo.backend import LoopIR_compiler as LC

        self.LC = LC
        self.orig = LC.Compiler.__init__
        cap = self

        def init(comp, proc, ctxt_name, *, is_public_decl):
            cap.orig(comp, proc, ctxt_name, is_public_decl=is_public_decl)
            cap.seen.append((proc, comp, is_public_decl))

        LC.Compiler.__init__ = init
        return self

    def __exit__(self, *a):
        self.LC.Compiler.__init__ = self.orig
        return False


def _coverage(ir):
    """what the export drops: memories and precisions.  Returns the set of C element types."""
    from exo.core.LoopIR import LoopIR, T
    from exo.core.memory import DRAM

    types = set()

    def mem_ok(m):
        return m is None or m is DRAM

    def expr(e):
        if isinstance(e, LoopIR.ReadConfig):
            ft = e.config.lookup_type(e.field)
            if ft.is_real_scalar():
                types.add(ft.ctype())
        elif isinstance(e, LoopIR.BinOp):
            expr(e.lhs)
            expr(e.rhs)
        elif isinstance(e, LoopIR.USub):
            expr(e.arg)
        elif isinstance(e, LoopIR.Read):
            for i in e.idx:
                expr(i)
        elif isinstance(e, LoopIR.Extern):
            raise _Skip("unsupported:extern")
        elif isinstance(e, LoopIR.Const):
            if e.type.is_real_scalar() and not isinstance(e.type, T.Num):
                types.add(e.type.ctype())

    def stmts(ss):
        for s in ss:
            if isinstance(s, LoopIR.Call):
                if s.f.instr is not None:
                    raise _Skip("unsupported:instr-call")
                for a in s.args:
                    expr(a)
                continue
            if isinstance(s, (LoopIR.Assign, LoopIR.Reduce)):
                if s.type.basetype() != s.rhs.type.basetype():
                    raise _Skip("unsupported:cast")
                expr(s.rhs)
                for i in s.idx:
                    expr(i)
            elif isinstance(s, LoopIR.WriteConfig):
                lt = s.config.lookup_type(s.field)
                if lt != s.rhs.type and not lt.is_indexable():
                    raise _Skip("unsupported:cast")
                if lt.is_real_scalar():
                    types.add(lt.ctype())
                expr(s.rhs)
            elif isinstance(s, (LoopIR.Alloc, LoopIR.Free)):
                if not mem_ok(s.mem):
                    raise _Skip("unsupported:memory:" + s.mem.name())
                types.add(s.type.basetype().ctype())
            elif isinstance(s, LoopIR.For):
                stmts(s.body)
            elif isinstance(s, LoopIR.If):
                expr(s.cond)
                stmts(s.body)
                stmts(s.orelse)

    for a in ir.args:
        if a.type.is_numeric():
            if not mem_ok(a.mem):
                raise _Skip("unsupported:memory:" + a.mem.name())
            types.add(a.type.basetype().ctype())
    if ir.instr is not None:
        raise _Skip("unsupported:instr")
    stmts(ir.body)
    return types


def _body_of(ctext, name):
    m = re.search(r"^(?:static )?void " + re.escape(name) + r"\( [^\n]* \) \{\n", ctext, re.M)
    if not m:
        raise _Skip("no-function-definition-found")
    out, depth = [], 1
    for line in ctext[m.end():].split("\n"):
        depth += line.count("{") - line.count("}")
        if depth <= 0:
            return out
        out.append(line)
    raise _Skip("unbalanced-braces-in-emitted-function")


def _n_pred_lines(ir):
    from exo.core.LoopIR import LoopIR

    return sum(0 if isinstance(p, LoopIR.Const) else 1 for p in ir.preds)


# ------------------------------------------------------------------------------ canonical form
_FLOAT = re.compile(r"(?<![\w.\]])((?:\d+\.\d*(?:[eE][+-]?\d+)?|\d+[eE][+-]?\d+))f?(?![\w.])")
_CASTLIT = re.compile(r"\(\((?:u?int\d+_t|float|double|_Float16)\) (-?)([\w.+-]+?)\)")
_WIN = re.compile(r"\bexo_win_(\d+)(f16|f32|f64|ui16|ui8|i8|i32)c?\b")


def _lit(txt, neg=""):
    fr = Fraction(float(txt))
    return f"{neg}lit({fr.numerator}/{fr.denominator})"


def canon_line(s, real):
    s = s.strip()
    s = _WIN.sub(lambda m: f"exo_win_{m.group(1)}{m.group(2)}", s)
    if real:
        s = _CASTLIT.sub(lambda m: _lit(m.group(2), m.group(1)), s)
        s = _FLOAT.sub(lambda m: _lit(m.group(1)), s)
    s = re.sub(r"\s+", " ", s)
    return s


def canon(lines, real):
    return [c for c in (canon_line(x, real) for x in lines) if c]


# -------------------------------------------------------------------------------------- the tie
_driver = None


def _get_driver():
    global _driver
    if _driver is None:
        _driver = common.LeanDriver(DRIVER)
    return _driver


def close():
    global _driver
    if _driver is not None:
        _driver.close()
        _driver = None


def check_proc_full(exo_proc, driver=None):
    common.import_exo()
    from exo.API import compile_procs_to_strings

    res = {"status": "skipped", "why": "", "mismatches": [], "modOK": None, "freeOK": None, "wtC": None, "real": [], "model": []}
    ir0 = exo_proc.INTERNAL_proc() if hasattr(exo_proc, "INTERNAL_proc") else exo_proc
    name = str(ir0.name)
    try:
        with _Capture() as cap:
            ctext, _h = compile_procs_to_strings([exo_proc], "p.h")
    except BaseException as e:   # the real backend refuses: data, not a crash
        if isinstance(e, (KeyboardInterrupt, SystemExit)):
            raise
        res["why"] = f"exo-compile-exception:{type(e).__name__}"
        return res
    target = [(p, c) for (p, c, pub) in cap.seen if str(p.name) == name and pub]
    if len(target) != 1:
        res["why"] = "no-unique-public-compiler-instance"
        return res
    # every function the backend emitted for this compile: the procedure itself and its (transitive) callees.
    # A Call node embeds the callee as it was BEFORE the backend's analyses; the function the backend emits for the
    # callee comes from its own post-MemoryAnalysis IR (with Free nodes).  The model compiles callees inside the call
    # node, so the embedded callees are replaced by the captured post-analysis IR of the same name (otherwise every
    # callee that allocates looks like a leak to FreeOK).
    from exo.core.LoopIR import LoopIR as _L
    by_name = {str(ir.name): ir for (ir, _c, _p) in cap.seen}

    def _subst_stmts(ss, depth):
        out = []
        for st in ss:
            if isinstance(st, _L.Call) and str(st.f.name) in by_name and depth < 8:
                cal = by_name[str(st.f.name)]
                st = st.update(f=cal.update(body=_subst_stmts(cal.body, depth + 1)))
            elif isinstance(st, _L.For):
                st = st.update(body=_subst_stmts(st.body, depth))
            elif isinstance(st, _L.If):
                st = st.update(body=_subst_stmts(st.body, depth), orelse=_subst_stmts(st.orelse, depth))
            out.append(st)
        return out

    units = []
    types = set()
    try:
        for (ir, comp, pub) in cap.seen:
            types |= _coverage(ir)
            fname = str(ir.name)
            body = _body_of(ctext, fname)[_n_pred_lines(ir):]
            bounds = []
            for sy, b in dict(comp.range_env.env).items():
                lo, hi = b if b is not None else (None, None)
                bounds.append([export_ir.sym(sy), lo, hi])
            units.append((fname, pub and fname == name, export_ir.exp_proc(ir.update(body=_subst_stmts(ir.body, 0)), {}), bounds, body))
        if len(types) > 1:
            raise _Skip("unsupported:mixed-precision")
    except _Skip as e:
        res["why"] = e.why
        return res
    except export_ir.ExportError as e:
        res["why"] = f"export:{e}"
        return res
    ctype = next(iter(types)) if types else "float"
    if ctype not in SHORT:
        res["why"] = "unsupported:ctype:" + ctype
        return res
    cb = [[fname, bounds] for (fname, _t, _pj, bounds, _b) in units]
    d = driver or _get_driver()
    mm = []
    units.sort(key=lambda u: not u[1])   # the target first
    for (fname, is_target, pj, bounds, body) in units:
        req = {"op": "comp", "proc": pj, "bounds": bounds, "cb": cb, "ctype": ctype, "short": SHORT[ctype]}
        raw = d.ask(json.dumps(req))
        try:
            ans = json.loads(raw)
        except ValueError:
            raise common.InfraError(f"C02S driver answered no JSON: {raw[:300]}")
        if "bad" in ans:
            raise common.InfraError(f"C02S driver: {ans['bad']}")
        if "unsupported" in ans:
            res["why"] = ans["unsupported"]
            return res
        real = canon(body, True)
        if "raise" in ans and "simplify_cir:float" in str(ans["raise"]) and any(
                re.search(r"\[[^\]]*(lit\(|\d\.\d)", l) for l in real):
            # the model's simplify_cir has no float constants: `Const / Const` folded with Python's true division (finding
            # F10, reported by C02/C15 through gcc: "array subscript is not an integer"); the real compiler prints the float
            res["why"] = "F10:float-folded-index-constant"
            return res
        if "raise" in ans:
            res["status"] = "mismatch"
            res["why"] = "model-raises"
            res["mismatches"] = [f"{fname}: the model says the real compiler raises ({ans['raise']}) but it emitted code"]
            return res
        model = canon(ans["ok"], False)
        if is_target:
            res["real"] = real
            res["model"] = model
            res["modOK"] = ans["modOK"]       # of the target INCLUDING its callees (the model compiles them inside the call)
            res["freeOK"] = ans.get("freeOK")
            res["wtC"] = ans.get("wtC")         # the emitted tree (callees included) is well-typed mini-C (CTyping.wtFun)
        for k in range(max(len(real), len(model))):
            a = real[k] if k < len(real) else "<missing>"
            b = model[k] if k < len(model) else "<missing>"
            if a != b:
                mm.append(f"{fname}: body line {k}: real `{a}` model `{b}`")
    res["functions"] = [u[0] for u in units]
    res["mismatches"] = mm
    res["status"] = "mismatch" if mm else "covered"
    return res


def check_proc(exo_proc):
    """the function to call from harness/props/c02.py / c08.py: list of mismatch descriptions"""
    return check_proc_full(exo_proc)["mismatches"]


# ------------------------------------------------------------------------------------ self-test
def _programs():
    import pool
    import ccpipe

    progs = dict(pool.POOL)
    progs.update(ccpipe.EXTRA)
    return progs


def self_test(verbose=False):
    import time
    import exo_build

    common.import_exo()
    t0 = time.time()
    counts = Counter()
    why = Counter()
    bad = []
    f6 = []
    f7 = []
    wt = Counter()
    illtyped = []
    for nm, src in _programs().items():
        try:
            mod = exo_build.build_module(src)
            procs = exo_build.procs_of(mod)
        except BaseException as e:
            counts["front-end-rejects"] += 1
            why[f"front-end:{type(e).__name__}"] += 1
            continue
        for pn, p in procs.items():
            r = check_proc_full(p)
            counts[r["status"]] += 1
            if r["status"] == "skipped":
                why[r["why"]] += 1
            if r["status"] == "mismatch":
                bad.append((nm, pn, r["mismatches"]))
            if r["status"] == "covered" and r["modOK"] is False:
                f6.append(f"{nm}/{pn}")
            if r["status"] in ("covered", "mismatch") and r["freeOK"] is False:
                f7.append(f"{nm}/{pn}")
            if r["status"] in ("covered", "mismatch"):
                wt[r["wtC"]] += 1
                if r["wtC"] is not True:
                    illtyped.append(f"{nm}/{pn}")
            if verbose and r["status"] == "covered":
                print(f"--- {nm}/{pn}: {len(r['real'])} lines equal, modOK={r['modOK']}")
    close()
    dt = time.time() - t0
    print(f"ccstmt self-test: procedures={sum(counts.values())} covered={counts['covered']} "
          f"skipped={counts['skipped']} mismatching={counts['mismatch']} "
          f"front-end-rejects={counts['front-end-rejects']}  ({dt:.1f}s)")
    for k, v in sorted(why.items()):
        print(f"  skipped {v:3d}  {k}")
    print(f"  covered with a possibly-negative `%` numerator (modOK=false, F6): {sorted(f6)}")
    print(f"  compiled but NOT satisfying the static free discipline (freeOK=false, F7): {sorted(f7)}")
    print(f"  well-typed mini-C (wtC, C15a): true={wt[True]} false={wt[False]} missing={wt[None]}  ill-typed: {sorted(illtyped)}")
    for nm, pn, mm in bad:
        for m in mm[:6]:
            print(f"  MISMATCH {nm}: {m}")
    return 1 if bad else 0


if __name__ == "__main__":
    sys.exit(self_test(verbose="-v" in sys.argv))
