"""C14 executor: every `@instr` of exo.platforms.x86, C expansion vs. Exo body, by execution.

  real pipeline : generated wrapper @proc calling the instruction -> exo compile -> gcc (ASan+UBSan) -> CPU
  reference     : Lean reference interpreter (Drivers/Sem.lean) on the exported wrapper; Call nodes carry
                  the callee's BODY, so the instruction's Exo body is what is executed (exact rationals)

Interface: list_instrs(exo), search(exo, rng, ...), replay(exo, rec)   (see the docstrings).

Wrapper shape (one per (instruction, case); placements are random, recorded in rec["params"]):
  * DRAM operand `[T][n]`     : window into a bigger 1-D / 2-D DRAM wrapper argument (`b[c:c+n]`, `b[r, c:c+n]`;
                                operands without a `stride(x,0)==1` assertion also `b[r:r+n, c]`, stride != 1);
                                about half of the windows end exactly at the end of their buffer (ASan sees
                                over-wide accesses);  `[R]` is instantiated with f32
  * register operand @AVX2/512: local register (array) `x_r`, loaded BEFORE the call from a window of its own DRAM
                                argument `x_in` and stored AFTER the call to a window of its own DRAM argument
                                `x_out` with the library's own loadu/storeu instructions - every register
                                operand, also pure outputs, so "lane left unchanged" is observable
  * scalar operand            : wrapper scalar argument passed by name, or a local scalar copied from / to a cell
                                of a DRAM argument (exo only accepts plain names as scalar actuals)
  * size operand              : a literal at the call ("literal" mode), or a size argument of the wrapper carrying
                                the instruction's own assertions ("arg" mode; one binary then runs several values)
Every cell of every wrapper argument is compared after the run (interpreter `None` matches anything).

Regular cases are numbered 0..cases_per_instr-1 (an instruction whose size argument must be a literal gets one case
per admissible value).  They are followed by LABELLED extra cases, rec["params"][<label>] = True:
  beyond_lanes     size argument without upper bound in the assertions: N in {lanes+1, 31, 32, 40}
  overflow         ui16 addition with sums > 65535            non_multiple   ui16 x/3 with x not a multiple of 3
  no_vector_header instruction without register operand used in a procedure that has no AVX memory (exo then
                   emits no #include <immintrin.h>); the regular cases of such an instruction allocate a dummy register
  runtime_size     size passed as a run-time value to an instruction whose intrinsic needs an immediate
  two_calls        the C fragment declares a variable outside any braces: two calls in one scope
  name_capture     the C fragment declares variables: the caller's variables carry exactly those names
Inputs are exact (see rec["params"]["input_class"]); gcc runs once per instruction (all its cases in one translation
unit, <immintrin.h> precompiled) and falls back to one unit per case when that fails; rec["c_src"] is always the
stand-alone unit of the case, and `replay` compiles exactly that.
"""
from __future__ import annotations

import importlib
import json
import math
import os
import random
import re
import subprocess
import sys
import tempfile
import time
from concurrent.futures import ThreadPoolExecutor
from fractions import Fraction

sys.path.insert(0, os.path.dirname(os.path.abspath(__file__)))

import exo_build  # noqa: E402
import export_ir  # noqa: E402
import interp as interp_mod  # noqa: E402

WRAPPER = "c14w"
GCC = ["gcc", "-O1", "-mavx2", "-mfma", "-mavx512f", "-mavx512bw", "-mavx512vl",
       "-fsanitize=address,undefined", "-fno-sanitize-recover=all", "-g0"]
RUN_ENV = {"ASAN_OPTIONS": "detect_leaks=0:abort_on_error=0:exitcode=23", "UBSAN_OPTIONS": "print_stacktrace=0"}
RUN_TIMEOUT = 300
GCC_TIMEOUT = 1500

# (memory, basetype) -> (load instruction, store instruction) of the library itself
REG_IO = {
    ("AVX2", "f32"): ("mm256_loadu_ps", "mm256_storeu_ps"),
    ("AVX2", "f64"): ("mm256_loadu_pd", "mm256_storeu_pd"),
    ("AVX2", "ui16"): ("mm256_loadu_si256", "mm256_storeu_si256"),
    ("AVX512", "f32"): ("mm512_loadu_ps", "mm512_storeu_ps"),
}
# the C intrinsic behind these needs an immediate: a size passed as a run-time value cannot compile
LITERAL_ONLY = {"prefetch"}
BEYOND = [31, 32, 40]  # + lanes+1
LABELS = ("beyond_lanes", "overflow", "non_multiple", "no_vector_header", "runtime_size", "two_calls",
          "name_capture")


def _header():
    return exo_build.HEADER + "from exo.platforms.x86 import *\n"


# ----------------------------------------------------------------------------------------------
# instruction list / analysis
# ----------------------------------------------------------------------------------------------
def list_instrs(exo):
    """[(name, Procedure)] for every Procedure of exo.platforms.x86 whose INTERNAL_proc().instr is not None,
    in definition order"""
    x86 = importlib.import_module("exo.platforms.x86")
    out, seen = [], set()
    for k, v in vars(x86).items():
        if isinstance(v, exo.Procedure) and id(v) not in seen:
            try:
                if v.INTERNAL_proc().instr is None:
                    continue
            except Exception:
                continue
            seen.add(id(v))
            out.append((k, v))
    return out


def _reads(e, acc):
    if isinstance(e, list) and e:
        if e[0] == "read":
            acc.append(e[1][0])
        for x in e[1:]:
            if isinstance(x, list):
                _reads(x, acc)
    return acc


def _walk(e, f):
    if isinstance(e, list):
        if e and isinstance(e[0], str):
            f(e)
        for x in e:
            _walk(x, f)
    elif isinstance(e, dict):
        for x in e.values():
            _walk(x, f)


_DECL = re.compile(r"\b(?:__m\d+[id]?|__mmask\d+|u?int\d*(?:_t)?|float|double)\s+([A-Za-z_]\w*)\s*(?==|;)")


def _c_decls(c_instr):
    """(identifiers the C fragment declares, those declared OUTSIDE any brace block of the fragment)"""
    txt = c_instr.replace("{{", "\x01").replace("}}", "\x02")
    names, top, depth, pos = [], [], 0, 0
    depth_at = []
    for ch in txt:
        depth_at.append(depth)
        if ch == "\x01":
            depth += 1
        elif ch == "\x02":
            depth = max(0, depth - 1)
    for m in _DECL.finditer(txt):
        if m.group(1) not in names:
            names.append(m.group(1))
            if depth_at[m.start()] == 0:
                top.append(m.group(1))
    return names, top


def analyze(name, proc):
    """static description of one instruction: operands, size predicates, value-class hints from the body"""
    ir = proc.INTERNAL_proc()
    pj = export_ir.exp_proc(ir)
    ops = []
    for a, (s, ty) in zip(ir.args, pj["args"]):
        nm = str(a.name)
        if ty[0] == "ctrl":
            ops.append({"name": nm, "kind": "size" if ty[1] == "size" else "ctrl:" + ty[1], "sym": tuple(s)})
        elif ty[0] == "scalar":
            b = str(a.type)
            ops.append({"name": nm, "kind": "scalar", "base": "f32" if b == "R" else b})
        else:
            b = str(a.type.basetype())
            shape = []
            for h in ty[1]:
                if h[0] == "int":
                    shape.append(h[1])
                elif h[0] == "read" and not h[2]:
                    shape.append(h[1][0])
                else:
                    raise ValueError(f"{name}: unsupported shape expression {h}")
            mem = a.mem.name() if a.mem is not None else "DRAM"
            ops.append({"name": nm, "kind": "tensor", "base": "f32" if b == "R" else b, "shape": shape,
                        "mem": mem, "reg": mem in ("AVX2", "AVX512")})
    strided = set()
    size_preds, size_pred_txt = [], []
    for p, pe in zip(pj["preds"], ir.preds):
        has_stride = []
        _walk(p, lambda e: has_stride.append(1) if e[0] == "stride" else None)
        if has_stride:
            if p[0] == "binop" and p[1] == "==" and p[2][0] == "stride" and p[3] == ["int", 1]:
                strided.add(p[2][1][0])
            continue
        size_preds.append(p)
        size_pred_txt.append(str(pe))
    for o in ops:
        if o["kind"] == "tensor":
            o["stride1"] = o["name"] in strided
    # hints for the input classes
    divisors, multiple_of, add_pairs, ties = set(), {}, [], []

    def visit(e):
        if e[0] == "binop" and e[1] == "/":
            for r in _reads(e[3], []):
                divisors.add(r)
            if e[3][0] == "data" and e[3][2] == 1 and e[3][1] > 1:
                for r in _reads(e[2], []):
                    multiple_of[r] = e[3][1]
        if e[0] == "binop" and e[1] == "+" and e[2][0] == "read" and e[3][0] == "read" and e[2][1][0] != e[3][1][0]:
            add_pairs.append((e[2][1][0], e[3][1][0]))
        if e[0] == "extern" and e[1] == "select" and len(e[2]) == 4:
            a, b = _reads(e[2][0], []), _reads(e[2][1], [])
            if a and b:
                ties.append((a[0], b[0]))

    _walk(pj["body"], visit)
    lit = [d for o in ops if o["kind"] == "tensor" for d in o["shape"] if isinstance(d, int)]
    lanes = max(lit) if lit and max(lit) > 1 else 8
    c_locals, scope_decl = _c_decls(getattr(ir.instr, "c_instr", "") or "")
    return {"name": name, "ops": ops, "c_locals": c_locals, "scope_decl": scope_decl, "size_preds": size_preds, "size_pred_txt": size_pred_txt,
            "lanes": lanes, "divisors": sorted(divisors), "multiple_of": multiple_of,
            "add_pairs": add_pairs, "ties": ties}


def admissible(info, sizes):
    """do the instruction's size assertions hold for {size name: value}?"""
    env = {o["sym"]: sizes[o["name"]] for o in info["ops"] if o["kind"] == "size"}
    if any(v < 1 for v in env.values()):
        return False
    try:
        return all(interp_mod.eval_ctrl(p, env) for p in info["size_preds"])
    except interp_mod.EvalError:
        return False


def size_domain(info):
    """per size argument: admissible values in 1..lanes, boundary values first; and whether unbounded above"""
    dom = {}
    szs = [o["name"] for o in info["ops"] if o["kind"] == "size"]
    L = info["lanes"]
    for s in szs:
        def ok(v, s=s):
            return admissible(info, {t: (v if t == s else 1) for t in szs})
        vals = [v for v in range(1, L + 1) if ok(v)]
        first = [v for v in (1, L, L - 1) if v in vals]
        order = first + [v for v in vals if v not in first]
        dom[s] = {"values": order, "unbounded": ok(2 * L + 8) and ok(L + 1)}
    return dom


# ----------------------------------------------------------------------------------------------
# case plans (pure functions of the rng)
# ----------------------------------------------------------------------------------------------
def _plan_window(rng, n, allow_col):
    """window of extent n (int or size name) in a fresh DRAM buffer"""
    lay = rng.choice(["1d", "2d", "2d"] + (["col", "col"] if allow_col else []))
    at_end = rng.random() < 0.5
    c = rng.randint(0, 5)
    pad = 0 if at_end else rng.randint(1, 4)
    if lay == "1d":
        return {"layout": "1d", "c": c, "pad": pad, "at_end": at_end}
    if lay == "2d":
        rows = rng.randint(1, 3)
        r = rows - 1 if at_end else rng.randint(0, rows - 1)
        return {"layout": "2d", "rows": rows, "r": r, "c": c, "pad": pad, "at_end": at_end}
    cols = rng.randint(2, 5)
    col = cols - 1 if at_end else rng.randint(0, cols - 1)
    return {"layout": "col", "cols": cols, "col": col, "r": c, "pad": pad, "at_end": at_end}


def _plan_reg(rng):
    lay = rng.choice(["plain", "slice", "row", "row", "row3"])
    if lay == "row":
        k = rng.randint(1, 3)
        return {"layout": lay, "K": [k], "k": [rng.randint(0, k - 1)]}
    if lay == "row3":
        k1, k2 = rng.randint(1, 2), rng.randint(1, 3)
        return {"layout": lay, "K": [k1, k2], "k": [rng.randint(0, k1 - 1), rng.randint(0, k2 - 1)]}
    return {"layout": lay, "K": [], "k": []}


def make_plan(info, rng, case, size_mode=None, size_values=None, n_inputs=4, labels=None):
    """placement of every operand; size_values: list (one per input) of {size: value}"""
    plan = {"instr": info["name"], "case": case, "size_mode": size_mode, "size_values": size_values or [{}] * n_inputs,
            "n_inputs": n_inputs, "operands": {}, "labels": dict(labels or {})}
    for o in info["ops"]:
        if o["kind"] == "size":
            continue
        if o["kind"] == "scalar":
            mode = rng.choice(["arg", "local", "local"])
            n = rng.randint(1, 4)
            plan["operands"][o["name"]] = {"kind": "scalar", "mode": mode, "n": n, "j_in": rng.randint(0, n - 1),
                                           "j_out": rng.randint(0, n - 1)}
        elif o["reg"]:
            n = o["shape"][-1]
            plan["operands"][o["name"]] = {"kind": "reg", "reg": _plan_reg(rng), "in": _plan_window(rng, n, False),
                                           "out": _plan_window(rng, n, False)}
        else:
            n = o["shape"][-1]
            plan["operands"][o["name"]] = {"kind": "mem", "win": _plan_window(rng, n, not o["stride1"])}
    if not any(o.get("reg") for o in info["ops"]):
        plan["dummy_reg"] = not plan["labels"].get("no_vector_header")
    return plan


def plan_cases(info, rng, cases_per_instr, inputs_per_case):
    """all case plans of one instruction (regular cases, then labelled extra cases)"""
    dom = size_domain(info)
    sizes = list(dom)
    plans = []
    if not sizes:
        for k in range(cases_per_instr):
            plans.append(make_plan(info, rng, k, n_inputs=inputs_per_case))
    else:
        s = sizes[0]  # the library has at most one size argument per instruction; others get their first value
        vals = dom[s]["values"]
        if not vals:
            raise ValueError(f"{info['name']}: the assertions admit no value of `{s}` in 1..{info['lanes']}")
        lit_only = info["name"] in LITERAL_ONLY
        L = info["lanes"]
        lit_pref = [v for v in (L - 1, 1, L) if v in vals] + [v for v in vals if v not in (L - 1, 1, L)]

        def full(v):
            return {t: (v if t == s else dom[t]["values"][0]) for t in sizes}

        if lit_only:
            ncase = max(cases_per_instr, len(vals) if len(vals) <= 8 else cases_per_instr)
            for k in range(ncase):
                plans.append(make_plan(info, rng, k, "literal", [full(lit_pref[k % len(lit_pref)])] * inputs_per_case,
                                       inputs_per_case))
            # exo's type system lets any size expression through; show what the C fragment does with a variable
            plans.append(make_plan(info, rng, ncase, "arg", [full(v) for v in (vals * inputs_per_case)[:inputs_per_case]],
                                   inputs_per_case, {"runtime_size": True}))
        else:
            modes = ["arg" if k % 2 == 0 else "literal" for k in range(cases_per_instr)]
            n_arg = modes.count("arg")
            ai = li = 0
            for k, m in enumerate(modes):
                if m == "literal":
                    v = lit_pref[li % len(lit_pref)]
                    li += 1
                    plans.append(make_plan(info, rng, k, "literal", [full(v)] * inputs_per_case, inputs_per_case))
                else:
                    mine = vals[ai::n_arg]
                    ai += 1
                    while len(mine) < inputs_per_case:
                        mine = mine + [rng.choice(vals)]
                    plans.append(make_plan(info, rng, k, "arg", [full(v) for v in mine], len(mine)))
        if dom[s]["unbounded"] and not lit_only:
            k = len(plans)
            for v in [L + 1] + BEYOND:
                plans.append(make_plan(info, rng, k, "arg", [full(v)] * inputs_per_case, inputs_per_case,
                                       {"beyond_lanes": True}))
                k += 1
            for v in BEYOND[1:]:
                plans.append(make_plan(info, rng, k, "literal", [full(v)] * inputs_per_case, inputs_per_case,
                                       {"beyond_lanes": True}))
                k += 1
    if not plans:
        return plans
    if not any(o.get("reg") for o in info["ops"]):
        p0 = plans[0]
        plans.append(make_plan(info, rng, len(plans), p0["size_mode"], p0["size_values"], p0["n_inputs"],
                               {"no_vector_header": True}))
    if info["scope_decl"]:
        # the fragment declares a C variable in the caller's scope: use the instruction twice in one scope
        p0 = plans[1] if len(plans) > 1 else plans[0]
        plans.append(make_plan(info, rng, len(plans), p0["size_mode"], p0["size_values"], p0["n_inputs"],
                               {"two_calls": True}))
    if info["c_locals"]:
        # the fragment declares C variables: give the caller's variables those very names
        p0 = plans[1] if len(plans) > 1 else plans[0]
        pl = make_plan(info, rng, len(plans), p0["size_mode"], p0["size_values"], p0["n_inputs"],
                       {"name_capture": True})
        data_ops = [o["name"] for o in info["ops"] if o["kind"] != "size"]
        free = [n for n in info["c_locals"] if n not in data_ops]
        ren = {n: n for n in data_ops if n in info["c_locals"]}
        for n in data_ops:
            if n not in ren and free:
                ren[n] = free.pop(0)
        pl["rename"] = ren
        for q in pl["operands"].values():  # one fixed shape of C text, so that the outcome does not depend on the seed
            if q["kind"] == "reg":
                q["reg"] = {"layout": "plain", "K": [], "k": []}
            elif q["kind"] == "mem":
                q["win"] = {"layout": "1d", "c": 0, "pad": q["win"]["pad"], "at_end": q["win"]["at_end"]}
            else:
                q["mode"] = "local"
        plans.append(pl)
    ui16_add = any(True for o in info["ops"] if o.get("base") == "ui16") and info["add_pairs"]
    if ui16_add:
        plans.append(make_plan(info, rng, len(plans), n_inputs=inputs_per_case, labels={"overflow": True}))
    if info["multiple_of"]:
        plans.append(make_plan(info, rng, len(plans), n_inputs=inputs_per_case, labels={"non_multiple": True}))
    return plans


# ----------------------------------------------------------------------------------------------
# wrapper source text
# ----------------------------------------------------------------------------------------------
def _ext(n, sizes):
    """extent n (int or size name) -> (source text, or concrete int when sizes given)"""
    return n if isinstance(n, int) else (sizes[n] if sizes is not None else n)


def _sum_txt(parts):
    """source text of a sum of ints and names"""
    k = sum(p for p in parts if isinstance(p, int))
    names = [p for p in parts if not isinstance(p, int)]
    if not names:
        return str(k)
    return " + ".join(names) + (f" + {k}" if k else "")


def _win_shape(w, n):
    """buffer shape (list of parts-lists) of a window plan"""
    if w["layout"] == "1d":
        return [[w["c"], n, w["pad"]]]
    if w["layout"] == "2d":
        return [[w["rows"]], [w["c"], n, w["pad"]]]
    return [[w["r"], n, w["pad"]], [w["cols"]]]


def _win_expr(buf, w, n):
    if w["layout"] == "1d":
        return f"{buf}[{w['c']}:{_sum_txt([w['c'], n])}]"
    if w["layout"] == "2d":
        return f"{buf}[{w['r']}, {w['c']}:{_sum_txt([w['c'], n])}]"
    return f"{buf}[{w['r']}:{_sum_txt([w['r'], n])}, {w['col']}]"


def _win_cells(w, n, sizes):
    """(concrete shape, flat cell index of each lane) of a window plan for concrete sizes"""
    nn = _ext(n, sizes)
    if w["layout"] == "1d":
        return [w["c"] + nn + w["pad"]], [w["c"] + i for i in range(nn)]
    if w["layout"] == "2d":
        width = w["c"] + nn + w["pad"]
        return [w["rows"], width], [w["r"] * width + w["c"] + i for i in range(nn)]
    return [w["r"] + nn + w["pad"], w["cols"]], [(w["r"] + i) * w["cols"] + w["col"] for i in range(nn)]


def build_wrapper_src(info, plan, wname=WRAPPER):
    """-> (source text, buffers) ; buffers: wrapper arguments in order,
    {"name","kind":"size"|"buf"|"scalar","base","op","role","n","win"}"""
    lit = plan["size_mode"] == "literal"
    lit_sizes = plan["size_values"][0] if lit else None

    def N(n):  # extent as it appears in the wrapper text
        return n if isinstance(n, int) else (lit_sizes[n] if lit else n)

    args, bufs, allocs, loads, stores, call_args, asserts = [], [], [], [], [], [], []
    ren = plan.get("rename") or {}

    def cv(nm, suffix):  # name of the caller's variable that is handed to the instruction
        return ren.get(nm, nm + suffix)

    for o in info["ops"]:
        if o["kind"] == "size" and not lit:
            args.append(f"{o['name']}: size")
            bufs.append({"name": o["name"], "kind": "size"})
    if not lit:
        asserts = [f"assert {t}" for t in info["size_pred_txt"]]

    def add_buf(name, base, w, n, op, role):
        shape = ", ".join(_sum_txt(p) for p in _win_shape(w, N(n)))
        args.append(f"{name}: {base}[{shape}] @ DRAM")
        bufs.append({"name": name, "kind": "buf", "base": base, "op": op, "role": role, "n": n, "win": w})

    for o in info["ops"]:
        nm = o["name"]
        if o["kind"] == "size":
            call_args.append(str(lit_sizes[nm]) if lit else nm)
            continue
        p = plan["operands"][nm]
        if o["kind"] == "scalar":
            if p["mode"] == "arg":
                v = cv(nm, "_s")
                args.append(f"{v}: {o['base']}")
                bufs.append({"name": v, "kind": "scalar", "base": o["base"], "op": nm, "role": "mem"})
                call_args.append(v)
            else:
                args.append(f"{nm}_b: {o['base']}[{p['n']}] @ DRAM")
                bufs.append({"name": f"{nm}_b", "kind": "buf", "base": o["base"], "op": nm, "role": "scalar",
                             "n": 1, "win": {"layout": "cell", "len": p["n"], "j_in": p["j_in"], "j_out": p["j_out"]}})
                v = cv(nm, "_t")
                allocs.append(f"{v}: {o['base']}")
                loads.append(f"{v} = {nm}_b[{p['j_in']}]")
                stores.append(f"{nm}_b[{p['j_out']}] = {v}")
                call_args.append(v)
        elif o["reg"]:
            L = o["shape"][-1]
            ld, st = REG_IO[(o["mem"], o["base"])]
            rg = p["reg"]
            dims = ", ".join(str(x) for x in rg["K"] + [L])
            v = cv(nm, "_r")
            allocs.append(f"{v}: {o['base']}[{dims}] @ {o['mem']}")
            if rg["layout"] == "plain":
                ref = v
            else:
                ref = f"{v}[" + ", ".join([str(x) for x in rg["k"]] + [f"0:{L}"]) + "]"
            add_buf(f"{nm}_in", o["base"], p["in"], L, nm, "in")
            add_buf(f"{nm}_out", o["base"], p["out"], L, nm, "out")
            loads.append(f"{ld}({ref}, {_win_expr(nm + '_in', p['in'], L)})")
            stores.append(f"{st}({_win_expr(nm + '_out', p['out'], L)}, {ref})")
            call_args.append(ref)
        else:
            n = o["shape"][-1]
            v = cv(nm, "_m")
            add_buf(v, o["base"], p["win"], n, nm, "mem")
            call_args.append(_win_expr(v, p["win"], N(n)))
    if plan.get("dummy_reg"):
        # no register operand: without any AVX memory in the procedure exo emits no `#include <immintrin.h>`
        allocs.append("c14_dummy_r: f32[8] @ AVX2")
    call = f"{info['name']}({', '.join(call_args)})"
    body = asserts + allocs + loads + [call] * (2 if plan["labels"].get("two_calls") else 1) + stores
    src = "@proc\ndef " + wname + "(" + ", ".join(args) + "):\n" + "\n".join("    " + l for l in body) + "\n"
    return src, bufs


# ----------------------------------------------------------------------------------------------
# inputs
# ----------------------------------------------------------------------------------------------
DIVISORS = [Fraction(1), Fraction(-1), Fraction(2), Fraction(-2), Fraction(4), Fraction(-4), Fraction(1, 2),
            Fraction(-1, 2)]


def _rnd_f(rng):
    return Fraction(rng.randint(-8, 8)) if rng.random() < 0.7 else Fraction(rng.randint(-16, 16), 2)


def _rnd_u(rng):
    return Fraction(rng.randint(0, 200))


def _bg(rng, base):
    return _rnd_u(rng) if base == "ui16" else _rnd_f(rng)


def gen_input(info, plan, bufs, rng, idx):
    """one exact input for the wrapper -> (interp input, cellmap, class notes)"""
    sizes = plan["size_values"][idx]
    labels = plan["labels"]
    opinfo = {o["name"]: o for o in info["ops"]}
    notes = set()
    # lanes of every data operand
    lanes = {}
    for o in info["ops"]:
        if o["kind"] == "size":
            continue
        nm = o["name"]
        n = 1 if o["kind"] == "scalar" else _ext(o["shape"][-1], sizes)
        if o["base"] == "ui16":
            m = info["multiple_of"].get(nm)
            if m and not labels.get("non_multiple"):
                vals = [Fraction(m * (rng.randint(0, 66) if rng.random() < 0.75 else rng.randint(0, 65535 // m)))
                        for _ in range(n)]
                notes.add(f"ui16 multiples of {m} (0..65535)")
            elif m:
                vals = [Fraction(rng.randint(0, 60000)) for _ in range(n)]
                for j in rng.sample(range(n), min(n, 3)):
                    vals[j] = Fraction(m * rng.randint(0, 20000) + rng.randint(1, m - 1))
                notes.add(f"ui16 0..60000 including non-multiples of {m}")
            else:
                vals = [_rnd_u(rng) if rng.random() < 0.8 else Fraction(rng.randint(0, 65535)) for _ in range(n)]
                notes.add("ui16 0..200 with a few values up to 65535")
        elif nm in info["divisors"]:
            vals = [rng.choice(DIVISORS) for _ in range(n)]
            notes.add("divisors in {+-1,+-2,+-4,+-1/2}")
        else:
            vals = [_rnd_f(rng) for _ in range(n)]
            notes.add("f32/f64 cells: integers in [-8,8] or k/2, |k|<=16 (all results exact)")
        lanes[nm] = vals
    for a, b in info["add_pairs"]:
        if opinfo[a].get("base") == "ui16" and opinfo[b].get("base") == "ui16":
            n = min(len(lanes[a]), len(lanes[b]))
            for j in range(n):  # keep sums in range ...
                if lanes[a][j] + lanes[b][j] > 65535:
                    lanes[b][j] = Fraction(rng.randint(0, 65535 - int(lanes[a][j])))
            for j in rng.sample(range(n), min(n, 3)):  # ... with a few big ones, one hitting 65535 exactly
                x = rng.randint(30000, 65535)
                lanes[a][j] = Fraction(x)
                lanes[b][j] = Fraction(rng.randint(0, 65535 - x))
            j = rng.randrange(n)
            lanes[b][j] = Fraction(65535) - lanes[a][j]
            notes.add("ui16 sums <= 65535, some big, one equal to 65535")
            if labels.get("overflow"):
                for j in rng.sample(range(n), min(n, 4)):
                    x = rng.randint(40000, 65535)
                    lanes[a][j] = Fraction(x)
                    lanes[b][j] = Fraction(rng.randint(65536 - x, 65535))
                notes.add("OVERFLOW: some ui16 sums > 65535")
    for a, b in info["ties"]:
        n = min(len(lanes[a]), len(lanes[b]))
        j = rng.randrange(n)
        lanes[b][j] = lanes[a][j]
        notes.add("select: one lane with equal comparands")
    # buffers
    args, heap, cellmap = [], [], {}
    for b in bufs:
        if b["kind"] == "size":
            args.append({"c": sizes[b["name"]]})
            continue
        k = len(heap)
        if b["kind"] == "scalar":
            heap.append([interp_mod.rat(lanes[b["op"]][0])])
            args.append({"v": {"buf": k, "off": 0, "dims": []}})
            cellmap[b["name"]] = [b["op"], "mem", [0]]
            continue
        w = b["win"]
        if w["layout"] == "cell":
            shape, cells_in, cells_out = [w["len"]], [w["j_in"]], [w["j_out"]]
        else:
            shape, cells_in = _win_cells(w, b["n"], sizes)
            cells_out = cells_in
        total = math.prod(shape)
        data = [_bg(rng, b["base"]) for _ in range(total)]
        if b["role"] in ("in", "mem", "scalar"):
            for c, v in zip(cells_in, lanes[b["op"]]):
                data[c] = v
        heap.append([interp_mod.rat(v) for v in data])
        dims, acc = [], 1
        for d in reversed(shape):
            dims.insert(0, [d, acc])
            acc *= d
        args.append({"v": {"buf": k, "off": 0, "dims": dims}})
        cellmap[b["name"]] = [b["op"], b["role"], cells_out]
    return {"args": args, "heap": heap, "cfg": []}, cellmap, notes


# ----------------------------------------------------------------------------------------------
# C translation units
# ----------------------------------------------------------------------------------------------
CTYPE = {"f32": "float", "f64": "double", "ui16": "uint16_t", "R": "float"}
PRINTER = {"f32": "c14_pf", "R": "c14_pf", "f64": "c14_pd", "ui16": "c14_pu"}
PRELUDE = r"""#include <stdio.h>
#include <stdlib.h>
#include <string.h>
#include <stdint.h>
static void c14_pf(int b, const float *p, int n){printf("B %d", b);for(int i=0;i<n;i++)printf(" %a",(double)p[i]);printf("\n");}
static void c14_pd(int b, const double *p, int n){printf("B %d", b);for(int i=0;i<n;i++)printf(" %a",p[i]);printf("\n");}
static void c14_pu(int b, const uint16_t *p, int n){printf("B %d", b);for(int i=0;i<n;i++)printf(" %u",(unsigned)p[i]);printf("\n");}
"""


def wrapper_signature(wproc):
    """[(kind, name, base)] of the built wrapper, kind in size|buf"""
    out = []
    ir = wproc.INTERNAL_proc()
    pj = export_ir.exp_proc(ir)
    for a, (s, ty) in zip(ir.args, pj["args"]):
        if ty[0] == "ctrl":
            out.append(("size", str(a.name), None))
        else:
            b = str(a.type) if ty[0] == "scalar" else str(a.type.basetype())
            if b not in CTYPE:
                raise ValueError(f"wrapper argument {a.name}: unsupported base type {b}")
            out.append(("buf", str(a.name), b))
    return out


def _c_lit(x, base):
    fr = Fraction(x)
    if base == "ui16":
        return str(int(fr) & 0xFFFF)
    return float(fr).hex() + ("f" if base in ("f32", "R") else "")


def make_piece(c_text, h_text, sig, inputs, wname):
    """exo's header + exo's C for one wrapper + the embedded inputs + `static int c14run_<wname>(void)` that runs
    every input on freshly malloc'ed buffers of the exact size and prints every buffer afterwards"""
    h = h_text.replace("#pragma once", "")
    c = re.sub(r'#include\s+"' + re.escape(wname) + r'\.h"', "", c_text)
    out = [h, c]
    for i, inp in enumerate(inputs):
        for (kind, nm, base), a in zip(sig, inp["args"]):
            if kind == "buf":
                data = inp["heap"][a["v"]["buf"]]
                vals = ", ".join(_c_lit(0 if v is None else v, base) for v in data)
                out.append(f"static const {CTYPE[base]} {wname}_in{i}_{nm}[{len(data)}] = {{ {vals} }};")
    out.append(f"static int c14run_{wname}(void){{")
    for i, inp in enumerate(inputs):
        out.append(" {")
        call, post = ["NULL"], []
        bi = 0
        for (kind, nm, base), a in zip(sig, inp["args"]):
            if kind == "size":
                call.append(str(int(a["c"])))
                continue
            n = len(inp["heap"][a["v"]["buf"]])
            ct, src = CTYPE[base], f"{wname}_in{i}_{nm}"
            out.append(f"  {ct} *{nm} = ({ct}*)malloc(sizeof({src})); memcpy({nm}, {src}, sizeof({src}));")
            call.append(nm)
            post.append(f"  {PRINTER[base]}({bi}, {nm}, {n}); free({nm});")
            bi += 1
        out.append(f"  printf(\"I {i}\\n\"); fflush(stdout);")
        out.append(f"  {wname}({', '.join(call)});")
        out += post
        out.append(f"  printf(\"E {i}\\n\"); fflush(stdout);")
        out.append(" }")
    out.append(" return 0;\n}")
    return "\n".join(out) + "\n"


def standalone(piece, wname):
    return PRELUDE + piece + f"int main(void){{ return c14run_{wname}(); }}\n"


def group_tu(pieces):
    """several cases of one instruction in one translation unit; `argv[1]` selects the case"""
    out = [PRELUDE] + [p for _, p in pieces]
    out.append("int main(int argc, char **argv){ if(argc<2) return 99;")
    out.append("  if(!strcmp(argv[1], \"all\")){")
    for wname, _ in pieces:
        out.append(f"    printf(\"C {wname}\\n\"); if(c14run_{wname}()) return 97;")
    out.append("    return 0; }")
    for wname, _ in pieces:
        out.append(f"  if(!strcmp(argv[1], \"{wname}\")) return c14run_{wname}();")
    out.append("  return 98; }")
    return "\n".join(out) + "\n"


def _parse_cell(tok):
    try:
        f = float.fromhex(tok) if tok.lower().lstrip("+-").startswith("0x") else float(tok)
        if math.isnan(f) or math.isinf(f):
            return tok
        return interp_mod.rat(Fraction(f))
    except ValueError:
        return tok


def parse_output(text, n_inputs):
    """-> list (per input) of list (per buffer) of cells (rat strings), None for inputs not completed"""
    got = [None] * n_inputs
    cur, cur_i = None, None
    for line in text.splitlines():
        t = line.split()
        if not t:
            continue
        if t[0] == "I" and len(t) == 2 and t[1].isdigit():
            cur_i, cur = int(t[1]), []
        elif t[0] == "B" and cur is not None:
            cur.append([_parse_cell(x) for x in t[2:]])
        elif t[0] == "E" and cur is not None and len(t) == 2 and t[1] == str(cur_i):
            if 0 <= cur_i < n_inputs:
                got[cur_i] = cur
            cur = None
    return got


PCH_NAME = "c14pch.h"


def make_pch(workdir):
    """precompiled <immintrin.h> (same flags): parsing it is most of gcc's time.  Only used for translation units
    whose exo-generated part includes <immintrin.h> itself, so a missing include stays visible."""
    hdr = os.path.join(workdir, PCH_NAME)
    with open(hdr, "w") as f:
        f.write("#include <immintrin.h>\n")
    try:
        p = subprocess.run(GCC + ["-x", "c-header", hdr, "-o", hdr + ".gch"], capture_output=True, text=True,
                           timeout=GCC_TIMEOUT)
        return p.returncode == 0
    except (subprocess.TimeoutExpired, OSError):
        return False


def _gcc(c_src, workdir, tag, pch=False):
    src = os.path.join(workdir, f"{tag}.c")
    exe = os.path.join(workdir, f"{tag}.bin")
    with open(src, "w") as f:
        f.write(c_src)
    extra = ["-include", os.path.join(workdir, PCH_NAME)] if pch else []
    try:
        p = subprocess.run(GCC + extra + ["-o", exe, src], capture_output=True, text=True, timeout=GCC_TIMEOUT,
                           errors="replace")
    except subprocess.TimeoutExpired:
        return None, "gcc timeout"
    if p.returncode != 0:
        lines = [l for l in p.stderr.splitlines() if "error" in l or "undefined reference" in l] or p.stderr.splitlines()
        return None, "\n".join(l.replace(workdir + "/", "") for l in lines[:6])
    return exe, ""


def _run(exe, args, workdir):
    env = dict(os.environ)
    env.update(RUN_ENV)
    try:
        r = subprocess.run([exe] + args, capture_output=True, text=True, timeout=RUN_TIMEOUT, env=env, errors="replace")
    except subprocess.TimeoutExpired as e:
        so = e.stdout.decode(errors="replace") if isinstance(e.stdout, bytes) else (e.stdout or "")
        return "infra_error", f"run timeout after {RUN_TIMEOUT}s", so
    if r.returncode != 0 or "runtime error" in r.stderr or "AddressSanitizer" in r.stderr:
        err = [l for l in r.stderr.splitlines() if l.strip()]
        key = [l for l in err if "runtime error" in l or "ERROR: AddressSanitizer" in l or "SUMMARY" in l]
        tail = "\n".join(key[:4] if key else err[-8:])
        tail = re.sub(r"[^\s:]+\.c:\d+:\d+: ", "", tail.replace(workdir + "/", ""))  # positions in the group unit
        return "run_error", f"exit {r.returncode}: " + tail, r.stdout
    return "ok", "", r.stdout


def gcc_and_run(pieces, workdir, tag, pch=None):
    """pieces: [(wname, piece text)] of ONE instruction.  One gcc run for all of them; if that fails, each case is
    compiled on its own (so a record's status is always that of its own standalone `c_src`).
    -> {wname: (stage, detail, stdout)}, stage in ok|gcc_error|run_error"""
    res = {}
    pch = bool(pch.result()) if hasattr(pch, "result") else bool(pch)
    if len(pieces) > 1:
        exe, _ = _gcc(group_tu(pieces), workdir, tag, pch)
        if exe is not None:
            stage, detail, stdout = _run(exe, ["all"], workdir)  # one process for all cases if nothing goes wrong
            if stage == "ok":
                chunks, cur = {}, None
                for line in stdout.splitlines():
                    if line.startswith("C "):
                        cur = line[2:].strip()
                        chunks[cur] = []
                    elif cur is not None:
                        chunks[cur].append(line)
                for wname, _p in pieces:
                    res[wname] = ("ok", "", "\n".join(chunks.get(wname, [])))
            else:
                for wname, _p in pieces:
                    res[wname] = _run(exe, [wname], workdir)
            try:
                os.unlink(exe)
            except OSError:
                pass
            return res
    for wname, p in pieces:
        exe, err = _gcc(standalone(p, wname), workdir, f"{tag}_{wname}", pch)
        if exe is None:
            # a compiler that does not come back is the machine's problem, not the instruction's
            res[wname] = ("infra_error" if err == "gcc timeout" else "gcc_error", err, "")
            continue
        res[wname] = _run(exe, [], workdir)
        try:
            os.unlink(exe)
        except OSError:
            pass
    return res


# ----------------------------------------------------------------------------------------------
# comparison
# ----------------------------------------------------------------------------------------------
def _hint(e, g, base):
    try:
        fe, fg = Fraction(e), Fraction(g)
    except (ValueError, ZeroDivisionError):
        return ""
    h = []
    if fe.denominator != 1 and fg == math.floor(fe):
        h.append("got = floor(expected)")
    if base == "ui16" and fe.denominator == 1 and fe > 65535:
        if fg == 65535:
            h.append(f"got saturates at 65535; expected mod 65536 = {int(fe) % 65536}")
        elif fg == int(fe) % 65536:
            h.append("got = expected mod 65536 (wraps)")
    return (" (" + "; ".join(h) + ")") if h else ""


def compare(sig, inputs, expected, got, cellmaps):
    """all inputs/buffers/cells -> (n differing cells, description of the first one) ; (0, '') if equal"""
    bufsig = [(nm, base) for kind, nm, base in sig if kind == "buf"]
    ndiff, first, per_buf = 0, "", {}
    for i, (exp, g) in enumerate(zip(expected, got)):
        if exp is None or g is None:
            continue
        if len(exp) != len(g):
            return 1, f"input {i}: {len(exp)} buffers expected, {len(g)} printed"
        cm = cellmaps[i] if cellmaps and i < len(cellmaps) else {}
        for b, (eb, gb) in enumerate(zip(exp, g)):
            nm, base = bufsig[b] if b < len(bufsig) else (f"#{b}", None)
            if len(eb) != len(gb):
                return 1, f"input {i} buffer {nm}: {len(eb)} cells expected, {len(gb)} printed"
            for c, (e, x) in enumerate(zip(eb, gb)):
                if e is None:
                    continue
                try:
                    same = Fraction(e) == Fraction(x)
                except (ValueError, ZeroDivisionError):
                    same = False
                if same:
                    continue
                ndiff += 1
                per_buf[nm] = per_buf.get(nm, 0) + 1
                if not first:
                    where = ""
                    m = cm.get(nm)
                    if m:
                        op, role, cells = m
                        if c in cells:
                            where = f" = operand `{op}` lane {cells.index(c)}" + (" after the call" if role == "out" else "")
                        else:
                            where = f" (OUTSIDE the window of operand `{op}`)"
                    szs = {n2: a["c"] for (kind, n2, _), a in zip(sig, inputs[i]["args"]) if kind == "size"}
                    sz = f" sizes {szs}" if szs else ""
                    first = f"input {i}{sz}: buffer {nm} cell {c}{where}: expected {e} got {x}{_hint(e, x, base)}"
    if ndiff:
        first += f"  [{ndiff} differing cell(s): {per_buf}]"
    return ndiff, first


# ----------------------------------------------------------------------------------------------
# one case, end to end
# ----------------------------------------------------------------------------------------------
def _exc_status(e):
    return "exo_error:" + type(e).__name__, (str(e).strip() or repr(e))[-1500:]


def _wname_of(src):
    m = re.search(r"^def\s+(\w+)\s*\(", src, re.M)
    return m.group(1) if m else WRAPPER


def _front(exo, wrapper_src):
    """real front end + real compiler + exporter; exceptions of the real code become a status"""
    try:
        wname = _wname_of(wrapper_src)
        mod = exo_build.build_module(wrapper_src, _header())
        w = exo_build.procs_of(mod)[wname]
        c_text, h_text = exo.compile_procs_to_strings([w], wname + ".h")
        sig = wrapper_signature(w)
        pj, _ = export_ir.export(w)
        return None, (wname, c_text, h_text, sig, pj)
    except BaseException as e:  # noqa: BLE001 - a mutated tree may raise anything
        if isinstance(e, (KeyboardInterrupt, SystemExit)):
            raise
        return _exc_status(e), None


def _interp_results(itp, pj, inputs):
    res = itp.run(pj, inputs)
    expected, bad = [], None
    for i, r in enumerate(res):
        if "ok" in r:
            expected.append(r["ok"]["heap"])
        else:
            expected.append(None)
            if bad is None:
                k = "err" if "err" in r else ("invalid" if "invalid" in r else "bad")
                st = f"interp_error:{r['err']}" if k == "err" else f"interp_error:{k}:{r.get(k)}"
                bad = (st, f"input {i}: {json.dumps(r)[:300]}")
    return expected, bad


def _finish(rec, sig, stage, detail, stdout, bad):
    inputs, expected = rec["inputs"], rec["expected"]
    got = parse_output(stdout, len(inputs)) if stdout else [None] * len(inputs)
    rec["got"] = got
    cms = rec["params"].get("cellmaps")
    if bad is not None:
        rec["status"], rec["detail"] = bad
        return rec
    if stage != "ok":
        rec["status"] = stage
        nd, d = compare(sig, inputs, expected, got, cms)
        done = sum(1 for g in got if g is not None)
        rec["detail"] = detail + (f"\n({done}/{len(inputs)} inputs completed before the failure"
                                  + (f"; {d})" if nd else ", those agree)") if stage == "run_error" else "")
        return rec
    if any(g is None for g in got):
        rec["status"], rec["detail"] = "run_error", "output incomplete: " + stdout[-300:]
        return rec
    nd, d = compare(sig, inputs, expected, got, cms)
    rec["status"], rec["detail"] = ("diff", d) if nd else ("ok", "")
    return rec


def _new_rec(instr, case, src, params):
    return {"instr": instr, "case": case, "status": None, "wrapper_src": src, "c_src": None, "inputs": [],
            "expected": [], "got": [], "detail": "", "params": params}


def search(exo, rng, names=None, cases_per_instr=3, inputs_per_case=4, jobs=8, time_budget_s=None, log=None):
    """For each instruction (or only `names`): generate `cases_per_instr` wrapper procedures (different random
    placements: window offsets / strides / which row of a register array / values of size arguments), compile, gcc,
    run each on `inputs_per_case` random exact inputs, compare with the Lean interpreter.
    Returns list of dict, one per (instruction, case):
      {"instr","case","status","wrapper_src","c_src","inputs","expected","got","detail","params"}
    status: "ok" | "diff" | "exo_error:<ExcClassName>" | "gcc_error" | "run_error" | "interp_error:<err>".
    Extra labelled cases (params[<label>] = True, labels in LABELS, see the module docstring) follow the regular
    ones; "arg"-mode cases of instructions with a size argument run one size value per input and may have more than
    `inputs_per_case` inputs so that every admissible value in 1..lanes is covered.
    If `time_budget_s` runs out, instructions not yet started / cases whose gcc run has not started are omitted
    (reported through `log`)."""
    t0 = time.time()
    say = log or (lambda s: None)
    try:
        instrs = list_instrs(exo)
    except BaseException as e:  # noqa: BLE001 - a mutated exo.platforms.x86 may not even import
        if isinstance(e, (KeyboardInterrupt, SystemExit)):
            raise
        r = _new_rec("exo.platforms.x86", 0, "", {"stage": "import of exo.platforms.x86"})
        r["status"], r["detail"] = _exc_status(e)
        return [r]
    if names is not None:
        want = set(names)
        instrs = [(n, p) for n, p in instrs if n in want]
    seeds = [rng.getrandbits(64) for _ in instrs]
    results, pending, skipped = {}, [], []
    itp = interp_mod.Interp()
    try:
        with tempfile.TemporaryDirectory(prefix="c14_exec_") as wd, \
                ThreadPoolExecutor(max_workers=max(1, jobs)) as pool, ThreadPoolExecutor(max_workers=1) as ipool:
            pch_fut = pool.submit(make_pch, wd)
            for oi, ((name, proc), seed) in enumerate(zip(instrs, seeds)):
                if time_budget_s is not None and time.time() - t0 > time_budget_s:
                    skipped.append(name)
                    continue
                sub = random.Random(seed)
                try:
                    info = analyze(name, proc)
                    plans = plan_cases(info, sub, cases_per_instr, inputs_per_case)
                except BaseException as e:  # noqa: BLE001
                    if isinstance(e, (KeyboardInterrupt, SystemExit)):
                        raise
                    r = _new_rec(name, 0, "", {"stage": "analysis of the instruction"})
                    r["status"], r["detail"] = _exc_status(e)
                    results[(oi, 0)] = r
                    say(f"{name}: {r['status']}")
                    continue
                groups = {}
                for plan in plans:
                    k = plan["case"]
                    crng = random.Random(sub.getrandbits(64))
                    wname = f"{WRAPPER}_{k}"
                    params = {"size_mode": plan["size_mode"], "sizes": plan["size_values"],
                              "operands": plan["operands"], "lanes": info["lanes"]}
                    params.update(plan["labels"])
                    if "dummy_reg" in plan:
                        params["dummy_reg"] = plan["dummy_reg"]
                    if "rename" in plan:
                        params["rename"] = plan["rename"]
                    try:
                        src, bufs = build_wrapper_src(info, plan, wname)
                        inputs, cms, notes = [], [], set()
                        for i in range(plan["n_inputs"]):
                            inp, cm, nt = gen_input(info, plan, bufs, crng, i)
                            inputs.append(inp)
                            cms.append(cm)
                            notes |= nt
                    except BaseException as e:  # noqa: BLE001 - e.g. a helper instruction is missing
                        if isinstance(e, (KeyboardInterrupt, SystemExit)):
                            raise
                        rec = _new_rec(name, k, "", params)
                        rec["status"], rec["detail"] = _exc_status(e)
                        results[(oi, k)] = rec
                        continue
                    rec = _new_rec(name, k, src, params)
                    rec["inputs"] = inputs
                    params["cellmaps"] = cms
                    params["input_class"] = sorted(notes)
                    results[(oi, k)] = rec
                    err, built = _front(exo, src)
                    if err is not None:
                        rec["status"], rec["detail"] = err
                        say(f"{name}#{k}: {rec['status']}")
                        continue
                    wname, c_text, h_text, sig, pj = built
                    try:
                        piece = make_piece(c_text, h_text, sig, inputs, wname)
                    except BaseException as e:  # noqa: BLE001
                        if isinstance(e, (KeyboardInterrupt, SystemExit)):
                            raise
                        rec["status"], rec["detail"] = _exc_status(e)
                        continue
                    rec["c_src"] = standalone(piece, wname)
                    ifut = ipool.submit(_interp_results, itp, pj, inputs)
                    # cases that pull in different headers must not share a translation unit
                    gkey = tuple(sorted(set(re.findall(r"^\s*#\s*include\s*(<[^>]*>)", c_text, re.M))))
                    if any(plan["labels"].get(l) for l in ("two_calls", "name_capture", "runtime_size")):
                        gkey = gkey + (f"own unit {k}",)  # likely not to compile: keep it away from the others
                    groups.setdefault(gkey, []).append((wname, piece, rec, sig, ifut))
                for gi, (gkey, members) in enumerate(groups.items()):
                    fut = pool.submit(gcc_and_run, [(m[0], m[1]) for m in members], wd, f"{name}_g{gi}",
                                      pch_fut if "<immintrin.h>" in gkey else None)
                    pending.append((fut, members))
            for fut, members in pending:
                if time_budget_s is not None and time.time() - t0 > time_budget_s and fut.cancel():
                    for _w, _p, rec, _s, _i in members:  # gcc not started yet: drop the cases
                        results = {k: v for k, v in results.items() if v is not rec}
                        skipped.append(f"{rec['instr']}#{rec['case']}")
                    continue
                out = fut.result()
                for wname, _piece, rec, sig, ifut in members:
                    rec["expected"], bad = ifut.result()
                    stage, detail, stdout = out[wname]
                    _finish(rec, sig, stage, detail, stdout, bad)
                    if rec["status"] != "ok":
                        say(f"{rec['instr']}#{rec['case']}: {rec['status']}")
    finally:
        itp.close()
    if skipped:
        say(f"time budget {time_budget_s}s exhausted: {len(skipped)} instruction(s)/case(s) omitted: {skipped}")
    say(f"c14_exec.search: {len(results)} cases in {time.time() - t0:.1f}s")
    return [results[k] for k in sorted(results)]


def replay(exo, rec):
    """re-run one returned record (same wrapper_src and inputs); returns a record of the same shape"""
    out = _new_rec(rec["instr"], rec["case"], rec["wrapper_src"], json.loads(json.dumps(rec.get("params", {}))))
    out["inputs"] = json.loads(json.dumps(rec["inputs"]))
    err, built = _front(exo, rec["wrapper_src"])
    if err is not None:
        out["status"], out["detail"] = err
        return out
    wname, c_text, h_text, sig, pj = built
    try:
        piece = make_piece(c_text, h_text, sig, out["inputs"], wname)
    except BaseException as e:  # noqa: BLE001
        if isinstance(e, (KeyboardInterrupt, SystemExit)):
            raise
        out["status"], out["detail"] = _exc_status(e)
        return out
    out["c_src"] = standalone(piece, wname)
    itp = interp_mod.Interp()
    try:
        out["expected"], bad = _interp_results(itp, pj, out["inputs"])
    finally:
        itp.close()
    with tempfile.TemporaryDirectory(prefix="c14_replay_") as wd:
        stage, detail, stdout = gcc_and_run([(wname, piece)], wd, "replay")[wname]
    return _finish(out, sig, stage, detail, stdout, bad)


# ----------------------------------------------------------------------------------------------
if __name__ == "__main__":
    from common import import_exo

    seed = int(sys.argv[1]) if len(sys.argv) > 1 else 0
    only = sys.argv[2].split(",") if len(sys.argv) > 2 else None
    _exo = import_exo()
    _t = time.time()
    recs = search(_exo, random.Random(seed), names=only, log=lambda s: print("  ..", s, file=sys.stderr))
    wall = time.time() - _t
    table = {}
    for r in recs:
        lab = "".join(f"[{k}]" for k in LABELS if r["params"].get(k))
        table.setdefault(r["instr"], []).append(r["status"] + lab)
    for n, st in table.items():
        print(f"{n:32s} {' '.join(st)}")
    import resource

    ru = resource.getrusage(resource.RUSAGE_CHILDREN)
    rs = resource.getrusage(resource.RUSAGE_SELF)
    print(f"\n{len(table)} instructions, {len(recs)} cases, wall {wall:.1f}s, seed {seed}; cpu: children "
          f"{ru.ru_utime + ru.ru_stime:.0f}s, python {rs.ru_utime + rs.ru_stime:.0f}s")
    for r in recs:
        if r["status"] != "ok":
            sz = r["params"].get("sizes") or [{}]
            print(f"\n--- {r['instr']}#{r['case']} {r['status']} mode={r['params'].get('size_mode')} sizes={sz[:6]}")
            print("    " + r["detail"].replace("\n", "\n    ")[:900])
    if os.environ.get("C14_DUMP"):
        with open(os.environ["C14_DUMP"], "w") as f:
            json.dump(recs, f, indent=1, default=str)
