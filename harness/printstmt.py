"""C17, statement level — tie (correspondence A) between the Lean model `ExoModel.PrintStmt`
(`lean/Drivers/C17S.lean`) and the REAL printer `exo.core.LoopIR_pprint`.

For one procedure:

 1. the real LoopIR (`proc._loopir_proc`) is converted to the model's `PProc` JSON.  Names are
    resolved with the REAL `PrintEnv` (`get_name`/`push`), called in the order in which
    `_print_proc`/`_print_stmt`/`_print_expr` call it (a different order would give different
    names on a collision and shows up as a mismatch);
 2. the driver prints it in both styles:
      raw  — compared character by character with what the real `_print_proc` returns
             (the `# @instr` comment lines, which are not syntax and which the model does not
             have, are cut out of the real text — they are whole lines);
      fmt  — compared character by character with the real `str(proc)` (after yapf) whenever yapf
             did not wrap a line (same number of lines as the raw text); otherwise counted
             `fmt-wrapped` and only the raw comparison is made;
 3. the driver also reports whether the model's characters lex to the model's token lines
    (`lex_ok`), whether the procedure satisfies the hypothesis of the theorem (`wf`) and what the
    model parser makes of the tokens (`rt`): `wf` ⇒ `rt == "ok"` is `parse_print_proc` on
    this instance; a `bool`/`stride` argument (printed with ` @DRAM`) must give `wf = false`,
    `rt = "none"` — the recorded finding;
 4. the model PARSER is run on the REAL raw text (`parseproc`) and must return the normalised
    `PProc` (negative literals re-read as `-(…)`), resp. a parse error in the `bool @DRAM` case.

Procedures that use forms the model does not have (`free`, non-finite float literals, `int`
arguments, window expressions other than as window statement / call argument) are skipped and
counted.  Covered since the second wave: config reads, `stride(…)`, extern calls, `assert` lines.

    check_proc(exo_proc)      -> list[str]   mismatch descriptions (empty = tie holds / skipped)
    check_proc_full(exo_proc) -> dict        status, why, mismatches, flags
    /venv/bin/python harness/printstmt.py [-v]     self-test over harness/pool.py
"""
from __future__ import annotations

import json
import math
import sys
from collections import Counter
from pathlib import Path

sys.path.insert(0, str(Path(__file__).resolve().parent))
import common  # noqa: E402

DRIVER = "Drivers/C17S.lean"
OPS = {"+", "-", "*", "/", "%", "<", ">", "<=", ">=", "==", "and", "or"}


class _Skip(Exception):
    def __init__(self, why):
        super().__init__(why)
        self.why = why


# ------------------------------------------------------------------------- LoopIR -> PProc JSON
class _Conv:
    """walks the LoopIR in the printer's order, resolving names with the real PrintEnv"""

    def __init__(self):
        common.import_exo()
        from exo.core.LoopIR import LoopIR, T
        from exo.core import LoopIR_pprint as PP

        self.L, self.T, self.PP = LoopIR, T, PP
        self.kinds = Counter()               # statement / argument forms met (coverage of the run)
        self.prim = [(T.Num, "R"), (T.F16, "f16"), (T.F32, "f32"), (T.F64, "f64"), (T.INT8, "i8"),
                     (T.UINT8, "ui8"), (T.UINT16, "ui16"), (T.INT32, "i32")]

    # expressions -------------------------------------------------------------------------------
    def expr(self, e, env):
        L = self.L
        if isinstance(e, L.Read):
            name = env.get_name(e.name)
            return {"v": name, "idx": [self.expr(i, env) for i in e.idx]}
        if isinstance(e, L.Const):
            v = e.val
            if isinstance(v, float) and not math.isfinite(v):
                raise _Skip("unsupported:non-finite-literal")
            if not isinstance(v, (bool, int, float)):
                raise _Skip("unsupported:literal:" + type(v).__name__)
            s = str(v)
            return {"c": s[1:], "neg": True} if s.startswith("-") else {"c": s, "neg": False}
        if isinstance(e, L.USub):
            return {"n": self.expr(e.arg, env)}
        if isinstance(e, L.BinOp):
            if e.op not in OPS:
                raise _Skip("unsupported:operator:" + str(e.op))
            l = self.expr(e.lhs, env)
            r = self.expr(e.rhs, env)
            return {"b": e.op, "l": l, "r": r}
        if isinstance(e, L.ReadConfig):
            self.kinds["expr:config-read"] += 1
            return {"cfg": e.config.name(), "fld": e.field}
        if isinstance(e, L.StrideExpr):          # `stride(x, d)` = the call form with callee `stride`
            if not isinstance(e.dim, int) or isinstance(e.dim, bool) or e.dim < 0:
                raise _Skip("unsupported:stride-dimension:" + repr(e.dim))
            self.kinds["expr:stride"] += 1
            return {"call": "stride", "args": [{"v": env.get_name(e.name), "idx": []},
                                               {"c": str(e.dim), "neg": False}]}
        if isinstance(e, L.Extern):
            self.kinds["expr:extern"] += 1
            pname = e.f.name() or "_anon_"
            return {"call": pname, "args": [self.expr(a, env) for a in e.args]}
        if isinstance(e, L.WindowExpr):
            raise _Skip("unsupported:window-expression-inside-expression")
        raise _Skip("unsupported:expr:" + type(e).__name__)

    def acc(self, a, env):
        L = self.L
        if isinstance(a, L.Interval):
            lo = self.expr(a.lo, env)
            hi = self.expr(a.hi, env)
            return {"lo": lo, "hi": hi}
        return {"pt": self.expr(a.pt, env)}

    def win(self, e, env):
        name = env.get_name(e.name)
        return name, [self.acc(a, env) for a in e.idx]

    def arg(self, e, env):
        if isinstance(e, self.L.WindowExpr):
            x, accs = self.win(e, env)
            return {"win": x, "accs": accs}
        return self.expr(e, env)

    # types -------------------------------------------------------------------------------------
    def base(self, t):
        for cls, nm in self.prim:
            if isinstance(t, cls):
                return nm
        return None

    def numtype(self, t, env):
        """(base name, shape, is_window) of a numeric scalar / tensor type"""
        T = self.T
        if isinstance(t, T.Tensor):
            b = self.base(t.basetype())
            if b is None:
                raise _Skip("unsupported:type:" + type(t.basetype()).__name__)
            return b, [self.expr(r, env) for r in t.shape()], bool(t.is_window)
        b = self.base(t)
        if b is None:
            raise _Skip("unsupported:type:" + type(t).__name__)
        return b, [], False

    @staticmethod
    def mem(m):
        return m.name() if m else None

    # statements --------------------------------------------------------------------------------
    def block(self, ss, env):
        return [self.stmt(s, env) for s in ss]

    def stmt(self, s, env):
        j = self.stmt1(s, env)
        k = j["k"]
        if k == "for":
            k = "for-par" if j["par"] else "for-seq"
        elif k == "if":
            k = "if-else" if j["orelse"] else "if"
        elif k == "alloc":
            k = "alloc-tensor" if j["shape"] else "alloc-scalar"
        elif k == "call":
            k = "call-window-arg" if any(isinstance(a, dict) and "win" in a for a in j["args"]) else "call"
        self.kinds[k] += 1
        return j

    def stmt1(self, s, env):
        L = self.L
        if isinstance(s, L.Pass):
            return {"k": "pass"}
        if isinstance(s, (L.Assign, L.Reduce)):
            x = env.get_name(s.name)
            idx = [self.expr(i, env) for i in s.idx]
            rhs = self.expr(s.rhs, env)
            return {"k": "assign" if isinstance(s, L.Assign) else "reduce", "x": x, "idx": idx, "rhs": rhs}
        if isinstance(s, L.WriteConfig):
            return {"k": "cfg", "cfg": s.config.name(), "fld": s.field, "rhs": self.expr(s.rhs, env)}
        if isinstance(s, L.WindowStmt):
            if not isinstance(s.rhs, L.WindowExpr):
                raise _Skip("unsupported:window-statement-rhs:" + type(s.rhs).__name__)
            x, accs = self.win(s.rhs, env)
            w = env.get_name(s.name)
            return {"k": "window", "w": w, "x": x, "accs": accs}
        if isinstance(s, L.Alloc):
            b, shape, isw = self.numtype(s.type, env)
            if isw:
                raise _Skip("unsupported:window-typed-allocation")
            x = env.get_name(s.name)
            return {"k": "alloc", "x": x, "ty": b, "shape": shape, "mem": self.mem(s.mem)}
        if isinstance(s, L.Free):
            raise _Skip("unsupported:free")
        if isinstance(s, L.Call):
            return {"k": "call", "f": str(s.f.name), "args": [self.arg(a, env) for a in s.args]}
        if isinstance(s, L.If):
            c = self.expr(s.cond, env)
            body = self.block(s.body, env.push())
            orelse = self.block(s.orelse, env.push()) if s.orelse else []
            return {"k": "if", "c": c, "body": body, "orelse": orelse}
        if isinstance(s, L.For):
            lo = self.expr(s.lo, env)
            hi = self.expr(s.hi, env)
            benv = env.push()
            i = benv.get_name(s.iter)
            body = self.block(s.body, benv)
            return {"k": "for", "par": isinstance(s.loop_mode, L.Par), "i": i, "lo": lo, "hi": hi, "body": body}
        raise _Skip("unsupported:stmt:" + type(s).__name__)

    def fnarg(self, a, env):
        T = self.T
        if a.type == T.size:
            return {"name": env.get_name(a.name), "ty": {"k": "size"}}
        if a.type == T.index:
            return {"name": env.get_name(a.name), "ty": {"k": "index"}}
        if isinstance(a.type, T.Bool):
            return {"name": env.get_name(a.name), "ty": {"k": "bool", "mem": self.mem(a.mem)}}
        if isinstance(a.type, T.Stride):
            return {"name": env.get_name(a.name), "ty": {"k": "stride", "mem": self.mem(a.mem)}}
        b, shape, isw = self.numtype(a.type, env)          # the type is printed before the name
        return {"name": env.get_name(a.name), "ty": {"k": "num", "ty": b, "shape": shape, "win": isw,
                                                     "mem": self.mem(a.mem)}}

    def proc(self, ir):
        env = self.PP.PrintEnv()
        args = [self.fnarg(a, env) for a in ir.args]
        preds = [self.expr(p, env) for p in ir.preds]   # printed between the header and the body
        self.kinds["assert"] += len(preds)
        body = self.block(ir.body, env)
        return {"name": str(ir.name), "args": args, "preds": preds, "body": body}


def norm(j):
    """the expression normalisation `norm` on the JSON: a negative literal becomes -(literal)"""
    if isinstance(j, list):
        return [norm(x) for x in j]
    if isinstance(j, dict):
        if "c" in j and j.get("neg") is True:
            return {"n": {"c": j["c"], "neg": False}}
        return {k: norm(v) for k, v in j.items()}
    return j


# -------------------------------------------------------------------------------------- the tie
_driver = None


def _get_driver():
    global _driver
    if _driver is None:
        _driver = common.LeanDriver(DRIVER)
    return _driver


def close():
    global _driver
    if _driver is not None:
        _driver.close()
        _driver = None


def _ask(d, req):
    raw = d.ask(json.dumps(req))
    try:
        ans = json.loads(raw)
    except ValueError:
        raise common.InfraError(f"C17S driver answered no JSON: {raw[:300]}")
    if "bad" in ans:
        raise common.InfraError(f"C17S driver: {ans['bad']}")
    return ans


def _n_instr_lines(ir):
    return len(ir.instr.c_instr.split("\n")) if ir.instr else 0


def _cut(lines, ir):
    """a printed procedure without the `# @instr` comment lines (they directly follow the header)"""
    k = _n_instr_lines(ir)
    return [lines[0]] + lines[1 + k:]


def _diff(name, what, real, model):
    mm = []
    for k in range(max(len(real), len(model))):
        a = real[k] if k < len(real) else "<missing>"
        b = model[k] if k < len(model) else "<missing>"
        if a != b:
            mm.append(f"{name}: {what} line {k}: real `{a}` model `{b}`")
    return mm


def check_proc_full(exo_proc, driver=None):
    common.import_exo()
    from exo.core import LoopIR_pprint as PP

    res = {"status": "skipped", "why": "", "mismatches": [], "wf": None, "rt": None, "fmt_compared": False,
           "bool_mem": False, "lines": 0}
    ir = getattr(exo_proc, "_loopir_proc", None)
    if ir is None:
        ir = exo_proc.INTERNAL_proc() if hasattr(exo_proc, "INTERNAL_proc") else exo_proc
    name = str(ir.name)
    # the real printer: data, not a crash
    try:
        raw_real = PP._print_proc(ir, PP.PrintEnv(), "")
    except BaseException as e:
        if isinstance(e, (KeyboardInterrupt, SystemExit)):
            raise
        res["why"] = f"real-printer-raises:{type(e).__name__}"
        return res
    try:
        fmt_real = str(ir).split("\n")
    except BaseException as e:
        if isinstance(e, (KeyboardInterrupt, SystemExit)):
            raise
        fmt_real = None
        res["fmt_exception"] = type(e).__name__
    if any("\n" in l for l in raw_real):
        res["why"] = "unsupported:newline-inside-a-printed-line"
        return res
    try:
        conv = _Conv()
        pj = conv.proc(ir)
        res["kinds"] = conv.kinds
    except _Skip as e:
        res["why"] = e.why
        return res
    d = driver or _get_driver()
    mm = []
    real_raw_cut = _cut(raw_real, ir)
    a_raw = _ask(d, {"op": "printproc", "style": "raw", "proc": pj})
    mm += _diff(name, "raw", real_raw_cut, a_raw["lines"])
    res["lines"] = len(real_raw_cut)
    if fmt_real is not None and len(fmt_real) == len(raw_real):
        a_fmt = _ask(d, {"op": "printproc", "style": "fmt", "proc": pj})
        mm += _diff(name, "fmt", _cut(fmt_real, ir), a_fmt["lines"])
        res["fmt_compared"] = True
        if not a_fmt["lex_ok"]:
            mm.append(f"{name}: the model's fmt text does not lex to the model's token lines")
    if not a_raw["lex_ok"]:
        mm.append(f"{name}: the model's raw text does not lex to the model's token lines")
    res["wf"], res["rt"] = a_raw["wf"], a_raw["rt"]
    bool_mem = any(a["ty"]["k"] in ("bool", "stride") and a["ty"].get("mem") for a in pj["args"])
    res["bool_mem"] = bool_mem
    if a_raw["wf"] and a_raw["rt"] != "ok":
        mm.append(f"{name}: wfProc holds but the model parser gives `{a_raw['rt']}` on the model's tokens "
                  f"(contradicts parse_print_proc)")
    # the model parser on the REAL text
    a_p = _ask(d, {"op": "parseproc", "text": "\n".join(real_raw_cut)})
    if bool_mem:
        if "error" not in a_p:
            mm.append(f"{name}: the model parser accepts the real text with `bool @DRAM` (the real one rejects it)")
    elif a_raw["wf"]:
        if "ok" not in a_p:
            mm.append(f"{name}: the model parser rejects the real raw text ({a_p.get('error')})")
        elif a_p["ok"] != norm(pj):
            mm.append(f"{name}: the model parser reads the real raw text as a different procedure")
        if res["fmt_compared"]:              # … and on the real `str(proc)` (step 4, `x: T @ MEM`)
            a_q = _ask(d, {"op": "parseproc", "text": "\n".join(_cut(fmt_real, ir))})
            if "ok" not in a_q:
                mm.append(f"{name}: the model parser rejects the real str(proc) text ({a_q.get('error')})")
            elif a_q["ok"] != norm(pj):
                mm.append(f"{name}: the model parser reads the real str(proc) text as a different procedure")
    res["mismatches"] = mm
    res["status"] = "mismatch" if mm else "covered"
    return res


def check_proc(exo_proc):
    """the function to call from harness/props/c17.py: list of mismatch descriptions"""
    return check_proc_full(exo_proc)["mismatches"]


# ------------------------------------------------------------------------------------ self-test
EXTRA = {
    "c17s_forms": """
@config
class C17SCfg:
    a : f32
    k : index

@proc
def c17s_callee(n: size, x: [f32][n] @ DRAM, y: f32 @ DRAM):
    for i in seq(0, n):
        x[i] = y

@proc
def c17s_forms(n: size, m: size, x: f32[n, m] @ DRAM, w0: [f32][n] @ DRAM, s: f32 @ DRAM, j: index):
    assert n > 2
    assert m > 2
    tmp : f32[n + 1, 2] @ DRAM
    t : R
    for i in seq(0, n):
        for jj in par(1, m - 1):
            if i < 3 and jj == 2:
                x[i, jj] = 2.0 * s
            else:
                if jj > i:
                    x[i, jj] += -1.5
                else:
                    pass
            if jj < i:
                x[i, jj] = -x[i, jj - 1] * (s - -2.0) / 3.0
    w = x[0:n, 1]
    w2 = x[1, 0:m]
    c17s_callee(n, w, s)
    c17s_callee(n, x[0:n, 0], s)
    c17s_callee(m, x[n - 1, 0:m], s)
    C17SCfg.a = s
    C17SCfg.k = j + 1
""",
    "c17s_atoms": """
@config
class C17SCfg2:
    a : f32
    k : index

@proc
def c17s_atoms(n: size, x: [f32][n] @ DRAM, y: f32[n] @ DRAM, z: f32[n, n] @ DRAM):
    assert n % 4 == 0
    assert stride(x, 0) == 1
    assert stride(z, 1) == 1 and n > 4
    for i in seq(0, n):
        y[i] = select(x[i], 0.0, relu(x[i]) * 2.0, -x[i]) + sin(y[i])
        if i < C17SCfg2.k and i + 1 < n:
            y[i] += -relu(select(y[i], x[i], C17SCfg2.a, sqrt(z[i, i + 1]))) * (C17SCfg2.a - -1.5)
    C17SCfg2.a = 2.0
""",
}


def _programs():
    import pool

    progs = dict(pool.POOL)
    progs.update(EXTRA)
    try:                                   # the six C17 programs (user `x_1`, shadowing, bool argument, …)
        from props import c17

        if isinstance(getattr(c17, "EXTRA_POOL", None), dict):
            progs.update(c17.EXTRA_POOL)
    except Exception:
        pass
    return progs


def self_test(verbose=False):
    import time
    import exo_build

    common.import_exo()
    t0 = time.time()
    counts = Counter()
    why = Counter()
    bad = []
    nlines = 0
    kinds = Counter()
    for nm, src in _programs().items():
        try:
            mod = exo_build.build_module(src)
            procs = exo_build.procs_of(mod)
        except BaseException as e:
            if isinstance(e, (KeyboardInterrupt, SystemExit)):
                raise
            counts["front-end-rejects"] += 1
            why[f"front-end:{type(e).__name__}"] += 1
            continue
        for pn, p in procs.items():
            r = check_proc_full(p)
            counts[r["status"]] += 1
            if r["status"] == "skipped":
                why[r["why"]] += 1
            else:
                nlines += r["lines"]
                kinds.update(r.get("kinds", {}))
                counts["fmt-compared" if r["fmt_compared"] else "fmt-wrapped"] += 1
                if r["bool_mem"]:
                    counts["bool-arg-with-memory (known finding, wf=false, rt=none)"] += 1
                if r["wf"]:
                    counts["wf (theorem instance checked)"] += 1
            if r["status"] == "mismatch":
                bad.append((nm, pn, r["mismatches"]))
            if verbose and r["status"] == "covered":
                print(f"--- {nm}/{pn}: {r['lines']} lines equal, fmt_compared={r['fmt_compared']} wf={r['wf']} rt={r['rt']}")
    close()
    dt = time.time() - t0
    print(f"printstmt self-test: procedures={counts['covered'] + counts['skipped'] + counts['mismatch']} "
          f"covered={counts['covered']} skipped={counts['skipped']} mismatching={counts['mismatch']} "
          f"front-end-rejects={counts['front-end-rejects']} lines-compared={nlines}  ({dt:.1f}s)")
    for k in ("fmt-compared", "fmt-wrapped", "wf (theorem instance checked)",
              "bool-arg-with-memory (known finding, wf=false, rt=none)"):
        print(f"  {counts[k]:4d}  {k}")
    print("  statement forms compared: " + ", ".join(f"{k}={v}" for k, v in sorted(kinds.items())))
    for k, v in sorted(why.items()):
        print(f"  skipped {v:3d}  {k}")
    for nm, pn, mm in bad:
        for m in mm[:6]:
            print(f"  MISMATCH {nm}: {m}")
    return 1 if bad else 0


if __name__ == "__main__":
    sys.exit(self_test(verbose="-v" in sys.argv))
