"""Pool of small Exo programs used by the schedule stream (C01, C04, C06, C07, C10, C17, C19, …).

Each entry: name -> source defining one or more @proc; the LAST @proc of the source is the target
(earlier ones are callees / configs).  The programs are chosen to contain the situations in which
the rewrites' side conditions matter: non-zero and symbolic lower bounds, zero-trip loops,
loop-carried dependences, reductions, negative intermediate index values, / and %, shadowed and
textually equal names, windows (and windows of windows), scalars, sub-procedure calls with
assertions, configuration reads and writes, orelse branches, allocations at several depths.
`{N}`-style holes are filled by the stream with small constants so that every run sees variants.
"""

POOL = {}


def add(name, src):
    POOL[name] = src


add("axpy", '''
@proc
def axpy(n: size, a: f32, x: f32[n], y: f32[n]):
    for i in seq(0, n):
        y[i] += a * x[i]
''')

add("two_loops", '''
@proc
def two_loops(n: size, x: f32[n], y: f32[n]):
    for i in seq(0, n):
        x[i] = 2.0 * y[i]
    for j in seq(0, n):
        y[j] = x[j] + 1.0
''')

add("stencil", '''
@proc
def stencil(n: size, x: f32[n + 2], y: f32[n]):
    for i in seq(0, n):
        y[i] = x[i] + x[i + 1] + x[i + 2]
''')

add("carried", '''
@proc
def carried(n: size, x: f32[n + 1]):
    for i in seq(0, n):
        x[i + 1] = x[i] + 1.0
''')

add("carried_back", '''
@proc
def carried_back(n: size, x: f32[n + 1], y: f32[n + 1]):
    for i in seq(0, n):
        y[i] = x[i + 1]
        x[i] = 3.0
''')

add("nonzero_lo", '''
@proc
def nonzero_lo(n: size, m: size, x: f32[n + m + 2]):
    assert m >= 1
    for i in seq(2, n + 2):
        x[i] = x[i - 1] * 2.0
    for i in seq(n + 2, n + m + 2):
        x[i] = 1.0
''')

add("same_body_loops", '''
@proc
def same_body_loops(n: size, m: size, x: f32[n + m]):
    for i in seq(0, n):
        x[i] = 1.0
    for i in seq(n, n + m):
        x[i] = 1.0
''')

add("near_same_body_loops", '''
@proc
def near_same_body_loops(n: size, m: size, x: f32[n + m], y: f32[n + m]):
    for i in seq(0, n):
        x[i] = 1.0
    for i in seq(n, n + m):
        x[i] = 1.0
        y[i] = 2.0
''')

add("matmul", '''
@proc
def matmul(M: size, N: size, K: size, A: f32[M, K], B: f32[K, N], C: f32[M, N]):
    for i in seq(0, M):
        for j in seq(0, N):
            C[i, j] = 0.0
            for k in seq(0, K):
                C[i, j] += A[i, k] * B[k, j]
''')

add("triangular", '''
@proc
def triangular(n: size, A: f32[n, n], x: f32[n]):
    for i in seq(0, n):
        for j in seq(0, i + 1):
            x[i] += A[i, j]
''')

add("skew_dep", '''
@proc
def skew_dep(n: size, m: size, A: f32[n + 1, m + 1]):
    for i in seq(0, n):
        for j in seq(1, m + 1):
            A[i + 1, j - 1] = A[i, j] + 1.0
''')

add("reduce_scalar", '''
@proc
def reduce_scalar(n: size, x: f32[n], out: f32):
    acc: f32
    acc = 0.0
    for i in seq(0, n):
        acc += x[i]
    out = acc
''')

add("alloc_in_loop", '''
@proc
def alloc_in_loop(n: size, x: f32[n], y: f32[n]):
    for i in seq(0, n):
        t: f32
        t = x[i] * 2.0
        y[i] = t + 1.0
''')

add("alloc_tensor_in_loop", '''
@proc
def alloc_tensor_in_loop(n: size, m: size, x: f32[n, m], y: f32[n]):
    for i in seq(0, n):
        t: f32[m]
        for j in seq(0, m):
            t[j] = x[i, j] * 2.0
        for j in seq(0, m):
            y[i] += t[j]
''')

add("loop_carried_scalar", '''
@proc
def loop_carried_scalar(n: size, x: f32[n], y: f32[n]):
    t: f32
    t = 1.0
    for i in seq(0, n):
        y[i] = t
        t = x[i]
''')

add("guarded", '''
@proc
def guarded(n: size, k: index, x: f32[n], y: f32[n]):
    for i in seq(0, n):
        if i < k:
            x[i] = 1.0
        else:
            x[i] = y[i]
        if i < k:
            y[i] = 2.0
''')

add("divmod", '''
@proc
def divmod(n: size, x: f32[4 * n + 4], y: f32[n + 1, 4]):
    for i in seq(0, 4 * n):
        y[i / 4, i % 4] = x[i] + x[(i + 3) / 4 * 4]
''')

add("neg_index", '''
@proc
def neg_index(n: size, x: f32[n + 8], y: f32[n]):
    for i in seq(0, n):
        y[i] = x[(i - 3) % 8] + x[(i + 5) / 2]
''')

add("shadow", '''
@proc
def shadow(n: size, x: f32[n], y: f32[n]):
    for i in seq(0, n):
        x[i] = 1.0
        for i in seq(0, n):
            y[i] += x[i]
''')

add("window_basic", '''
@proc
def window_basic(n: size, A: f32[n + 2, n + 2], y: f32[n]):
    w = A[1:n + 1, 1]
    for i in seq(0, n):
        y[i] = w[i] * 2.0
    v = A[0, 0:n]
    for i in seq(0, n):
        v[i] = y[i]
''')

add("window_of_window", '''
@proc
def window_of_window(n: size, A: f32[n + 4, n + 4]):
    w = A[1:n + 3, 2:n + 4]
    u = w[1:n + 1, 0]
    for i in seq(0, n):
        u[i] = A[0, i] + 1.0
''')

add("window_alias", '''
@proc
def window_alias(a: f32[8], out: f32[4]):
    w = a[0:4]
    a[0] = 1.0
    a[0] = w[0] + 2.0
    for i in seq(0, 4):
        out[i] = w[i]
''')

add("win_param", '''
@proc
def win_param(n: size, m: size, src: [f32][n, m], dst: [f32][m, n]):
    for i in seq(0, n):
        for j in seq(0, m):
            dst[j, i] = src[i, j]
''')

add("call_sub", '''
@proc
def scale_row(n: size, a: f32, row: [f32][n]):
    for i in seq(0, n):
        row[i] = row[i] * a

@proc
def call_sub(n: size, m: size, A: f32[n, m], s: f32):
    for i in seq(0, n):
        scale_row(m, s, A[i, 0:m])
''')

add("call_assert", '''
@proc
def add4(n: size, dst: [f32][n], src: [f32][n]):
    assert n >= 2
    assert stride(dst, 0) == 1
    for i in seq(0, n):
        dst[i] += src[i]

@proc
def call_assert(n: size, A: f32[n + 2, 4], b: f32[4]):
    for i in seq(0, n + 2):
        add4(4, A[i, 0:4], b[0:4])
''')

add("copy_candidate", '''
@proc
def cp(n: size, dst: [f32][n], src: [f32][n]):
    for i in seq(0, n):
        dst[i] = src[i]

@proc
def copy_candidate(n: size, m: size, A: f32[n, m], B: f32[n, m]):
    for i in seq(0, n):
        for j in seq(0, m):
            B[i, j] = A[i, j]
''')

add("cfg_rw", '''
@config
class CfgA:
    k: index
    s: f32

@proc
def cfg_rw(n: size, x: f32[n + 4]):
    CfgA.k = 2
    for i in seq(0, n):
        x[i + CfgA.k] = CfgA.s
    CfgA.s = 3.0
''')

add("cfg_data", '''
@config
class CfgD:
    s: f32
    u: f32

@proc
def cfg_data(n: size, x: f32[n], a: f32):
    CfgD.s = a
    for i in seq(0, n):
        x[i] = CfgD.s * 2.0 + CfgD.u
    CfgD.u = 1.0
''')

add("cfg_callee", '''
@config
class CfgB:
    k: index
    t: index
    s: f32

@proc
def use_cfg(n: size, x: [f32][n]):
    for i in seq(0, n):
        if CfgB.k == 1:
            x[i] = 1.0
        else:
            x[i] += CfgB.s

@proc
def cfg_callee(n: size, x: f32[n], y: f32[n]):
    CfgB.k = 1
    CfgB.t = 3
    use_cfg(n, x[0:n])
    CfgB.k = 2
    use_cfg(n, y[0:n])
    CfgB.t = 4
''')

add("cfg_branch", '''
@config
class CfgC:
    flag: bool
    v: index

@proc
def cfg_branch(n: size, b: bool, x: f32[n + 3]):
    CfgC.v = 1
    if b:
        CfgC.v = 2
    for i in seq(0, n):
        x[i + CfgC.v] = 2.0
    CfgC.v = 0
''')

add("if_else_alloc", '''
@proc
def if_else_alloc(n: size, k: index, x: f32[n], y: f32[n]):
    for i in seq(0, n):
        if i == k:
            t: f32
            t = x[i]
            y[i] = t * t
        else:
            y[i] = 0.0
''')

add("two_stmts", '''
@proc
def two_stmts(n: size, x: f32[n], y: f32[n], z: f32[n]):
    for i in seq(0, n):
        x[i] = y[i] + 1.0
        z[i] = x[i] * 2.0
        y[i] = 0.0
''')

add("assign_then_reduce", '''
@proc
def assign_then_reduce(n: size, x: f32[n], y: f32[n], z: f32[n]):
    for i in seq(0, n):
        x[i] = y[i]
        x[i] += z[i]
        x[i] = x[i] + y[i] * z[i]
        y[i] = z[i] + y[i]
''')

add("idempotent_body", '''
@proc
def idempotent_body(n: size, m: size, x: f32[n], y: f32[n]):
    for j in seq(0, m):
        for i in seq(0, n):
            x[i] = y[i] * 2.0
''')

add("nonidempotent_body", '''
@proc
def nonidempotent_body(n: size, m: size, x: f32[n]):
    for j in seq(0, m):
        for i in seq(0, n):
            x[i] += 1.0
''')

add("zero_trip", '''
@proc
def zero_trip(n: size, x: f32[n + 1]):
    for i in seq(n, n):
        x[0] = 1.0
    for j in seq(0, n):
        x[j] = x[j] + 1.0
''')

add("const_bounds", '''
@proc
def const_bounds(x: f32[8], y: f32[8]):
    for i in seq(0, 8):
        x[i] = y[i] + 1.0
    for i in seq(2, 6):
        y[i] = x[i - 2]
''')

add("nested_const", '''
@proc
def nested_const(x: f32[4, 6], y: f32[24]):
    for i in seq(0, 4):
        for j in seq(0, 6):
            y[6 * i + j] = x[i, j]
''')

add("stage_candidate", '''
@proc
def stage_candidate(n: size, A: f32[n + 2, 8], y: f32[n]):
    for i in seq(0, n):
        for j in seq(0, 4):
            y[i] += A[i + 1, j + 2] * A[i + 1, j + 2]
''')

add("buffer_dims", '''
@proc
def buffer_dims(n: size, x: f32[n, 4], y: f32[n, 4]):
    t: f32[n, 4]
    for i in seq(0, n):
        for j in seq(0, 4):
            t[i, j] = x[i, j] + 1.0
    for i in seq(0, n):
        for j in seq(0, 4):
            y[i, j] = t[i, j] * t[i, 3 - j]
''')

add("two_allocs", '''
@proc
def two_allocs(n: size, x: f32[n], y: f32[n]):
    a: f32[n]
    for i in seq(0, n):
        a[i] = x[i] + 1.0
    for i in seq(0, n):
        y[i] = a[i]
    b: f32[n]
    for i in seq(0, n):
        b[i] = y[i] * 2.0
    for i in seq(0, n):
        x[i] = b[i]
''')

add("scaled_reduce", '''
@proc
def scaled_reduce(n: size, m: size, a: f32, x: f32[n, m], y: f32[n]):
    for i in seq(0, n):
        for j in seq(0, m):
            y[i] += a * x[i, j]
''')

add("par_loop", '''
@proc
def par_loop(n: size, x: f32[n], y: f32[n]):
    for i in par(0, n):
        y[i] = x[i] + 1.0
''')

add("extern_use", '''
@proc
def extern_use(n: size, x: f32[n], y: f32[n]):
    for i in seq(0, n):
        y[i] = relu(x[i]) + select(x[i], y[i], 1.0, 2.0)
''')

add("expr_shapes", '''
@proc
def expr_shapes(n: size, x: f32[n], y: f32[n], z: f32[n]):
    for i in seq(0, n):
        z[i] = x[i] + (y[i] + z[i])
        x[i] = y[i] * (z[i] * 2.0)
        y[i] = x[i] + x[i] * z[i] + x[i]
''')

add("textual_twins", '''
@proc
def textual_twins(x: f32[4], y: f32[4], z: f32[4]):
    for i in seq(0, 2):
        t: f32
        t = z[i]
        y[i] = t
    for i in seq(0, 2):
        t: f32
        t = x[i]
        y[i + 2] = t + t
''')

add("pass_only", '''
@proc
def pass_only(n: size, x: f32[n]):
    for i in seq(0, n):
        pass
    for j in seq(0, n):
        pass
        x[j] = 1.0
''')

add("bool_arg", '''
@proc
def bool_arg(n: size, b: bool, c: bool, x: f32[n]):
    if b:
        for i in seq(0, n):
            x[i] = 1.0
    if b:
        x[0] = 2.0
    else:
        x[0] = 3.0
    if c:
        x[0] += 1.0
''')

add("lift_reduce_c", '''
@proc
def lift_reduce_c(n: size, a: f32, x: f32[n], y: f32, z: f32[n]):
    y = 0.0
    for i in seq(0, n):
        y += a * x[i]
    for j in seq(0, n):
        z[j] = 0.0
        for k in seq(0, n):
            z[j] += a * x[k]
''')

add("sinkable", '''
@proc
def sinkable(n: size, k: index, x: f32[n], y: f32[n]):
    t: f32
    for i in seq(0, n):
        t = x[i]
        y[i] = t + 1.0
    u: f32[2]
    if k < 2:
        u[0] = 1.0
        y[0] = u[0]
''')

add("dead_buffers", '''
@proc
def dead_buffers(n: size, x: f32[n], y: f32[n]):
    unused: f32[n]
    t: f32[n]
    for i in seq(0, n):
        t[i] = x[i]
    for i in seq(0, n):
        y[i] = x[i] + 1.0
''')

add("small_const_buf", '''
@proc
def small_const_buf(x: f32[4], y: f32[2]):
    t: f32[2]
    t[0] = x[0] + x[1]
    t[1] = x[2] + x[3]
    y[0] = t[0] * t[1]
    y[1] = t[1]
    m: f32[4, 6]
    for i in seq(0, 4):
        for j in seq(0, 6):
            m[i, j] = x[i]
    for i in seq(0, 4):
        y[0] += m[i, 5 - i]
''')

add("dead_code", '''
@proc
def dead_code(n: size, x: f32[n + 1]):
    for i in seq(0, n):
        if i < n:
            x[i] = 1.0
        else:
            x[i] = 2.0
        if n < 0:
            x[i] = 3.0
    for j in seq(0, 0):
        x[0] = 4.0
    if n > 0:
        x[n] = 5.0
    else:
        x[0] = 6.0
''')

add("write_patterns", '''
@proc
def write_patterns(n: size, x: f32[n], y: f32[n], z: f32[n]):
    for i in seq(0, n):
        x[i] = x[i] + y[i]
        y[i] = 1.0
        y[i] += z[i]
        z[i] += x[i]
        z[i] += y[i]
        x[i] = 2.0
        x[i] = z[i]
''')

add("cfg_unread", '''
@config
class CfgE:
    a: index
    b: index
    s: f32

@proc
def cfg_unread(n: size, x: f32[n]):
    CfgE.a = 1
    for i in seq(0, n):
        x[i] = CfgE.s
    CfgE.b = 2
    CfgE.a = 3
''')

add("reassoc", '''
@proc
def reassoc(n: size, x: f32[n], y: f32[n], z: f32[n]):
    for i in seq(0, n):
        z[i] = x[i] + (y[i] + z[i])
        y[i] = x[i] * (y[i] * 3.0)
        x[i] = (x[i] + y[i]) + (z[i] + 1.0)
''')

add("win_win_point", '''
@proc
def win_win_point(x: f32[8, 8], y: f32[8]):
    w1 = x[4:8, 0:8]
    w2 = w1[1, 0:8]
    w2[3] = 1.0
    x[5, 3] = 2.0
    y[0] = x[5, 3]
    x[1, 3] = 3.0
    w2[3] = 4.0
    y[1] = w2[3] + x[1, 3]
''')

add("win_win_interval", '''
@proc
def win_win_interval(n: size, x: f32[n + 6, n + 6], y: f32[n]):
    w1 = x[2:n + 5, 3:n + 6]
    w2 = w1[1:n + 1, 2]
    for i in seq(0, n):
        w2[i] = 1.0
        x[i + 3, 5] += 2.0
        y[i] = x[i + 3, 5]
    for i in seq(0, n):
        x[i + 1, 2] = y[i]
        y[i] = w2[i]
''')

add("win_arg_alias", '''
@proc
def bump(n: size, dst: [f32][n], src: [f32][n]):
    for i in seq(0, n):
        dst[i] += src[i]

@proc
def win_arg_alias(n: size, A: f32[n + 2, n + 2], b: f32[n]):
    for i in seq(0, n):
        bump(n, A[i + 1, 1:n + 1], b[0:n])
        b[i] = A[i + 1, i + 1]
    for i in seq(0, n):
        A[0, i] = b[i]
''')

add("triangular_lo", '''
@proc
def triangular_lo(n: size, A: f32[n, n], x: f32[n]):
    for i in seq(0, n):
        for j in seq(i, n):
            x[i] += A[i, j]
    for i in seq(0, n):
        for j in seq(0, n - i):
            A[i, j] = x[j]
''')

add("alloc_iter_shape", '''
@proc
def alloc_iter_shape(n: size, y: f32[n]):
    for i in seq(0, n):
        t: f32[i + 1]
        t[i] = 1.0
        y[i] = t[i] + 1.0
    for i in seq(0, n):
        for j in seq(0, 4):
            u: f32[i + j + 1]
            u[i + j] = y[i]
            y[i] = u[i + j] * 2.0
''')

# --- lift_scope situations (if-in-if without else, for-in-if, if-in-for with configuration)
add("ls_if_then", '''
@proc
def ls_if_then(a: bool, b: bool, y: f32[2]):
    if a:
        if b:
            y[0] = 1.0
    else:
        y[1] = 2.0
''')

add("ls_if_else", '''
@proc
def ls_if_else(a: bool, b: bool, y: f32[2]):
    if a:
        y[0] = 1.0
    else:
        if b:
            y[1] = 2.0
''')

add("ls_for_in_if", '''
@proc
def ls_for_in_if(n: size, y: f32[8]):
    if n > 2:
        for i in seq(2, n):
            y[0] += 1.0
''')

add("ls_cfg_guard", '''
@config
class CfgL:
    x: index

@proc
def ls_cfg_guard(n: size, y: f32[8]):
    if CfgL.x == 0:
        for i in seq(0, n):
            CfgL.x = 1
            y[0] += 1.0
''')

# (the two shapes in ONE procedure make the front end's bounds checker crash with `assert False, "bad case"`:
#  expr_to_smt has no case for a configuration read inside the predicate of a later statement's effect)
add("ls_cfg_guard2", '''
@config
class CfgM:
    x: index

@proc
def ls_cfg_guard2(n: size, y: f32[8]):
    for i in seq(0, n):
        if CfgM.x == 0:
            CfgM.x = 1
            y[1] += 1.0
''')

# --- scoping of window definitions / allocations under fission and reorder_stmts
add("win_in_loop", '''
@proc
def win_in_loop(n: size, A: f32[n + 2, n + 2], b: f32[n]):
    for i in seq(0, n):
        dst = A[i + 1, 1:n + 1]
        for j in seq(0, n):
            dst[j] += b[j]
    if n > 1:
        x: f32[4]
        w = x[0:2]
        w[0] = 1.0
        b[0] = w[0]
''')

# a buffer that is only REDUCED into after a point is still live there (seeded change C01_4 made Check_IsDeadAfter
# look at reads and writes only): reuse_buffer / delete_buffer must keep rejecting
add("reduce_only_after", '''
@proc
def reduce_only_after(n: size, x: f32[n], y: f32[n]):
    acc: f32
    acc = 0.0
    for i in seq(0, n):
        t: f32
        t = x[i]
        acc += t
        y[i] = t
    d: f32
    d += x[0]
''')


# --- regression programs: minimal situations of REPAIRED defects (known_findings.json, "fixed").  They are run by the
# C01 and C04 schedule streams only (sched_run.run_stream(extra=REGRESSION)), so that a repaired defect that returns
# is seen at depth 1 on every run, whatever the seed samples at depth 2.
REGRESSION = {}


def add_regression(name, src):
    REGRESSION[name] = src


# fixed: inline_assign substituted the right-hand side for a call ARGUMENT (`t = x[i]; rd_sc(n, y, i, t)` became
# `rd_sc(n, y, i, x[i])`, which the front end rejects and the backend asserts on) and matched the whole-tensor
# argument `u` with the pattern `u[0]` (`rd_t(z, u)` became `rd_t(z, x[0])`)
add_regression("assign_then_call", '''
@proc
def rd_sc(n: size, y: f32[n], i: index, t: f32):
    assert 0 <= i
    assert i < n
    y[i] = t

@proc
def rd_t(z: f32[2], u: f32[2]):
    z[0] = u[0]

@proc
def assign_then_call(n: size, x: f32[n], y: f32[n], z: f32[2]):
    for i in seq(0, n):
        t: f32
        t = x[i]
        rd_sc(n, y, i, t)
    u: f32[2]
    u[0] = 1.0
    u[1] = 2.0
    rd_t(z, u)
''')
