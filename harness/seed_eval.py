"""Evaluate one seeded change: python3 harness/seed_eval.py <seed dir> [--checks C01,C04] [--tier quick]

<seed dir> holds patch.diff, demo.py, meta.json.  Steps: scratch worktree of /repo HEAD + patch;
the demo must pass on the clean tree and fail on the patched one; then the listed checks (default:
the property named in meta.json) are run with EXO_REPO pointing at the patched worktree.  Prints a
json summary; never touches /repo's working tree.
"""
import json
import os
import re
import subprocess
import sys
import time
from pathlib import Path

ROOT = Path(__file__).resolve().parent.parent


def sh(cmd, **kw):
    p = subprocess.run(cmd, capture_output=True, text=True, **kw)
    return p.returncode, p.stdout + p.stderr


def main():
    seed = Path(sys.argv[1]).resolve()
    args = sys.argv[2:]
    checks = None
    tier = "quick"
    for i, a in enumerate(args):
        if a == "--checks":
            checks = args[i + 1].split(",")
        if a == "--tier":
            tier = args[i + 1]
    meta = json.loads((seed / "meta.json").read_text())
    pid = meta.get("property") or meta.get("property_id")
    checks = checks or [pid]
    wt = Path(f"/tmp/wt_eval_{seed.name}_{os.getpid()}")
    out = {"seed": str(seed), "property": pid, "checks": {}}
    rc, log = sh(["git", "-C", "/repo", "worktree", "add", "--detach", str(wt), "HEAD"])
    if rc:
        print(json.dumps({"error": "worktree: " + log}))
        return 2
    try:
        rc, log = sh(["git", "-C", str(wt), "apply", str(seed / "patch.diff")])
        out["patch_applies"] = rc == 0
        if rc:
            out["apply_log"] = log[-500:]
            print(json.dumps(out, indent=1))
            return 1
        env = dict(os.environ)
        for name, tree in (("demo_clean_rc", "/repo"), ("demo_patched_rc", str(wt))):
            e = dict(env, PYTHONPATH=f"{tree}/src")
            try:
                rc, log = sh(["/venv/bin/python", str(seed / "demo.py")], env=e, cwd=str(seed), timeout=1800)
            except subprocess.TimeoutExpired:
                rc, log = -9, "timeout"
            out[name] = rc
            out[name.replace("_rc", "_tail")] = log[-300:]
        for c in checks:
            t0 = time.time()
            e = dict(env, EXO_REPO=str(wt), VERIF_EVIDENCE_DIR=f"/tmp/seed_evid_{os.getpid()}", VERIF_REPLAY_DIR=f"/tmp/seed_replays_{seed.name}")
            try:
                rc, log = sh([str(ROOT / "check"), c, "--tier", tier], env=e, cwd=str(ROOT), timeout=7200)
            except subprocess.TimeoutExpired:
                rc, log = -9, "timeout"
            viol = re.findall(r"^VIOLATION.*$", log, re.M)
            what = re.findall(r"^  \((.*)\)$", log, re.M)
            out["checks"][c] = {"rc": rc, "violations": viol[:8], "what": what[:8], "wall_s": round(time.time() - t0),
                                "tail": log[-400:] if rc not in (0, 1) else ""}
    finally:
        sh(["git", "-C", "/repo", "worktree", "remove", "--force", str(wt)])
        # the checks regenerate lean/ExoModel/Gen/* from the tree under test: put the committed (unchanged-tree) copies back
        sh(["git", "-C", str(ROOT), "checkout", "--", "lean/ExoModel/Gen"])
    print(json.dumps(out, indent=1))
    return 0


if __name__ == "__main__":
    sys.exit(main())
