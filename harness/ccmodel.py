"""C02 / C08 correspondence A: the real index-level functions of the backend against their Lean
models (lean/ExoModel/CIndex.lean, served by lean/Drivers/C02.lean).

`Recorder.install()` wraps the real functions (in this process only, never in /repo):
    LoopIR_compiler.lift_to_cir, simplify_cir, Compiler.comp_cir, comp_e (index expressions),
    tensor_strides, get_idx_offset, access_str, window_struct_fields, new_varname,
    Compiler.__init__ (non_const), MemoryAnalysis.run
and records, for every call made while real procedures are compiled, the request line for the
driver and the canonical form of what the real code returned (or the class of what it raised).
`random_cases` adds directly generated CIR trees / name sequences, `compare` checks the answers.
"""
from __future__ import annotations

import re
from collections import ChainMap

INDEX_OPS = ("+", "-", "*", "/", "%")


class NotModelled(Exception):
    pass


def _m():
    from exo.backend import LoopIR_compiler as LC
    from exo.backend import mem_analysis as MA
    from exo.core.LoopIR import LoopIR, CIR, T
    from exo.core.memory import Memory
    from exo.rewrite.range_analysis import IndexRangeEnvironment

    return LC, MA, LoopIR, CIR, T, Memory, IndexRangeEnvironment


def sym(s):
    return f"{s.name()} {s._id}"


def flag(b):
    return "T" if b else "F"


def ser_cir(e):
    LC, MA, LoopIR, CIR, T, Memory, IRE = _m()
    if isinstance(e, CIR.Read):
        return f"r {sym(e.name)} {flag(e.is_non_neg)}"
    if isinstance(e, CIR.Const):
        if isinstance(e.val, bool) or not isinstance(e.val, int):
            raise NotModelled("float")
        return f"c {e.val}"
    if isinstance(e, CIR.BinOp):
        if e.op not in INDEX_OPS:
            raise NotModelled("op")
        return f"b {e.op} {flag(e.is_non_neg)} {ser_cir(e.lhs)} {ser_cir(e.rhs)}"
    if isinstance(e, CIR.USub):
        return f"u {flag(e.is_non_neg)} {ser_cir(e.arg)}"
    if isinstance(e, CIR.Stride):
        return f"s {sym(e.name)} {int(e.dim)}"
    raise NotModelled(type(e).__name__)


def cir_syms(e, out):
    LC, MA, LoopIR, CIR, T, Memory, IRE = _m()
    if isinstance(e, (CIR.Read, CIR.Stride)):
        out.add(e.name)
    elif isinstance(e, CIR.BinOp):
        cir_syms(e.lhs, out)
        cir_syms(e.rhs, out)
    elif isinstance(e, CIR.USub):
        cir_syms(e.arg, out)


def ser_iexpr(e):
    LC, MA, LoopIR, CIR, T, Memory, IRE = _m()
    if isinstance(e, LoopIR.Read) and not e.idx:
        return f"v {sym(e.name)}"
    if isinstance(e, LoopIR.Const) and isinstance(e.val, int) and not isinstance(e.val, bool):
        return f"c {e.val}"
    if isinstance(e, LoopIR.USub):
        return f"n {ser_iexpr(e.arg)}"
    if isinstance(e, LoopIR.BinOp) and e.op in INDEX_OPS:
        return f"{e.op} {ser_iexpr(e.lhs)} {ser_iexpr(e.rhs)}"
    return "o"


def pure_index(e):
    LC, MA, LoopIR, CIR, T, Memory, IRE = _m()
    if isinstance(e, LoopIR.Read):
        return not e.idx and e.type.is_indexable()
    if isinstance(e, LoopIR.Const):
        return isinstance(e.val, int) and not isinstance(e.val, bool) and e.type.is_indexable()
    if isinstance(e, LoopIR.USub):
        return pure_index(e.arg)
    if isinstance(e, LoopIR.BinOp):
        return e.op in INDEX_OPS and pure_index(e.lhs) and pure_index(e.rhs)
    return False


def iexpr_syms(e, out):
    LC, MA, LoopIR, CIR, T, Memory, IRE = _m()
    if isinstance(e, LoopIR.Read):
        out.add(e.name)
    elif isinstance(e, LoopIR.USub):
        iexpr_syms(e.arg, out)
    elif isinstance(e, LoopIR.BinOp):
        iexpr_syms(e.lhs, out)
        iexpr_syms(e.rhs, out)


def subexprs(e, out):
    LC, MA, LoopIR, CIR, T, Memory, IRE = _m()
    out.append(e)
    if isinstance(e, LoopIR.USub):
        subexprs(e.arg, out)
    elif isinstance(e, LoopIR.BinOp):
        subexprs(e.lhs, out)
        subexprs(e.rhs, out)


def nn_table(e, range_env):
    LC, MA, LoopIR, CIR, T, Memory, IRE = _m()
    subs = []
    subexprs(e, subs)
    seen, items = set(), []
    for s in subs:
        k = ser_iexpr(s)
        if k in seen or k == "o":
            continue
        seen.add(k)
        try:
            f = bool(range_env.check_expr_bound(0, IRE.leq, s))
        except Exception:
            f = False
        items.append(f"{k} = {flag(f)}")
    return " ; ".join(items)


def ser_env(env, syms):
    items = []
    for s in sorted(syms, key=lambda x: (x.name(), x._id)):
        try:
            items.append(f"{sym(s)} {env[s]}")
        except KeyError:
            pass
    return " ; ".join(items)


def exc_name(e):
    return type(e).__name__


# ---------------------------------------------------------------------------------- MemoryAnalysis view
def used_e(e, LoopIR):
    res = []
    if isinstance(e, LoopIR.Read):
        res.append(e.name)
        for i in e.idx:
            res += used_e(i, LoopIR)
    elif isinstance(e, LoopIR.USub):
        res += used_e(e.arg, LoopIR)
    elif isinstance(e, LoopIR.BinOp):
        res += used_e(e.lhs, LoopIR) + used_e(e.rhs, LoopIR)
    elif isinstance(e, LoopIR.Extern):
        for a in e.args:
            res += used_e(a, LoopIR)
    elif isinstance(e, (LoopIR.WindowExpr, LoopIR.StrideExpr)):
        res.append(e.name)
    return res


def syms_tok(ss):
    return f"{len(ss)}" + "".join(" " + sym(s) for s in ss)


def ser_mstmts(ss):
    LC, MA, LoopIR, CIR, T, Memory, IRE = _m()
    out = []
    for s in ss:
        if isinstance(s, (LoopIR.Assign, LoopIR.Reduce)):
            out.append("L " + syms_tok([s.name] + used_e(s.rhs, LoopIR)))
        elif isinstance(s, LoopIR.WriteConfig):
            out.append("L " + syms_tok(used_e(s.rhs, LoopIR)))
        elif isinstance(s, LoopIR.Pass):
            out.append("L 0")
        elif isinstance(s, LoopIR.Call):
            us = []
            for a in s.args:
                us += used_e(a, LoopIR)
            out.append("L " + syms_tok(us))
        elif isinstance(s, LoopIR.WindowStmt):
            out.append(f"W {sym(s.name)} {sym(s.rhs.name)}")
        elif isinstance(s, LoopIR.Alloc):
            out.append(f"A {sym(s.name)}")
        elif isinstance(s, LoopIR.Free):
            out.append(f"F {sym(s.name)}")
        elif isinstance(s, LoopIR.If):
            out.append(f"I {syms_tok(used_e(s.cond, LoopIR))} [ {ser_mstmts(s.body)} ] [ {ser_mstmts(s.orelse)} ]")
        elif isinstance(s, LoopIR.For):
            out.append(f"O [ {ser_mstmts(s.body)} ]")
        else:
            raise NotModelled(type(s).__name__)
    return " ".join(out)


def ser_kstmts(ss, depth=0):
    LC, MA, LoopIR, CIR, T, Memory, IRE = _m()
    if depth > 6:
        raise NotModelled("call depth")
    out = []
    for s in ss:
        if isinstance(s, (LoopIR.Assign, LoopIR.Reduce)):
            out.append(f"w {sym(s.name)}")
        elif isinstance(s, LoopIR.WindowStmt):
            out.append(f"W {sym(s.name)} {sym(s.rhs.name)}")
        elif isinstance(s, LoopIR.If):
            out.append(f"B [ {ser_kstmts(s.body, depth)} {ser_kstmts(s.orelse, depth)} ]")
        elif isinstance(s, LoopIR.For):
            out.append(f"B [ {ser_kstmts(s.body, depth)} ]")
        elif isinstance(s, LoopIR.Call):
            args = []
            for a in s.args:
                if isinstance(a, (LoopIR.Read, LoopIR.WindowExpr, LoopIR.StrideExpr)):
                    args.append(sym(a.name))
                else:
                    args.append("-")
            formals = [a.name for a in s.f.args]
            out.append(f"C {len(args)} {' '.join(args)} {{ {syms_tok(formals)} }} [ {ser_kstmts(s.f.body, depth + 1)} ]")
        else:
            out.append("o")
    return " ".join(out)


# ---------------------------------------------------------------------------------- recorder
class Recorder:
    def __init__(self, limit=6000):
        self.cases = {}   # request -> expected
        self.limit = limit
        self.counts = {}
        self._undo = []

    def add(self, req, exp):
        kind = req.split("|", 1)[0]
        if "\n" in req or "\n" in exp:
            return
        if req in self.cases:
            return
        per = self.counts.get(kind, 0)
        if per >= self.limit:
            return
        self.counts[kind] = per + 1
        self.cases[req] = exp

    # ---- helpers that need a live Compiler
    def bufty(self, comp, name, typ):
        LC, MA, LoopIR, CIR, T, Memory, IRE = _m()
        if typ.is_win():
            n = len(typ.shape())
            kv = []
            for i in range(n):
                st = comp._known_strides.get((name, i))
                if st is not None:
                    if not isinstance(st, CIR.Const):
                        raise NotModelled("known stride")
                    kv.append(f"{i} {int(st.val)}")
            return f"w|{n} {' '.join(kv)}", set()
        szs = [LC.lift_to_cir(i, comp.range_env) for i in typ.shape()]
        syms = set()
        for c in szs:
            cir_syms(c, syms)
        return "t|" + " ; ".join(ser_cir(c) for c in szs), syms

    def install(self):
        LC, MA, LoopIR, CIR, T, Memory, IRE = _m()
        rec = self
        Compiler = LC.Compiler

        def patch(obj, name, new):
            old = getattr(obj, name)
            setattr(obj, name, new)
            self._undo.append((obj, name, old))
            return old

        # -- lift_to_cir
        o_lift = LC.lift_to_cir

        def lift_to_cir(e, range_env):
            try:
                res = o_lift(e, range_env)
            except AssertionError:
                try:
                    rec.add(f"lift|{ser_iexpr(e)}|{nn_table(e, range_env)}", "none")
                except NotModelled:
                    pass
                raise
            try:
                rec.add(f"lift|{ser_iexpr(e)}|{nn_table(e, range_env)}", ser_cir(res))
            except NotModelled:
                pass
            return res

        patch(LC, "lift_to_cir", lift_to_cir)

        # -- simplify_cir
        o_simp = LC.simplify_cir

        def simplify_cir(e):
            err = None
            try:
                res = o_simp(e)
            except (AssertionError, ZeroDivisionError) as x:
                err = x
            try:
                req = "simp|" + ser_cir(e)
                if err is not None:
                    rec.add(req, "err " + exc_name(err))
                else:
                    try:
                        rec.add(req, "ok " + ser_cir(res))
                    except NotModelled:
                        rec.add(req, "err float")
            except NotModelled:
                pass
            if err is not None:
                raise err
            return res

        patch(LC, "simplify_cir", simplify_cir)

        # -- comp_cir
        o_comp = Compiler.comp_cir

        def comp_cir(self, e, env, prec):
            res = o_comp(self, e, env, prec)
            try:
                syms = set()
                cir_syms(e, syms)
                rec.add(f"comp|{ser_env(env, syms)}|{int(prec)}|{ser_cir(e)}", res)
            except (NotModelled, TypeError, ValueError):
                pass
            return res

        patch(Compiler, "comp_cir", comp_cir)

        # -- comp_e on index expressions
        o_compe = Compiler.comp_e

        def comp_e(self, e, prec=0):
            res = o_compe(self, e, prec)
            try:
                if pure_index(e):
                    syms = set()
                    iexpr_syms(e, syms)
                    rec.add(f"compe|{ser_env(self.env, syms)}|{int(prec)}|{ser_iexpr(e)}|{nn_table(e, self.range_env)}", res)
            except (NotModelled, TypeError, ValueError):
                pass
            return res

        patch(Compiler, "comp_e", comp_e)

        # -- tensor_strides
        o_ts = Compiler.tensor_strides

        def tensor_strides(self, shape):
            res = o_ts(self, shape)
            try:
                szs = [o_lift(i, self.range_env) for i in shape]
                rec.add("tstr|" + " ; ".join(ser_cir(c) for c in szs), " ; ".join(ser_cir(c) for c in res))
            except (NotModelled, AssertionError):
                pass
            return res

        patch(Compiler, "tensor_strides", tensor_strides)

        # -- get_idx_offset
        o_gio = Compiler.get_idx_offset

        def get_idx_offset(self, name, typ, idx):
            err = None
            try:
                res = o_gio(self, name, typ, idx)
            except (AssertionError, IndexError) as x:
                err = x
            try:
                b, _ = rec.bufty(self, name, typ)
                req = f"idx|{sym(name)}|{b}|" + " ; ".join(ser_cir(c) for c in idx)
                rec.add(req, "none" if err is not None else "ok " + ser_cir(res))
            except (NotModelled, AssertionError):
                pass
            if err is not None:
                raise err
            return res

        patch(Compiler, "get_idx_offset", get_idx_offset)

        # -- access_str
        o_acc = Compiler.access_str

        def access_str(self, nm, idx_list):
            err = None
            try:
                res = o_acc(self, nm, idx_list)
            except (AssertionError, ZeroDivisionError, IndexError) as x:
                err = x
            try:
                typ = self.envtyp[nm]
                cirs = [o_lift(i, self.range_env) for i in idx_list]
                b, syms = rec.bufty(self, nm, typ)
                syms = set(syms)
                syms.add(nm)
                for c in cirs:
                    cir_syms(c, syms)
                req = f"acc|{ser_env(self.env, syms)}|{sym(nm)}|{b}|" + " ; ".join(ser_cir(c) for c in cirs)
                if err is None:
                    rec.add(req, "ok " + res)
                elif isinstance(err, IndexError):
                    rec.add(req, "none")
                else:
                    rec.add(req, "err " + exc_name(err))
            except (NotModelled, AssertionError, KeyError):
                pass
            if err is not None:
                raise err
            return res

        patch(Compiler, "access_str", access_str)

        # -- window_struct_fields
        o_wsf = Compiler.window_struct_fields

        def window_struct_fields(self, e):
            res = o_wsf(self, e)
            try:
                mem = self.mems[e.name]
                if getattr(mem.window, "__func__", None) is Memory.window.__func__:
                    typ = self.envtyp[e.name]
                    los = [o_lift(w.lo if isinstance(w, LoopIR.Interval) else w.pt, self.range_env) for w in e.idx]
                    ivs = " ".join(flag(isinstance(w, LoopIR.Interval)) for w in e.idx)
                    b, syms = rec.bufty(self, e.name, typ)
                    syms = set(syms)
                    syms.add(e.name)
                    for c in los:
                        cir_syms(c, syms)
                    req = f"wsf|{ser_env(self.env, syms)}|{sym(e.name)}|{b}|" + " ; ".join(ser_cir(c) for c in los) + "|" + ivs
                    rec.add(req, f"ok {res[0]} @@ {res[1]}")
            except (NotModelled, AssertionError, KeyError):
                pass
            return res

        patch(Compiler, "window_struct_fields", window_struct_fields)

        # -- new_varname
        o_nv = Compiler.new_varname

        def new_varname(self, symbol, typ, mem=None):
            before = [dict(m) for m in self.names.maps]
            err = None
            try:
                res = o_nv(self, symbol, typ, mem)
            except ValueError as x:
                err = x
            try:
                rec.add_name_case(before, str(symbol), None if err else res, dict(self.names.maps[0]))
            except NotModelled:
                pass
            if err is not None:
                raise err
            return res

        patch(Compiler, "new_varname", new_varname)

        # -- Compiler.__init__ : non_const
        o_init = Compiler.__init__

        def __init__(self, proc, ctxt_name, *, is_public_decl):
            try:
                o_init(self, proc, ctxt_name, is_public_decl=is_public_decl)
            finally:
                try:
                    if hasattr(self, "non_const"):
                        exp = " ; ".join(sorted({sym(s) for s in self.non_const}))
                        rec.add("nc|" + ser_kstmts(proc.body), exp)
                except NotModelled:
                    pass

        patch(Compiler, "__init__", __init__)

        # -- MemoryAnalysis.run
        o_run = MA.MemoryAnalysis.run

        def run(self, proc):
            res = o_run(self, proc)
            try:
                rec.add("mem|" + ser_mstmts(proc.body), ser_mstmts(res.body))
            except NotModelled:
                pass
            return res

        patch(MA.MemoryAnalysis, "run", run)

    def add_name_case(self, before, name, res, after_top):
        def layer(d):
            for k, v in d.items():
                if not re.fullmatch(r"\w+", k) or not re.fullmatch(r"\w+", v):
                    raise NotModelled("name chars")
            return ",".join(f"{k}={v}" for k, v in d.items())

        req = "name|" + " / ".join(layer(d) for d in before) + "|" + name
        if res is None:
            self.add(req, "err ValueError")
        else:
            self.add(req, f"ok {res}|" + ",".join(f"{k}={v}" for k, v in sorted(after_top.items())))

    def uninstall(self):
        for obj, name, old in reversed(self._undo):
            setattr(obj, name, old)
        self._undo = []


# ---------------------------------------------------------------------------------- C expression evaluator
class CEvalError(Exception):
    pass


def c_eval(text, val, strides):
    """value of an emitted C index expression: C precedence, truncating / and %, exo_floor_div as
    the helper is written.  val: {c name: int}, strides: {(c name, dim): int}"""
    toks = re.findall(r"\s*(exo_floor_div|[A-Za-z_]\w*\.strides\[\d+\]|[A-Za-z_]\w*|\d+|[-+*/%(),])", text)
    if "".join(toks).replace(" ", "") != text.replace(" ", ""):
        raise CEvalError("tokenise")
    pos = [0]

    def peek():
        return toks[pos[0]] if pos[0] < len(toks) else None

    def eat(t=None):
        x = peek()
        if x is None or (t is not None and x != t):
            raise CEvalError(f"expected {t} got {x}")
        pos[0] += 1
        return x

    def tdiv(a, b):
        if b == 0:
            raise CEvalError("div0")
        q = abs(a) // abs(b)
        return q if (a >= 0) == (b > 0) else -q

    def tmod(a, b):
        return a - b * tdiv(a, b)

    def atom():
        t = peek()
        if t == "(":
            eat("(")
            v = add()
            eat(")")
            return v
        if t == "-":
            eat("-")
            return -atom()
        if t == "exo_floor_div":
            eat()
            eat("(")
            a = add()
            eat(",")
            b = add()
            eat(")")
            off = 0 if a >= 0 else b - 1
            return tdiv(a - off, b)
        eat()
        if t is None:
            raise CEvalError("eof")
        if t.isdigit():
            return int(t)
        m = re.fullmatch(r"(\w+)\.strides\[(\d+)\]", t)
        if m:
            return strides[(m.group(1), int(m.group(2)))]
        if t in val:
            return val[t]
        raise CEvalError(f"unbound {t}")

    def mul():
        v = atom()
        while peek() in ("*", "/", "%"):
            op = eat()
            w = atom()
            v = v * w if op == "*" else (tdiv(v, w) if op == "/" else tmod(v, w))
        return v

    def add():
        v = mul()
        while peek() in ("+", "-"):
            op = eat()
            w = mul()
            v = v + w if op == "+" else v - w
        return v

    v = add()
    if pos[0] != len(toks):
        raise CEvalError("trailing")
    return v


# ---------------------------------------------------------------------------------- direct random cases
def random_cases(rec, rng, n_cir, n_names):
    """random CIR trees through the real simplify_cir / comp_cir (+ C value of the emitted text);
    random push / pop / new_varname sequences on a bare Compiler object"""
    LC, MA, LoopIR, CIR, T, Memory, IRE = _m()
    from exo.core.prelude import Sym

    syms = [Sym(n) for n in ("i", "j", "n", "i")]
    wsyms = [Sym("w"), Sym("x")]
    extra = []   # (kind, payload) checks done in python

    def gen(d):
        r = rng.random()
        if d <= 0 or r < 0.25:
            k = rng.random()
            if k < 0.45:
                return CIR.Read(rng.choice(syms), rng.random() < 0.5)
            if k < 0.9:
                return CIR.Const(rng.choice([0, 0, 1, 1, 2, 3, 4, 8, -1, -3, 5]))
            return CIR.Stride(rng.choice(wsyms), rng.randint(0, 2))
        if r < 0.35:
            return CIR.USub(gen(d - 1), rng.random() < 0.3)
        op = rng.choice(["+", "-", "*", "+", "-", "*", "/", "%"])
        lhs = gen(d - 1)
        if op in ("/", "%"):
            rhs = CIR.Const(rng.choice([1, 2, 2, 3, 4, 8, 0])) if rng.random() < 0.9 else gen(d - 2)
        else:
            rhs = gen(d - 1)
        return CIR.BinOp(op, lhs, rhs, rng.random() < 0.5)

    comp = LC.Compiler.__new__(LC.Compiler)
    comp._needed_helpers = set()
    env = {}
    for k, s in enumerate(syms + wsyms):
        env[s] = s.name() if k != 3 else "i_1"
    for _ in range(n_cir):
        e = gen(rng.randint(1, 4))
        try:
            s = LC.simplify_cir(e)     # recorded by the wrapper (recursively)
        except (AssertionError, ZeroDivisionError):
            continue
        try:
            ser = ser_cir(s)
        except NotModelled:
            continue
        prec = rng.choice([0, 0, 50, 51, 60, 61, 70, 100])
        try:
            text = comp.comp_cir(s, env, prec)   # recorded by the wrapper (recursively)
        except Exception:
            continue
        # value tie: C value of the real text == model's cEval (compAst s); reference value too
        val = {s_: rng.randint(-9, 9) for s_ in syms}
        sv = {(w, d): rng.randint(1, 5) for w in wsyms for d in range(3)}
        try:
            cv = c_eval(text, {env[k]: v for k, v in val.items()}, {(env[w], d): v for (w, d), v in sv.items()})
        except CEvalError:
            continue
        req = (f"ev|{ser}|" + " ; ".join(f"{sym(k)}={v}" for k, v in val.items()) + "|"
               + " ; ".join(f"{sym(w)} {d}={v}" for (w, d), v in sv.items()))
        rec.add(req, f"* {cv}")
    # names
    pool = ["i", "i", "i_1", "x", "x_1", "x_2", "x_01", "ctxt", "t_", "a_b", "a_b_9", "i_1_1"]
    for _ in range(n_names):
        c = LC.Compiler.__new__(LC.Compiler)
        c.names, c.env, c.envtyp, c.mems = ChainMap(), ChainMap(), {}, {}
        try:
            c.new_varname(Sym("ctxt"), None)
            for _step in range(rng.randint(3, 14)):
                r = rng.random()
                if r < 0.2:
                    c.names = c.names.new_child()
                    c.env = c.env.new_child()
                elif r < 0.3 and len(c.names.maps) > 1:
                    c.names = c.names.parents
                    c.env = c.env.parents
                else:
                    c.new_varname(Sym(rng.choice(pool)), None)
        except ValueError:
            pass
    return extra


def compare(req, exp, ans):
    """None if the model's answer matches the real result, else a description"""
    kind = req.split("|", 1)[0]
    if ans.startswith("BAD "):
        return f"driver rejected the request: {ans[:200]}"
    if kind == "simp" and ans == "err float":
        return None   # the real code produced a Python float constant (F10): nothing is modelled beyond
    if kind == "nc":
        got = " ; ".join(sorted(set(x.strip() for x in ans.split(";") if x.strip())))
        return None if got == exp else f"non_const: real {{{exp}}} model {{{got}}}"
    if kind == "ev":
        ref, cv = ans.split()
        want = exp.split()[1]
        return None if cv == want else f"C value of the emitted text {want}, model cEval {cv}"
    if kind in ("acc", "wsf") and ans == "err float":
        return None
    if kind == "acc" and exp == "err AssertionError" and ans == "none":
        return None   # the assert of get_idx_offset (length mismatch) surfaces as AssertionError
    if kind == "mem":
        ans, exp = " ".join(ans.split()), " ".join(exp.split())
    return None if ans == exp else f"real `{exp[:300]}` model `{ans[:300]}`"
