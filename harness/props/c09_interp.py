"""Footprint interpreter for C09: a Python transcription of lean/ExoModel/Sem.lean over the JSON
produced by harness/export_ir.py, which additionally records, for every dynamic instance of every
loop marked `par`, the cells each iteration reads / writes / reduces.

It is NOT an oracle: harness/props/c09.py compares its final heap / configuration / error with the
Lean reference interpreter (Drivers/Sem.lean) on every input it is used on, so what is trusted is
only the bookkeeping that attributes an access to the iterations that are active when it happens.

cells:  (buffer number, offset)  for heap cells,  ("cfg", config, field) for configuration fields.
Buffers allocated inside an iteration (buffer number >= heap length at iteration entry) are private
to it (the C code declares them inside the loop body) and are not recorded for that loop.
loop identity: (procedure name, path) with ExoModel.Par's path scheme: statement index in the
procedure body; below a loop the index in its body; below an `if` 0 (body) / 1 (orelse), then index.
"""
from __future__ import annotations

from fractions import Fraction


class Err(Exception):
    def __init__(self, kind):
        super().__init__(kind)
        self.kind = kind


class View:
    __slots__ = ("buf", "off", "dims")

    def __init__(self, buf, off, dims):
        self.buf, self.off, self.dims = buf, off, dims


def parse_rat(s):
    if s is None:
        return None
    if isinstance(s, int):
        return Fraction(s)
    if "/" in s:
        a, b = s.split("/")
        return Fraction(int(a), int(b))
    return Fraction(int(s))


def show_rat(f):
    if f is None:
        return None
    return str(f.numerator) if f.denominator == 1 else f"{f.numerator}/{f.denominator}"


def ext_rat(f, xs):
    if f == "relu" and len(xs) == 1:
        return xs[0] if xs[0] > 0 else Fraction(0)
    if f == "select" and len(xs) == 4:
        return xs[2] if xs[0] < xs[1] else xs[3]
    if f == "fmaxf" and len(xs) == 2:
        return xs[1] if xs[0] < xs[1] else xs[0]
    if f == "sin" and len(xs) == 1:
        return xs[0] * xs[0] - 3 * xs[0] + Fraction(1, 7)
    if f == "expf" and len(xs) == 1:
        return 2 * xs[0] * xs[0] + xs[0] + 1
    if f == "sigmoid" and len(xs) == 1:
        return xs[0] * xs[0] * xs[0] + Fraction(1, 2)
    if f == "sqrt" and len(xs) == 1:
        return xs[0] * xs[0] + 5 * xs[0]
    r = Fraction(1)
    for x in xs:
        r += x
    return r


class IterRec:
    """footprint of one iteration of one dynamic instance of a par loop"""
    __slots__ = ("hlen", "rd", "wr", "red")

    def __init__(self, hlen):
        self.hlen = hlen
        self.rd, self.wr, self.red = set(), set(), set()


class State:
    __slots__ = ("env", "views", "heap", "cfg")

    def __init__(self, env, views, heap, cfg):
        self.env, self.views, self.heap, self.cfg = env, views, heap, cfg


class FP:
    def __init__(self):
        self.active = []      # stack of IterRec (innermost last)
        self.instances = []   # [{"loop": (proc, path), "lo": l, "iters": [IterRec..]}]

    # ------------------------------------------------------------ recording
    def _rec(self, kind, cell):
        for it in self.active:
            if cell[0] != "cfg" and cell[0] >= it.hlen:
                continue
            getattr(it, kind).add(cell)

    # ------------------------------------------------------------ control
    def evalC(self, s, e):
        t = e[0]
        if t == "read":
            if e[2]:
                raise Err("unsupported")
            k = tuple(e[1])
            if k not in s.env:
                raise Err("scope")
            return s.env[k]
        if t == "int":
            return e[1]
        if t == "bool":
            return 1 if e[1] else 0
        if t == "data":
            raise Err("unsupported")
        if t == "usub":
            return -self.evalC(s, e[1])
        if t == "binop":
            x = self.evalC(s, e[2])
            y = self.evalC(s, e[3])
            op = e[1]
            if op == "+":
                return x + y
            if op == "-":
                return x - y
            if op == "*":
                return x * y
            if op == "/":
                if y <= 0:
                    raise Err("divZero")
                return x // y
            if op == "%":
                if y <= 0:
                    raise Err("divZero")
                return x % y
            if op == "<":
                return int(x < y)
            if op == ">":
                return int(x > y)
            if op == "<=":
                return int(x <= y)
            if op == ">=":
                return int(x >= y)
            if op == "==":
                return int(x == y)
            if op == "and":
                return int(x != 0 and y != 0)
            if op == "or":
                return int(x != 0 or y != 0)
            raise Err("unsupported")
        if t == "stride":
            k = tuple(e[1])
            if k not in s.views:
                raise Err("scope")
            d = s.views[k].dims
            if e[2] >= len(d):
                raise Err("unsupported")
            return d[e[2]][1]
        if t == "readcfg":
            k = (e[1], e[2])
            if k not in s.cfg:
                raise Err("scope")
            kind, v = s.cfg[k]
            if kind != "c":
                raise Err("unsupported")
            self._rec("rd", ("cfg", e[1], e[2]))
            return v
        raise Err("unsupported")

    def evalCs(self, s, es):
        return [self.evalC(s, e) for e in es]

    @staticmethod
    def view_offset(dims, idx, acc):
        if len(dims) != len(idx):
            # Lean: walks both lists; an index out of range met before the length mismatch wins
            for (ext, st), i in zip(dims, idx):
                if not (0 <= i < ext):
                    raise Err("oob")
            raise Err("unsupported")
        for (ext, st), i in zip(dims, idx):
            if not (0 <= i < ext):
                raise Err("oob")
            acc += i * st
        return acc

    def cell_of(self, s, v, idx):
        o = self.view_offset(v.dims, idx, v.off)
        if v.buf >= len(s.heap):
            raise Err("scope")
        if not (0 <= o < len(s.heap[v.buf])):
            raise Err("oob")
        return (v.buf, o)

    # ------------------------------------------------------------ data
    def evalD(self, s, e):
        t = e[0]
        if t == "read":
            k = tuple(e[1])
            if k not in s.views:
                raise Err("scope")
            idx = self.evalCs(s, e[2])
            c = self.cell_of(s, s.views[k], idx)
            self._rec("rd", c)
            return s.heap[c[0]][c[1]]
        if t == "data":
            return Fraction(e[1], e[2]) if e[2] != 0 else Fraction(0)
        if t == "int":
            return Fraction(e[1])
        if t == "bool":
            raise Err("unsupported")
        if t == "usub":
            v = self.evalD(s, e[1])
            return None if v is None else -v
        if t == "binop":
            x = self.evalD(s, e[2])
            y = self.evalD(s, e[3])
            op = e[1]
            if op not in ("+", "-", "*", "/"):
                raise Err("unsupported")
            if x is None or y is None:
                return None
            if op == "+":
                return x + y
            if op == "-":
                return x - y
            if op == "*":
                return x * y
            return Fraction(0) if y == 0 else x / y
        if t == "extern":
            vs = [self.evalD(s, a) for a in e[2]]
            if any(v is None for v in vs):
                return None
            return ext_rat(e[1], vs)
        if t == "readcfg":
            k = (e[1], e[2])
            if k not in s.cfg:
                raise Err("scope")
            kind, v = s.cfg[k]
            if kind != "d":
                raise Err("unsupported")
            self._rec("rd", ("cfg", e[1], e[2]))
            return v
        raise Err("unsupported")

    def apply_acc(self, s, accs, dims, off):
        if not accs and not dims:
            return off, []
        if not accs or not dims:
            raise Err("unsupported")
        a, (ext, st) = accs[0], dims[0]
        if a[0] == "pt":
            i = self.evalC(s, a[1])
            if not (0 <= i < ext):
                raise Err("oob")
            return self.apply_acc(s, accs[1:], dims[1:], off + i * st)
        lo = self.evalC(s, a[1])
        hi = self.evalC(s, a[2])
        if not (0 <= lo <= hi <= ext):
            raise Err("oob")
        o, r = self.apply_acc(s, accs[1:], dims[1:], off + lo * st)
        return o, [(hi - lo, st)] + r

    def evalView(self, s, e):
        t = e[0]
        if t == "read":
            k = tuple(e[1])
            if k not in s.views:
                raise Err("scope")
            v = s.views[k]
            if not e[2]:
                return v
            idx = self.evalCs(s, e[2])
            o = self.view_offset(v.dims, idx, v.off)
            return View(v.buf, o, [])
        if t == "win":
            k = tuple(e[1])
            if k not in s.views:
                raise Err("scope")
            v = s.views[k]
            o, ds = self.apply_acc(s, e[2], v.dims, v.off)
            return View(v.buf, o, ds)
        raise Err("unsupported")

    # ------------------------------------------------------------ statements
    def write_cell(self, s, x, idx_e, kind, val):
        k = tuple(x)
        if k not in s.views:
            raise Err("scope")
        idx = self.evalCs(s, idx_e)
        c = self.cell_of(s, s.views[k], idx)
        if kind == "wr":
            new = val
        else:
            old = s.heap[c[0]][c[1]]
            new = None if (old is None or val is None) else old + val
        self._rec(kind, c)
        s.heap[c[0]][c[1]] = new

    def scoped(self, s, body, pname, path, env=None):
        """execL body in a fresh scope (State.leave): names and buffers introduced are dropped"""
        hl = len(s.heap)
        inner = State(dict(s.env) if env is None else env, dict(s.views), s.heap, s.cfg)
        self.execL(inner, body, pname, path)
        del s.heap[hl:]

    def execL(self, s, body, pname, path):
        for k, st in enumerate(body):
            self.execS(s, st, pname, path + (k,))

    def execS(self, s, st, pname, path):
        t = st[0]
        if t == "assign":
            v = self.evalD(s, st[3])
            self.write_cell(s, st[1], st[2], "wr", v)
        elif t == "reduce":
            v = self.evalD(s, st[3])
            self.write_cell(s, st[1], st[2], "red", v)
        elif t == "writecfg":
            if st[4]:
                v = self.evalD(s, st[3])
                s.cfg[(st[1], st[2])] = ("d", v)
            else:
                v = self.evalC(s, st[3])
                s.cfg[(st[1], st[2])] = ("c", v)
            self._rec("wr", ("cfg", st[1], st[2]))
        elif t == "pass":
            pass
        elif t == "if":
            b = self.evalC(s, st[1])
            if b != 0:
                self.scoped(s, st[2], pname, path + (0,))
            else:
                self.scoped(s, st[3], pname, path + (1,))
        elif t == "for":
            lo = self.evalC(s, st[2])
            hi = self.evalC(s, st[3])
            if hi < lo:
                raise Err("badLoop")
            par = st[5]
            inst = None
            if par:
                inst = {"loop": (pname, path), "lo": lo, "iters": []}
                self.instances.append(inst)
            for v in range(lo, hi):
                env = dict(s.env)
                env[tuple(st[1])] = v
                if par:
                    it = IterRec(len(s.heap))
                    inst["iters"].append(it)
                    self.active.append(it)
                    try:
                        self.scoped(s, st[4], pname, path, env)
                    finally:
                        self.active.pop()
                else:
                    self.scoped(s, st[4], pname, path, env)
        elif t == "alloc":
            sh = self.evalCs(s, st[2])
            for e in sh:
                if e <= 0:
                    raise Err("nonPosSize")
            n = 1
            for e in sh:
                n *= e
            dims = []
            for i, e in enumerate(sh):
                stv = 1
                for r in sh[i + 1:]:
                    stv *= r
                dims.append((e, stv))
            s.views[tuple(st[1])] = View(len(s.heap), 0, dims)
            s.heap.append([None] * n)
        elif t == "free":
            pass
        elif t == "call":
            self.execP(s, st[1], st[2])
        elif t == "window":
            s.views[tuple(st[1])] = self.evalView(s, st[2])
        else:
            raise Err("unsupported")

    def execP(self, s, pj, args):
        fargs = pj["args"]
        if len(fargs) != len(args):
            raise Err("unsupported")
        ce, cv = {}, {}
        order = []
        for (x, ty), a in zip(fargs, args):
            if ty[0] == "ctrl":
                v = self.evalC(s, a)
                if ty[1] == "size" and v <= 0:
                    raise Err("nonPosSize")
                ce[tuple(x)] = v
            else:
                v = self.evalView(s, a)
                cv[tuple(x)] = v
                order.append(v)
        bufs = [v.buf for v in order]
        if len(set(bufs)) != len(bufs):
            raise Err("alias")
        sc = State(ce, cv, s.heap, s.cfg)
        check_shapes(self, sc, fargs)
        check_preds(self, sc, pj["preds"])
        hl = len(s.heap)
        self.execL(sc, pj["body"], pj["name"], ())
        del s.heap[hl:]


def check_shapes(fp, sc, fargs):
    for x, ty in fargs:
        k = tuple(x)
        if ty[0] == "tensor":
            sh = fp.evalCs(sc, ty[1])
            if k not in sc.views:
                raise Err("scope")
            if [d[0] for d in sc.views[k].dims] != sh:
                raise Err("shapeMismatch")
        elif ty[0] == "scalar":
            if k not in sc.views:
                raise Err("scope")
            if sc.views[k].dims:
                raise Err("shapeMismatch")


def check_preds(fp, sc, preds):
    for p in preds:
        if fp.evalC(sc, p) == 0:
            raise Err("assertFail")


def run(pj, inp):
    """-> ({"ok": {"heap","cfg"}} | {"err": kind}, [par-loop instances])"""
    fp = FP()
    env, views = {}, {}
    for (x, ty), a in zip(pj["args"], inp["args"]):
        if "c" in a:
            env[tuple(x)] = a["c"]
        else:
            v = a["v"]
            views[tuple(x)] = View(v["buf"], v["off"], [tuple(d) for d in v["dims"]])
    heap = [[parse_rat(c) for c in b] for b in inp["heap"]]
    cfg = {}
    order = []
    for c in inp["cfg"]:
        cfg[(c[0], c[1])] = ("c", c[3]) if c[2] == "c" else ("d", parse_rat(c[3]))
        order.append((c[0], c[1]))
    s = State(env, views, heap, cfg)
    try:
        hl = len(heap)
        fp.execL(s, pj["body"], pj["name"], ())
        del heap[hl:]
    except Err as e:
        return {"err": e.kind}, fp.instances
    except RecursionError:
        return {"err": "recursion"}, fp.instances
    out_cfg = [[k[0], k[1], v[0], v[1] if v[0] == "c" else show_rat(v[1])] for k, v in cfg.items()]
    return {"ok": {"heap": [[show_rat(c) for c in b] for b in heap], "cfg": out_cfg}}, fp.instances


def conflicts(inst):
    """first conflict of one par-loop instance: (i, j, cell, kind) — iteration i writes/reduces
    `cell`, iteration j != i touches it; None if pairwise disjoint (ExoModel.Par.RaceFree)"""
    iters = inst["iters"]
    touch = {}
    for j, it in enumerate(iters):
        for kind, cells in (("read", it.rd), ("write", it.wr), ("reduce", it.red)):
            for c in cells:
                touch.setdefault(c, []).append((j, kind))
    for i, it in enumerate(iters):
        for wkind, cells in (("write", it.wr), ("reduce", it.red)):
            for c in sorted(cells, key=repr):
                for (j, kind) in touch.get(c, ()):
                    if j != i:
                        return (i, j, c, f"{wkind}/{kind}")
    return None
