"""C14 — library instructions do what their Exo bodies say (src/exo/platforms/x86.py).

Parts
  0. translation: harness/translate/x86_instrs.py regenerates lean/ExoModel/Gen/X86Instrs.lean from the LIVE
     objects of exo.platforms.x86 (specification bodies, argument kinds, parsed C format strings, lane shapes)
  1. obligations: lake build + axiom audit of ExoModel.Props.C14 / C14B / C14C / C14D (one theorem per
     instruction about the REGENERATED terms).  A failed build is "broken obligations" when the generated text
     differs from the accepted baseline (a changed library), an infrastructure error otherwise; the failing
     instructions are read off the build log and searched harder (part 3)
  2. tie of the intrinsic models: every intrinsic modelled in lean/ExoModel/X86.lean is run through
     lean/Drivers/C14.lean and through gcc + the real CPU on the same random exact lanes / masks / memory
  3. search X (always, every instruction): harness/c14_exec.py — wrapper @proc calling the instruction on operands
     at random placements -> real exo compiler -> gcc (-O1, ASan+UBSan) -> CPU, against the Lean reference
     interpreter running the instruction's BODY on the same exact inputs.  A difference / compile failure /
     sanitizer report is a concrete violation (replay = wrapper source, generated C, inputs, both outputs).
     Model-level search: body vs parsed C fragment inside the Lean model on random admissible placements
     (finds an operand assignment for a broken theorem even when the C cannot be compiled).
"""
from __future__ import annotations

import hashlib
import json
import os
import random
import re
import subprocess
import sys
import tempfile
import time
from concurrent.futures import ThreadPoolExecutor
from fractions import Fraction
from pathlib import Path

from common import InfraError, LEAN, ROOT, REPLAY, lake_build, lean_audit, lean_batch, import_exo, declared_theorems, \
    strip_lean_comments, FORBIDDEN, ALLOWED_AXIOMS, lean_sources

sys.path.insert(0, str(ROOT / "harness" / "translate"))

PROP_MODULES = ["ExoModel.Props.C14", "ExoModel.Props.C14B", "ExoModel.Props.C14C", "ExoModel.Props.C14D"]
DRIVER = "Drivers/C14.lean"
GCC = ["gcc", "-O1", "-mavx2", "-mfma", "-mavx512f", "-mavx512bw", "-mavx512vl",
       "-fsanitize=address,undefined", "-fno-sanitize-recover=all", "-g0"]
TIE_GCC = ["gcc", "-O1", "-mavx2", "-mfma", "-mavx512f", "-mavx512bw", "-mavx512vl", "-fsanitize=address", "-g0"]
# differences that are a matter of number representation, not of the instruction (see docs/C14.md):
PRECISION_LABELS = {"non_multiple"}


# ============================================================================ theorems <-> instructions
def theorem_table():
    """{instruction: (module, theorem, kind)}; kind in proved | partial | init | refuted"""
    out = {}
    for m in PROP_MODULES:
        p = LEAN / (m.replace(".", "/") + ".lean")
        if not p.exists():
            continue
        src = strip_lean_comments(p.read_text())
        for mm in re.finditer(r"^theorem\s+(\w+)\s*:\s*(¬\s*)?(\w+)\s+(\w+)\.instr", src, re.M):
            thm, neg, pred, ins = mm.group(1), mm.group(2), mm.group(3), mm.group(4)
            if neg:
                kind = "refuted"
            elif thm.endswith("_partial"):
                kind = "partial"
            elif pred == "InstrCorrectInit":
                kind = "init"
            else:
                kind = "proved"
            out[ins] = (m, thm, kind)
    return out


def theorem_lines(module):
    """[(first line, last line, theorem name)] of a Props module (a failing line -> its theorem)"""
    p = LEAN / (module.replace(".", "/") + ".lean")
    lines = p.read_text().splitlines()
    starts = [(i + 1, re.match(r"\s*theorem\s+(\w+)", l).group(1)) for i, l in enumerate(lines)
              if re.match(r"\s*theorem\s+\w+", l)]
    out = []
    for k, (ln, nm) in enumerate(starts):
        end = starts[k + 1][0] - 1 if k + 1 < len(starts) else len(lines)
        out.append((ln, end, nm))
    return out


def failing_theorems(log):
    """theorem names (and non-theorem error lines) of the Props modules that the build log reports"""
    bad, other = {}, []
    for mm in re.finditer(r"error: (ExoModel/Props/(C14\w*)\.lean):(\d+):(\d+): (.*)", log):
        mod = "ExoModel.Props." + mm.group(2)
        ln = int(mm.group(3))
        hit = None
        for a, b, nm in theorem_lines(mod):
            if a <= ln <= b:
                hit = nm
        if hit:
            bad.setdefault(hit, mm.group(5)[:160])
        else:
            other.append(f"{mod}:{ln}: {mm.group(5)[:120]}")
    return bad, other


# ============================================================================ obligations
def obligations(ctx, infos, changed):
    targets = PROP_MODULES + ["ExoModel.AuditCmd"]
    ok, log = lake_build(targets)
    ctx.checker_cmds.append("cd lean && lake build " + " ".join(targets) + " && #audit_module (axioms of every theorem)")
    if ok:
        return ctx.lean_obligations(PROP_MODULES), {}
    failed_mods = set(re.findall(r"^- (ExoModel[\w.]*)", log, re.M))
    bad, other = failing_theorems(log)
    gen_failed = any("ExoModel.Gen.X86Instrs" in m or "ExoModel.X86" == m for m in failed_mods)
    if not changed:
        raise InfraError("lake build of the C14 modules failed although the generated instruction table equals the "
                         "accepted baseline:\n" + log[-2500:])
    ctx.extra["build_log_tail"] = log[-3000:]
    broken = []
    if gen_failed and not bad:
        # the generated file itself does not elaborate (e.g. a constructor the model lacks): every changed
        # instruction is a suspect
        for n in changed:
            bad[n + "_<generated-term>"] = "Gen/X86Instrs.lean does not elaborate"
    for m in PROP_MODULES:
        names = declared_theorems(LEAN / (m.replace(".", "/") + ".lean"))
        if m in failed_mods or gen_failed:
            for t in names:
                ctx.obligations[f"Exo.C14.{t}"] = False if t in bad else None
        else:
            found, missing = lean_audit(m)
            for name, axs in found.items():
                good = set(axs) <= ALLOWED_AXIOMS
                ctx.obligations[name] = good
                ctx.axioms[name] = axs
                if not good:
                    broken.append(f"axioms:{name}:{axs}")
            for w in missing:
                ctx.obligations[m + "." + w] = False
                broken.append(f"missing-theorem:{m}.{w}")
    # theorems of modules that failed to build but are not themselves reported: elaborated, not audited
    for k, v in list(ctx.obligations.items()):
        if v is None:
            ctx.obligations[k] = False
            ctx.count("obligation-not-audited (module failed to build)")
    for t, why in bad.items():
        broken.append(f"theorem:{t}")
    if other:
        ctx.extra["build_errors_outside_theorems"] = other[:10]
    return broken, bad


# ============================================================================ tie of the intrinsic models
# value kinds:  v8f v4d v16f v4f v2d (float vectors)  v16u (ui16 data)  i32x8 i64x4 i8x32 (integer vectors)
#               m32 m64 (float-typed sign masks given as integer bit patterns)  f d (scalars)  int k16 immK
#               pfN / pdN / puN (pointer into a buffer of N elements; value = (buffer, offset))
VEC = {"v8f": ("__m256", "float", 8, "_mm256_loadu_ps", "_mm256_storeu_ps"),
       "v4d": ("__m256d", "double", 4, "_mm256_loadu_pd", "_mm256_storeu_pd"),
       "v16f": ("__m512", "float", 16, "_mm512_loadu_ps", "_mm512_storeu_ps"),
       "v4f": ("__m128", "float", 4, "_mm_loadu_ps", "_mm_storeu_ps"),
       "v2d": ("__m128d", "double", 2, "_mm_loadu_pd", "_mm_storeu_pd")}
IVEC = {"i32x8": ("int32_t", 8, 32), "i64x4": ("int64_t", 4, 64), "i8x32": ("int8_t", 32, 8)}

TIE = [
    # (model name, C expression over {0},{1},.., argument kinds, result kind)
    ("mm256_setzero_ps", "_mm256_setzero_ps()", [], "v8f"),
    ("mm256_setzero_pd", "_mm256_setzero_pd()", [], "v4d"),
    ("mm512_setzero_ps", "_mm512_setzero_ps()", [], "v16f"),
    ("mm256_loadu_ps", "_mm256_loadu_ps({0})", ["pf12"], "v8f"),
    ("mm256_loadu_pd", "_mm256_loadu_pd({0})", ["pd8"], "v4d"),
    ("mm512_loadu_ps", "_mm512_loadu_ps({0})", ["pf20"], "v16f"),
    ("mm256_loadu_si256", "_mm256_loadu_si256((const __m256i *) {0})", ["pu20"], "v16u"),
    ("mm256_storeu_ps", "_mm256_storeu_ps({0}, {1})", ["pf12", "v8f"], "mem"),
    ("mm256_storeu_pd", "_mm256_storeu_pd({0}, {1})", ["pd8", "v4d"], "mem"),
    ("mm512_storeu_ps", "_mm512_storeu_ps({0}, {1})", ["pf20", "v16f"], "mem"),
    ("mm256_storeu_si256", "_mm256_storeu_si256((__m256i *) {0}, {1})", ["pu20", "v16u"], "mem"),
    ("mm256_fmadd_ps", "_mm256_fmadd_ps({0},{1},{2})", ["v8f", "v8f", "v8f"], "v8f"),
    ("mm256_fmadd_pd", "_mm256_fmadd_pd({0},{1},{2})", ["v4d", "v4d", "v4d"], "v4d"),
    ("mm512_fmadd_ps", "_mm512_fmadd_ps({0},{1},{2})", ["v16f", "v16f", "v16f"], "v16f"),
    ("mm256_broadcast_ss", "_mm256_broadcast_ss({0})", ["pf4"], "v8f"),
    ("mm256_broadcast_sd", "_mm256_broadcast_sd({0})", ["pd4"], "v4d"),
    ("mm256_set1_ps", "_mm256_set1_ps({0})", ["f"], "v8f"),
    ("mm256_set1_pd", "_mm256_set1_pd({0})", ["d"], "v4d"),
    ("mm512_set1_ps", "_mm512_set1_ps({0})", ["f"], "v16f"),
    ("mm256_mul_ps", "_mm256_mul_ps({0},{1})", ["v8f", "v8f"], "v8f"),
    ("mm256_mul_pd", "_mm256_mul_pd({0},{1})", ["v4d", "v4d"], "v4d"),
    ("mm256_div_ps", "_mm256_div_ps({0},{1})", ["v8f", "v8f:div"], "v8f"),
    ("mm256_div_pd", "_mm256_div_pd({0},{1})", ["v4d", "v4d:div"], "v4d"),
    ("mm256_add_ps", "_mm256_add_ps({0},{1})", ["v8f", "v8f"], "v8f"),
    ("mm256_add_pd", "_mm256_add_pd({0},{1})", ["v4d", "v4d"], "v4d"),
    ("mm256_sub_ps", "_mm256_sub_ps({0},{1})", ["v8f", "v8f"], "v8f"),
    ("mm256_sub_pd", "_mm256_sub_pd({0},{1})", ["v4d", "v4d"], "v4d"),
    ("mm512_add_ps", "_mm512_add_ps({0},{1})", ["v16f", "v16f"], "v16f"),
    ("mm256_adds_epu16", "_mm256_adds_epu16({0},{1})", ["v16u", "v16u"], "v16u"),
    ("mm512_mask_add_ps", "_mm512_mask_add_ps({0},{1},{2},{3})", ["v16f", "k16", "v16f", "v16f"], "v16f"),
    ("mm512_mask_fmadd_ps", "_mm512_mask_fmadd_ps({0},{1},{2},{3})", ["v16f", "k16", "v16f", "v16f"], "v16f"),
    ("mm512_maskz_loadu_ps", "_mm512_maskz_loadu_ps({0},{1})", ["k16", "pf20:end"], "v16f"),
    ("mm512_mask_storeu_ps", "_mm512_mask_storeu_ps({0},{1},{2})", ["pf20:end", "k16", "v16f"], "mem"),
    ("mm512_max_ps", "_mm512_max_ps({0},{1})", ["v16f", "v16f"], "v16f"),
    ("mm256_xor_ps_self", "_mm256_xor_ps({0},{0})", ["v8f"], "v8f"),
    ("mm256_blendv_ps", "_mm256_blendv_ps({0},{1},{2})", ["v8f", "v8f", "m32"], "v8f"),
    ("mm256_blendv_pd", "_mm256_blendv_pd({0},{1},{2})", ["v4d", "v4d", "m64"], "v4d"),
    ("mm256_cmp_ps", "_mm256_castps_si256(_mm256_cmp_ps({0},{1},_CMP_LT_OQ))", ["v8f", "v8f:tie", "cst"], "i32x8"),
    ("mm256_cmp_pd", "_mm256_castpd_si256(_mm256_cmp_pd({0},{1},_CMP_LT_OQ))", ["v4d", "v4d:tie", "cst"], "i64x4"),
    ("mm256_hadd_ps", "_mm256_hadd_ps({0},{1})", ["v8f", "v8f"], "v8f"),
    ("mm256_hadd_pd", "_mm256_hadd_pd({0},{1})", ["v4d", "v4d"], "v4d"),
    ("mm256_extractf128_ps", "_mm256_extractf128_ps({0},{1})", ["v8f", "imm01"], "v4f"),
    ("mm256_extractf128_pd", "_mm256_extractf128_pd({0},{1})", ["v4d", "imm01"], "v2d"),
    ("mm256_castps128_ps256", "_mm256_castps128_ps256({0})", ["v4f"], "v8f"),
    ("mm256_castpd128_pd256", "_mm256_castpd128_pd256({0})", ["v2d"], "v4d"),
    ("mm256_cvtss_f32", "_mm256_cvtss_f32({0})", ["v8f"], "f"),
    ("mm256_cvtsd_f64", "_mm256_cvtsd_f64({0})", ["v4d"], "d"),
    ("mm256_cvtps_pd", "_mm256_cvtps_pd({0})", ["v4f"], "v4d"),
    ("mm256_set_epi32", "_mm256_set_epi32({0},{1},{2},{3},{4},{5},{6},{7})", ["int"] * 8, "i32x8"),
    ("mm256_set1_epi32", "_mm256_set1_epi32({0})", ["int"], "i32x8"),
    ("mm256_set1_epi8", "_mm256_set1_epi8({0})", ["int8"], "i8x32"),
    ("mm256_cmpgt_epi32", "_mm256_cmpgt_epi32({0},{1})", ["i32x8", "i32x8:tie"], "i32x8"),
    ("mm256_castsi256_ps", "_mm256_castps_si256(_mm256_castsi256_ps({0}))", ["i32x8"], "i32x8"),
    ("mm256_maskload_ps", "_mm256_maskload_ps({0},{1})", ["pf12:end", "i32x8:mask"], "v8f"),
    ("mm256_maskstore_ps", "_mm256_maskstore_ps({0},{1},{2})", ["pf12:end", "i32x8:mask", "v8f"], "mem"),
    # a byte mask reinterpreted as 32-bit lanes (the construction of avx2_mask_storeu_ps)
    ("mm256_maskstore_ps", "_mm256_maskstore_ps({0},{1},{2})", ["pf12", "i8x32:set1", "v8f"], "mem"),
    ("mm_prefetch", "_mm_prefetch({0}, 1)", ["pf4", "imm1"], "mem"),
]


def rat(x):
    f = Fraction(x)
    return str(f.numerator) if f.denominator == 1 else f"{f.numerator}/{f.denominator}"


def rnd_f(rng):
    return Fraction(rng.randint(-16, 16), 2) if rng.random() < 0.3 else Fraction(rng.randint(-8, 8))


def c_float(x, ty):
    s = repr(float(x))
    return s + ("f" if ty == "float" else "")


class TieCase:
    def __init__(self, idx, spec, rng):
        self.idx = idx
        self.name, self.expr, self.kinds, self.ret = spec
        self.decl = []          # C declarations
        self.cargs = []         # C argument expressions
        self.margs = []         # model argument cvals
        self.heap = []          # model heap
        self.memvar = None      # (C array name, length, ctype) of the pointer argument
        prev = None
        for k, kind in enumerate(self.kinds):
            base, _, flag = kind.partition(":")
            v = f"a{idx}_{k}"
            if base in VEC:
                cty, ety, n, ld, _ = VEC[base]
                if flag == "div":
                    vals = [Fraction(rng.choice([1, -1, 2, -2, 4, -4])) if rng.random() < 0.8
                            else Fraction(rng.choice([1, -1]), 2) for _ in range(n)]
                else:
                    vals = [rnd_f(rng) for _ in range(n)]
                if flag == "tie" and prev is not None:
                    vals = [p if rng.random() < 0.3 else x for p, x in zip(prev, vals)]
                prev = vals
                self.decl.append(f"{ety} {v}_m[{n}] = {{{', '.join(c_float(x, ety) for x in vals)}}}; "
                                 f"{cty} {v} = {ld}({v}_m);")
                self.cargs.append(v)
                self.margs.append({"vec": [rat(x) for x in vals]})
            elif base == "v16u":
                vals = [rng.randint(0, 300) if rng.random() < 0.7 else rng.randint(0, 30000) for _ in range(16)]
                self.decl.append(f"uint16_t {v}_m[16] = {{{', '.join(map(str, vals))}}}; "
                                 f"__m256i {v} = _mm256_loadu_si256((const __m256i *) {v}_m);")
                self.cargs.append(v)
                self.margs.append({"vec": [str(x) for x in vals]})
            elif base in IVEC:
                ety, n, w = IVEC[base]
                lo, hi = -(1 << (w - 1)), (1 << (w - 1)) - 1
                if flag == "mask":
                    vals = [rng.choice([-1, 0, lo, hi, 5, -7]) for _ in range(n)]
                elif flag == "set1":
                    vals = [rng.choice([1, 3, 7, 127, -1, -128, 0])] * n
                else:
                    vals = [rng.choice([lo, hi, 0, -1]) if rng.random() < 0.2 else rng.randint(-9, 9) for _ in range(n)]
                if flag == "tie" and prev is not None:
                    vals = [p if rng.random() < 0.3 else x for p, x in zip(prev, vals)]
                prev = vals
                self.decl.append(f"{ety} {v}_m[{n}] = {{{', '.join(str(x) if x != lo else f'({x + 1} - 1)' for x in vals)}}}; "
                                 f"__m256i {v} = _mm256_loadu_si256((const __m256i *) {v}_m);")
                self.cargs.append(v)
                self.margs.append({"ivec": [w, vals]})
            elif base in ("m32", "m64"):
                w, n = (32, 8) if base == "m32" else (64, 4)
                ety = "int32_t" if w == 32 else "int64_t"
                lo, hi = -(1 << (w - 1)), (1 << (w - 1)) - 1
                vals = [rng.choice([-1, 0, lo, hi, 5, -7]) for _ in range(n)]
                cast = "_mm256_castsi256_ps" if w == 32 else "_mm256_castsi256_pd"
                cty = "__m256" if w == 32 else "__m256d"
                self.decl.append(f"{ety} {v}_m[{n}] = {{{', '.join(str(x) if x != lo else f'({x + 1} - 1)' for x in vals)}}}; "
                                 f"{cty} {v} = {cast}(_mm256_loadu_si256((const __m256i *) {v}_m));")
                self.cargs.append(v)
                self.margs.append({"ivec": [w, vals]})
            elif base in ("f", "d"):
                x = rnd_f(rng)
                ety = "float" if base == "f" else "double"
                self.cargs.append(c_float(x, ety))
                self.margs.append({"flt": rat(x)})
            elif base == "int":
                x = rng.choice([0, 1, -1, 7, 8, 2147483647, -2147483647, rng.randint(-20, 20)])
                self.cargs.append(f"({x})")
                self.margs.append({"int": x})
            elif base == "int8":
                x = rng.choice([0, 1, 3, 7, 15, 127, 128, 255, -1, 300, rng.randint(-200, 400)])
                self.cargs.append(f"({x})")
                self.margs.append({"int": x})
            elif base == "k16":
                n = rng.randint(0, 16)
                x = rng.choice([(1 << n) - 1, rng.getrandbits(16), rng.getrandbits(20), 0, 0xFFFF])
                self.cargs.append(f"({x})")
                self.margs.append({"int": x})
            elif base == "imm01":
                x = rng.randint(0, 1)
                self.cargs.append(str(x))
                self.margs.append({"int": x})
            elif base == "imm1":
                self.cargs.append("1")
                self.margs.append({"int": 1})
            elif base == "cst":
                self.cargs.append("_CMP_LT_OQ")
                self.margs.append({"cst": "_CMP_LT_OQ"})
            elif base[0] == "p":
                ety, bits = {"f": ("float", 32), "d": ("double", 64), "u": ("uint16_t", 16)}[base[1]]
                n = int(base[2:])
                width = {"mm256_loadu_ps": 8, "mm256_storeu_ps": 8, "mm256_loadu_pd": 4, "mm256_storeu_pd": 4,
                         "mm512_loadu_ps": 16, "mm512_storeu_ps": 16, "mm256_loadu_si256": 16,
                         "mm256_storeu_si256": 16, "mm512_maskz_loadu_ps": 16, "mm512_mask_storeu_ps": 16,
                         "mm256_maskload_ps": 8, "mm256_maskstore_ps": 8}.get(self.name, 1)
                off = rng.randint(0, n - width)
                if flag == "end":
                    # masked accesses: the window may stick out of the buffer where the mask is clear
                    off = rng.randint(0, n - 1)
                if ety == "uint16_t":
                    vals = [rng.randint(0, 500) for _ in range(n)]
                    self.decl.append(f"{ety} *{v}_m = malloc({n} * sizeof({ety})); "
                                     + " ".join(f"{v}_m[{i}] = {x};" for i, x in enumerate(vals)))
                else:
                    vals = [rnd_f(rng) for _ in range(n)]
                    self.decl.append(f"{ety} *{v}_m = malloc({n} * sizeof({ety})); "
                                     + " ".join(f"{v}_m[{i}] = {c_float(x, ety)};" for i, x in enumerate(vals)))
                self.cargs.append(f"({v}_m + {off})")
                self.margs.append({"ptr": [0, off, bits]})
                self.heap = [[rat(x) for x in vals]]
                self.memvar = (f"{v}_m", n, ety)
                self.off = off
            else:
                raise InfraError(f"tie: unknown kind {kind}")

    def fix_masked_window(self):
        """masked accesses through a window that sticks out of the buffer: clear the mask bits of the lanes
        outside (the real instruction does not touch them; ASan would still be right to complain otherwise)"""
        if self.memvar is None or ":end" not in " ".join(self.kinds):
            return
        n = self.memvar[1]
        room = n - self.off
        for k, kind in enumerate(self.kinds):
            if kind == "k16":
                x = self.margs[k]["int"] & ((1 << min(room, 16)) - 1)
                self.margs[k] = {"int": x}
                self.cargs[k] = f"({x})"
            if kind == "i32x8:mask":
                vals = self.margs[k]["ivec"][1]
                vals = [x if i < room else (x & 0x7FFFFFFF if x != -2147483648 else 0) for i, x in enumerate(vals)]
                self.margs[k] = {"ivec": [32, vals]}
                v = f"a{self.idx}_{k}"
                self.decl = [d for d in self.decl if not d.startswith(f"int32_t {v}_m")]
                self.decl.append(f"int32_t {v}_m[8] = {{{', '.join(map(str, vals))}}}; "
                                 f"__m256i {v} = _mm256_loadu_si256((const __m256i *) {v}_m);")

    def c_code(self):
        self.fix_masked_window()
        call = self.expr.format(*self.cargs)
        out = ["{"] + self.decl
        pr = f'printf("{self.idx}");'
        if self.ret == "mem":
            var, n, ety = self.memvar
            out.append(f"{call};")
            fmt = "%u" if ety == "uint16_t" else "%.17g"
            cast = "(unsigned)" if ety == "uint16_t" else "(double)"
            out.append(pr + f' for (int i = 0; i < {n}; i++) printf(" {fmt}", {cast}{var}[i]); printf("\\n");')
        elif self.ret in VEC:
            cty, ety, n, _, st = VEC[self.ret]
            out.append(f"{cty} r = {call}; {ety} rm[{n}]; {st}(rm, r);")
            out.append(pr + f' for (int i = 0; i < {n}; i++) printf(" %.17g", (double) rm[i]); printf("\\n");')
        elif self.ret == "v16u":
            out.append(f"__m256i r = {call}; uint16_t rm[16]; _mm256_storeu_si256((__m256i *) rm, r);")
            out.append(pr + ' for (int i = 0; i < 16; i++) printf(" %u", (unsigned) rm[i]); printf("\\n");')
        elif self.ret in IVEC:
            ety, n, _ = IVEC[self.ret]
            out.append(f"__m256i r = {call}; {ety} rm[{n}]; _mm256_storeu_si256((__m256i *) rm, r);")
            out.append(pr + f' for (int i = 0; i < {n}; i++) printf(" %lld", (long long) rm[i]); printf("\\n");')
        elif self.ret in ("f", "d"):
            out.append(f"double r = (double) {call};")
            out.append(pr + ' printf(" %.17g\\n", r);')
        if self.memvar:
            out.append(f"free({self.memvar[0]});")
        out.append("}")
        return "\n".join(out)

    def request(self):
        return json.dumps({"op": "intr", "name": self.name, "args": self.margs, "heap": self.heap},
                          separators=(",", ":"))

    def compare(self, c_tokens, ans):
        """c_tokens: printed values; ans: driver answer.  None if equal else description"""
        if "err" in ans or "bad" in ans:
            return f"model: {ans}"
        if self.ret == "mem":
            want = ans["heap"][0]
        elif "val" in ans:
            v = ans["val"]
            want = v.get("vec") or (v.get("ivec") or [None, None])[1] or ([v["flt"]] if "flt" in v else None)
            if want is None:
                return f"model returned {v}"
        else:
            return f"model returned {ans}"
        # the cast intrinsics widen: the model's lanes beyond the defined ones are `null`
        if len(want) != len(c_tokens):
            return f"{len(c_tokens)} lanes from the CPU, {len(want)} from the model"
        for i, (c, m) in enumerate(zip(c_tokens, want)):
            if m is None:
                continue
            try:
                cv = Fraction(int(c)) if re.fullmatch(r"-?\d+", c) else Fraction(float(c))
            except (ValueError, OverflowError):
                return f"lane {i}: CPU {c}, model {m}"
            if cv != Fraction(m):
                return f"lane {i}: CPU {c}, model {m}"
        return None


def tie_intrinsics(ctx, workdir):
    per = ctx.scale(5, 30)
    cases = []
    for spec in TIE:
        for _ in range(per):
            cases.append(TieCase(len(cases), spec, ctx.rng))
    nchunks = 8
    chunks = [cases[k::nchunks] for k in range(nchunks)]

    def build_run(k):
        src = ["#include <immintrin.h>", "#include <stdio.h>", "#include <stdlib.h>", "#include <stdint.h>",
               "int main(void) {"] + [c.c_code() for c in chunks[k]] + ["return 0; }"]
        cfile = Path(workdir) / f"tie{k}.c"
        cfile.write_text("\n".join(src))
        exe = Path(workdir) / f"tie{k}"
        p = subprocess.run(TIE_GCC + ["-o", str(exe), str(cfile)], capture_output=True, text=True, timeout=900)
        if p.returncode != 0:
            raise InfraError("tie: gcc failed:\n" + p.stderr[-1500:])
        r = subprocess.run([str(exe)], capture_output=True, text=True, timeout=300,
                           env=dict(os.environ, ASAN_OPTIONS="detect_leaks=0"))
        if r.returncode != 0:
            raise InfraError("tie: test program failed:\n" + r.stderr[-1500:])
        return r.stdout

    with ThreadPoolExecutor(max_workers=nchunks) as pool:
        outs = list(pool.map(build_run, range(nchunks)))
    lines = {}
    for out in outs:
        for ln in out.splitlines():
            t = ln.split()
            lines[int(t[0])] = t[1:]
    answers = lean_batch(DRIVER, [c.request() for c in cases])
    bad = []
    for c, a in zip(cases, answers):
        d = c.compare(lines.get(c.idx, []), json.loads(a))
        ctx.count("tie:intrinsic-cases")
        ctx.evaluated(("tie", c.name, c.request()[:400]))
        if d is not None:
            bad.append({"intrinsic": c.name, "what": d, "c": c.c_code(), "model_request": json.loads(c.request()),
                        "model_answer": json.loads(a)})
    ctx.extra["tie_intrinsics"] = {"intrinsics": len({s[0] for s in TIE}), "cases": len(cases), "mismatches": len(bad)}
    if bad:
        ctx.extra["tie_mismatches"] = bad[:5]
        raise InfraError("the Lean lane model of an intrinsic disagrees with gcc + CPU (fix lean/ExoModel/X86.lean): "
                         + json.dumps(bad[0])[:1500])


# ============================================================================ model-level search
def model_states(info, rng, n):
    """random admissible-looking placements for an instruction (from the driver's `list` answer)"""
    out = []
    args = info["args"]
    for _ in range(n):
        cv, pl, heap = {}, {}, []
        lanes = max([int(k[4:]) for _, k in args if k.startswith("vreg")] + [8])
        nval = rng.choice([1, 1, 2, lanes - 1, lanes, rng.randint(1, lanes)])
        for name, kind in args:
            if kind == "ctrl":
                cv[name] = nval
        for name, kind in args:
            if kind == "ctrl":
                continue
            off = rng.choice([0, 0, 1, 3])
            blen = off + 16 + rng.randint(0, 3)
            if rng.random() < 0.3:
                blen = off + lanes          # window at the very end (over-wide accesses become errors)
            heap.append([rat(rnd_f(rng)) for _ in range(blen)])
            pl[name] = [len(heap) - 1, off, 1]
        out.append({"cv": cv, "pl": pl, "heap": heap})
    return out


def model_search(ctx, listed, kinds_by_instr, names=None, per=None):
    """body vs parsed C fragment INSIDE the model.  Returns {instr: first differing request}"""
    per = per or ctx.scale(6, 30)
    reqs, meta = [], []
    for info in listed:
        if names is not None and info["name"] not in names:
            continue
        for st in model_states(info, ctx.rng, per):
            reqs.append(json.dumps({"op": "instr", "name": info["name"], **st}, separators=(",", ":")))
            meta.append(info["name"])
    if not reqs:
        return {}
    answers = lean_batch(DRIVER, reqs)
    diff = {}
    for nm, rq, a in zip(meta, reqs, answers):
        a = json.loads(a)
        if "bad" in a:
            raise InfraError(f"C14 driver rejected a request: {a}")
        if not a.get("adm"):
            ctx.count("model:state-not-admissible")
            continue
        ctx.count("model:admissible-states")
        ctx.evaluated(("model", nm, hashlib.sha1(rq.encode()).hexdigest()))
        if a["body"] != a["c"]:
            ctx.count("model:body≠c")
            diff.setdefault(nm, {"request": json.loads(rq), "body": a["body"], "c": a["c"]})
    return diff


# ============================================================================ verdicts of the executor
def rec_label(rec):
    for k in ("beyond_lanes", "overflow", "non_multiple", "no_vector_header", "runtime_size", "two_calls",
              "name_capture"):
        if rec.get("params", {}).get(k):
            return k
    return None


def rec_key(rec):
    st = rec["status"].split(":")[0]
    lab = rec_label(rec)
    return f"{rec['instr']}:{lab}" if lab else f"{rec['instr']}:{st}"


def rec_replay(rec):
    return {"instr": rec["instr"], "case": rec["case"], "status": rec["status"], "detail": rec["detail"],
            "params": rec.get("params"), "wrapper_src": rec["wrapper_src"], "c_src": rec.get("c_src"),
            "inputs": rec.get("inputs"), "expected": rec.get("expected"), "got": rec.get("got"),
            "how": "harness/c14_exec.py: replay(exo, this record) re-runs wrapper_src on inputs"}


def judge_records(ctx, recs):
    """-> {instr: worst status}; reports violations"""
    per = {}
    for r in recs:
        st = r["status"]
        lab = rec_label(r)
        if st.startswith("infra_error"):
            raise InfraError(f"search X: {r['instr']}#{r['case']}: {r['detail']}")
        ctx.count(f"exec:{st.split(':')[0]}" + (f"[{lab}]" if lab else ""))
        n_in = max(1, len(r.get("inputs") or []))
        if st == "ok":
            ctx.evaluated((r["instr"], r["case"], json.dumps(r.get("params", {}), sort_keys=True, default=str)[:300]),
                          n=n_in)
            per.setdefault(r["instr"], "ok")
            continue
        ctx.evaluated((r["instr"], r["case"], st), n=n_in)
        if lab in PRECISION_LABELS:
            ctx.count(f"precision-only:{r['instr']}:{lab}")
            continue
        if lab is None:
            per[r["instr"]] = st
        what = f"{r['instr']}: {st}" + (f" [{lab}]" if lab else "") + " — " + " ".join(str(r["detail"]).split())[:220]
        key = rec_key(r)
        if ctx._known(key) is not None:
            # keep a recorded instance of every known finding next to the other replays
            path = REPLAY / f"{ctx.prop_id}_{re.sub(r'[^A-Za-z0-9_.-]+', '_', key)[:80]}.json"
            if not path.exists():
                REPLAY.mkdir(exist_ok=True)
                path.write_text(json.dumps({"property": ctx.prop_id, "key": key, "what": what, "seed": ctx.seed,
                                            "tier": ctx.tier, "known_finding": True,
                                            "rerun": f"./check {ctx.prop_id} --replay {path}",
                                            "replay": rec_replay(r)}, indent=1, default=str))
        ctx.violation(key, what, rec_replay(r))
    return per


# ============================================================================ run
def run(ctx):
    exo = import_exo()
    import x86_instrs as tr
    import c14_exec

    ctx.rule = ("every @instr of exo.platforms.x86 × wrapper procedures placing its operands at random window offsets / "
                "strides / register-array rows, all admissible size values (boundaries first) × random exact inputs "
                "(small integers, halves; divisors ±1,±2,±4,±1/2; ui16 0..200); a case is distinct by (instruction, "
                "placement, sizes, inputs); plus per modelled intrinsic random lanes/masks/memory windows against "
                "gcc+CPU; plus random admissible placements of body vs C fragment inside the Lean model")
    ctx.assumptions += [
        "data values form a commutative ring (LawfulDataAlg); f32/f64/ui16 rounding, FMA's single rounding, ui16 "
        "saturation/wrap and truncating ui16 division are outside the property: executed inputs are exact",
        "operands are at most one-dimensional windows (true of every instruction in x86.py; checked by checkShapes)",
        "theorems for select (blendv+cmp) assume initialised operand cells (InstrCorrectInit)",
        "the host CPU + gcc 12 implement the Intel intrinsics (the lane models are tied to them by execution)",
    ]
    ctx.trusted += [
        "harness/translate/x86_instrs.py (exporter of bodies, parser of the C format strings, argument kinds) — "
        "its body output is re-checked by `rfl` against LaneLoop.toBody; its C parse is tied by search X agreeing "
        "with the theorems",
        "lean/ExoModel/X86.lean: lane models of the intrinsics and the placeholder semantics mirroring "
        "LoopIR_compiler.py:923-947 + Memory.window (modelled, tied by execution, not verified)",
        "lean/ExoModel/Sem.lean reference semantics (run by Drivers/Sem.lean as the oracle of search X)",
        "gcc 12 -O1 with ASan/UBSan, the host CPU",
    ]

    if ctx.replay:
        data = json.loads(Path(ctx.replay).read_text())
        rec = data.get("replay") or {}
        if "wrapper_src" not in rec:
            raise InfraError("this replay file carries no executable record (a broken theorem without failing input)")
        r = c14_exec.replay(exo, rec)
        print(f"replay {rec['instr']}#{rec['case']}: {r['status']}: {' '.join(str(r['detail']).split())[:300]}")
        judge_records(ctx, [r])
        return

    # ---- 0. translation
    try:
        text, infos = tr.generate(exo)
    except BaseException as e:  # noqa: BLE001  a mutated library may fail to import / export
        if isinstance(e, (KeyboardInterrupt, SystemExit)):
            raise
        ctx.violation("x86:translation", f"exo.platforms.x86 cannot be imported/exported: {type(e).__name__}: {e}"[:300],
                      {"exception": type(e).__name__, "message": str(e)[:2000]}, no_input=True)
        return
    rewritten = tr.write_if_changed(text)
    changed = tr.changed_instrs(infos)
    thms = theorem_table()
    names = [i["name"] for i in infos]
    ctx.extra["generated"] = {"file": str(tr.OUT.relative_to(ROOT)), "rewritten": rewritten,
                              "instructions": len(infos), "changed_wrt_baseline": changed,
                              "opaque_statements": sum(i["n_opaque"] for i in infos),
                              "unknown_intrinsics": sorted({u for i in infos for u in i["unknown"]}),
                              "no_lane_shape": [i["name"] for i in infos if not i["lane"]]}
    for n in changed:
        ctx.count("instruction-differs-from-baseline")

    # ---- 3a. search X runs in the background (gcc + CPU) while Lean builds / audits
    exec_rng = random.Random(ctx.rng.getrandbits(64))
    jobs = max(2, min(8, (os.cpu_count() or 8) // 2))
    bg = ThreadPoolExecutor(max_workers=1)
    t0 = time.time()
    exec_fut = bg.submit(lambda: (c14_exec.search(exo, exec_rng, cases_per_instr=ctx.scale(2, 4),
                                                  inputs_per_case=ctx.scale(3, 6), jobs=jobs), time.time() - t0))

    # ---- 1. obligations
    try:
        broken, bad_thms = obligations(ctx, infos, changed)
    except BaseException:
        bg.shutdown(wait=True, cancel_futures=True)
        raise

    with tempfile.TemporaryDirectory(prefix="c14_") as wd:
        # ---- 2. tie
        listed = None
        try:
            tie_intrinsics(ctx, wd)
            listed = json.loads(lean_batch(DRIVER, ['{"op":"list"}'])[0])["instrs"]
        except InfraError:
            if not bad_thms and not broken:
                exec_fut.result()
                bg.shutdown()
                raise
            # the generated file does not build: the driver cannot run either; go on with the executor
            ctx.count("driver-unavailable (generated file does not build)")

        # ---- 3. search
        model_diff = {}
        try:
            if listed is not None:
                model_diff = model_search(ctx, listed, None)
        finally:
            recs, exec_wall = exec_fut.result()
            bg.shutdown()
        ctx.extra["exec_search"] = {"cases": len(recs), "wall_s": round(exec_wall, 1)}
        per = judge_records(ctx, recs)

        if listed is not None:
            # the model must agree with the theorems: proved => never differs, refuted => differs somewhere
            for nm, (mod, thm, kind) in thms.items():
                if kind != "refuted" and nm in model_diff and thm not in bad_thms:
                    # only possible if a `_partial` side condition is violated by the sampled state
                    if kind == "partial":
                        ctx.count(f"model:partial-theorem-outside-its-condition:{nm}")
                    else:
                        raise InfraError(f"model search contradicts theorem {thm}: {json.dumps(model_diff[nm])[:800]}")

        # ---- broken theorems: look harder for a failing operand assignment
        for t in sorted(bad_thms):
            ins = next((n for n in names if t.startswith(n + "_")), None)
            kind = "refuted" if t.endswith("_refuted") else "correct"
            if ins is None:
                ctx.violation(f"theorem:{t}", f"theorem {t} no longer holds and names no current instruction",
                              {"theorem": t, "error": bad_thms[t]}, no_input=True)
                continue
            if kind == "refuted":
                # a recorded counterexample no longer works: the library changed for this instruction
                ctx.count(f"stale-refutation:{ins}")
                ctx.extra.setdefault("stale_refutations", []).append(ins)
                continue
            more = c14_exec.search(exo, random.Random(ctx.rng.getrandbits(64)), names=[ins],
                                   cases_per_instr=ctx.scale(6, 12), inputs_per_case=ctx.scale(6, 10),
                                   jobs=min(16, os.cpu_count() or 8))
            per2 = judge_records(ctx, more)
            found = per.get(ins, "ok") != "ok" or per2.get(ins, "ok") != "ok"
            md = model_diff.get(ins)
            if md is None and listed is not None:
                md = model_search(ctx, listed, None, names=[ins], per=60).get(ins)
            if found:
                ctx.count("broken-theorem:failing-input-found-by-execution")
            elif md is not None:
                ctx.violation(f"{ins}:model-diff",
                              f"{ins}: theorem {t} broke; in the Lean model the C fragment and the body differ on a "
                              f"concrete placement (execution found no difference)", md)
            else:
                ctx.violation(f"{ins}:theorem-broken",
                              f"{ins}: theorem {t} no longer holds for the regenerated instruction "
                              f"({bad_thms[t][:120]})", {"theorem": t, "error": bad_thms[t],
                                                          "generated": next(i for i in infos if i["name"] == ins)},
                              no_input=True)
        for b in broken:
            if not b.startswith("theorem:"):
                ctx.violation(f"obligation:{b}"[:120], f"obligation broken: {b}", {"obligation": b}, no_input=True)

    # ---- coverage table
    cov = {}
    for i in infos:
        n = i["name"]
        if n in thms:
            mod, thm, kind = thms[n]
            state = kind if thm not in bad_thms else "BROKEN"
        else:
            thm, state = None, "search only"
        cov[n] = {"theorem": thm, "status": state, "exec": per.get(n, "not run"),
                  "opaque": i["n_opaque"], "unknown_intrinsics": i["unknown"]}
        ctx.count(f"coverage:{state}")
    ctx.extra["coverage_table"] = cov
    if changed:
        # leave the accepted generated file behind (the next run regenerates from the live library anyway)
        tr.restore_baseline()
    ctx.extra["search_only"] = [n for n, c in cov.items() if c["status"] == "search only"]
