"""C15 — shared pieces of the check (also imported by the worker processes).

  * Exporter          real LoopIR procedures  ->  the wire format of Drivers/C15.lean
  * real verdicts     `compile_procs_to_strings` (exception -> (proc, class, n)) and the per-procedure
                      stage verdicts obtained by running the REAL PrecisionAnalysis / WindowAnalysis /
                      MemoryAnalysis / Compiler classes one after the other
  * skeletons         small caller/callee programs and the annotation sites that are assigned
                      exhaustively with the REAL set_precision / set_memory / set_window / call_eqv
  * python spec       `consistent(prog, tab)` : the declarative predicate `Consistent` of
                      Props/C15.lean, written independently over the exported program
  * gcc               `gcc -fsyntax-only …` on a (c, h) pair
"""
from __future__ import annotations

import hashlib
import itertools
import json
import os
import re
import subprocess
import sys
import tempfile
import traceback

P6 = ["R", "f16", "f32", "f64", "i8", "i32"]
M7 = ["DRAM", "DRAM_STACK", "DRAM_STATIC", "AVX2", "AVX512", "T_WO", "T_RO"]


class Unsupported(Exception):
    pass


# ------------------------------------------------------------------------------------------------
# exporter
# ------------------------------------------------------------------------------------------------
_GRID = {
    (): "scalar", ("4",): "c4", ("8",): "c8", ("16",): "c16", ("n",): "sym",
    ("2", "8"): "c2x8", ("2", "16"): "c2x16", ("n", "8"): "symx8", ("n", "16"): "symx16",
}


class Exporter:
    def __init__(self, mem_names):
        from exo.core.LoopIR import LoopIR, T

        self.L, self.T = LoopIR, T
        self.mem_names = set(mem_names)

    def sym(self, s):
        return f"{s.name()}_{s._id}"

    def shape(self, t):
        T = self.T
        if isinstance(t, T.Window):
            return ["w", len(t.as_tensor.shape())]
        if isinstance(t, T.Tensor):
            return ["w" if t.is_window else "d", len(t.hi)]
        if t.is_real_scalar():
            return "s"
        raise Unsupported(f"shape of {t}")

    def prec(self, t):
        return str(t.basetype())

    def mem(self, m):
        from exo.core.memory import DRAM

        m = m or DRAM
        n = m.name()
        if n not in self.mem_names:
            raise Unsupported(f"memory {n}")
        return n

    def e(self, x):
        L = self.L
        if isinstance(x, L.Read):
            if x.type.is_numeric():
                return ["read", self.sym(x.name), self.shape(x.type)]
            return ["ctrl"]
        if isinstance(x, L.WindowExpr):
            return ["window", self.sym(x.name), self.shape(x.type)]
        if isinstance(x, L.Const):
            if x.type.is_real_scalar():
                return ["const", self.prec(x.type)]
            return ["ctrl"]
        if isinstance(x, L.USub):
            return ["usub", self.e(x.arg)] if x.type.is_numeric() else ["ctrl"]
        if isinstance(x, L.BinOp):
            return ["binop", self.e(x.lhs), self.e(x.rhs)] if x.type.is_numeric() else ["ctrl"]
        if isinstance(x, L.Extern):
            return ["extern", [self.e(a) for a in x.args]]
        if isinstance(x, L.StrideExpr):
            return ["ctrl"]
        if isinstance(x, L.ReadConfig):
            if x.type.is_numeric():
                raise Unsupported("numeric config read")
            return ["ctrl"]
        raise Unsupported(type(x).__name__)

    def alloc_shape(self, t):
        pat = []
        for d in t.shape():
            if isinstance(d, self.L.Const):
                pat.append(str(d.val))
            else:
                pat.append("n")
        k = _GRID.get(tuple(pat))
        if k is None:
            raise Unsupported(f"alloc shape {pat} outside the grid")
        return k

    def s(self, st, idx_of):
        L = self.L
        if isinstance(st, L.Pass):
            return ["pass"]
        if isinstance(st, (L.Assign, L.Reduce)):
            return ["assign" if isinstance(st, L.Assign) else "reduce", self.sym(st.name), self.e(st.rhs)]
        if isinstance(st, L.Call):
            return ["call", idx_of[id(st.f)], [self.e(a) for a in st.args]]
        if isinstance(st, L.For):
            return ["for", [self.s(b, idx_of) for b in st.body]]
        if isinstance(st, L.If):
            return ["if", [self.s(b, idx_of) for b in st.body], [self.s(b, idx_of) for b in st.orelse]]
        if isinstance(st, L.Alloc):
            return ["alloc", self.sym(st.name), self.prec(st.type), self.mem(st.mem), self.shape(st.type),
                    self.alloc_shape(st.type)]
        if isinstance(st, L.WindowStmt):
            return ["win", self.sym(st.name), self.e(st.rhs)]
        raise Unsupported(type(st).__name__)

    def proc(self, p, idx_of):
        params = []
        for a in p.args:
            if a.type.is_numeric():
                params.append([self.sym(a.name), "data", self.prec(a.type), self.mem(a.mem), self.shape(a.type)])
            else:
                params.append([self.sym(a.name), "ctrl"])
        body = [] if p.instr is not None else [self.s(b, idx_of) for b in p.body]
        return {"name": p.name, "instr": p.instr is not None, "params": params, "body": body}

    def program(self, root_irs):
        """closure of the call graph: procs in dependency order + the order of find_all_subprocs"""
        from exo.backend.LoopIR_compiler import find_all_subprocs, LoopIR_SubProcs

        allp = find_all_subprocs(list(root_irs))
        topo, seen = [], set()

        def visit(p):
            if id(p) in seen:
                return
            seen.add(id(p))
            for q in sorted(LoopIR_SubProcs(p).result(), key=lambda q: (q.name, id(q))):
                visit(q)
            topo.append(p)

        for p in allp:
            visit(p)
        idx_of = {id(p): i for i, p in enumerate(topo)}
        procs = [self.proc(p, idx_of) for p in topo]
        return {"procs": procs, "order": [idx_of[id(p)] for p in allp]}


# ------------------------------------------------------------------------------------------------
# real verdicts
# ------------------------------------------------------------------------------------------------
def _proc_of_tb(tb):
    name = None
    while tb is not None:
        fr = tb.tb_frame
        if fr.f_code.co_name == "compile_to_strings" and "p" in fr.f_locals:
            try:
                name = fr.f_locals["p"].name
            except Exception:
                pass
        tb = tb.tb_next
    return name


def _last_frame(tb):
    last = None
    while tb is not None:
        last = tb.tb_frame
        tb = tb.tb_next
    return last


def classify_exc(e):
    """exception of the real compiler -> (class, n)"""
    cn = type(e).__name__
    msg = str(e)
    if cn == "TypeError":
        if msg.startswith("Errors occurred during precision checking"):
            return "precision", len([l for l in msg.split("\n")[1:] if l.strip()])
        if "expected a non-window tensor" in msg:
            return "window", 0
        if "expected argument in" in msg and "but got an argument in" in msg:
            return "memory", 0
        if "multiple procs named" in msg:
            return "dupName", 0
        return "exc:TypeError", 0
    if cn == "MemGenError":
        if "cannot read from buffer" in msg:
            return "read", 0
        if "cannot write to buffer" in msg:
            return "write", 0
        if "cannot reduce to buffer" in msg:
            return "reduce", 0
        if "Cannot generate static memory in non-leaf procs" in msg:
            return "staticMem", 0
        fr = _last_frame(e.__traceback__)
        if fr is not None and fr.f_code.co_name == "alloc":
            return "alloc", 0
        return "exc:MemGenError", 0
    if cn in ("AssertionError", "KeyError"):
        fr = _last_frame(e.__traceback__)
        if fr is not None and fr.f_code.co_name == "window" and fr.f_code.co_filename.endswith("memories.py"):
            return "memwindow-assert", 0
        return "crash", 0
    return "exc:" + cn, 0


def prec_kinds(e):
    out = []
    for l in str(e).split("\n")[1:]:
        if "cannot compute operation" in l:
            out.append("binop")
        elif "all extern arguments must have a same type" in l:
            out.append("extern")
        elif "expected precision" in l:
            out.append("call")
        elif l.strip():
            out.append("?")
    return out


def real_compile(procs):
    """-> (verdict, c, h); verdict = ["ok"] | ["err", proc, class, n]"""
    from exo.API import compile_procs_to_strings

    try:
        c, h = compile_procs_to_strings(list(procs), "c15.h")
        return ["ok"], c, h
    except BaseException as e:  # noqa
        if isinstance(e, (KeyboardInterrupt, SystemExit)):
            raise
        cls, n = classify_exc(e)
        return ["err", _proc_of_tb(e.__traceback__), cls, n], None, None


def real_stages(ir):
    """the four stages on ONE LoopIR proc through the real classes -> {"prec":[kinds], "stages":[4]}"""
    from exo.backend.prec_analysis import PrecisionAnalysis
    from exo.backend.win_analysis import WindowAnalysis
    from exo.backend.mem_analysis import MemoryAnalysis
    from exo.backend.parallel_analysis import ParallelAnalysis
    from exo.backend.LoopIR_compiler import Compiler

    res = {"name": ir.name, "prec": [], "stages": ["skip"] * 4}
    p = ir
    steps = [
        lambda p: PrecisionAnalysis().run(ParallelAnalysis().run(p)),
        lambda p: WindowAnalysis().apply_proc(p),
        lambda p: MemoryAnalysis().run(p),
        lambda p: (Compiler(p, "void", is_public_decl=True), p)[1],
    ]
    for i, f in enumerate(steps):
        try:
            p = f(p)
            res["stages"][i] = "ok"
        except BaseException as e:  # noqa
            if isinstance(e, (KeyboardInterrupt, SystemExit)):
                raise
            cls, _ = classify_exc(e)
            res["stages"][i] = cls
            if i == 0 and cls == "precision":
                res["prec"] = prec_kinds(e)
            elif i == 0:
                res["prec"] = ["crash"] if cls == "crash" else ["?" + cls]
            break
    return res


# ------------------------------------------------------------------------------------------------
# python spec : Consistent  (independent of the Lean text; same definition in words)
# ------------------------------------------------------------------------------------------------
def consistent(prog, tab):
    """-> sorted list of violated components among
         precision:expr, precision:call, memory, window, window:stale, cap:read, cap:write, cap:reduce
       ([] = consistent).  `window:stale` marks a window/dense violation whose argument node carries a
       non-window annotation although the variable is declared a window (the `Fresh` hypothesis fails)."""
    default = tab["default"]
    caps = tab["caps"]
    supers = tab["supers"]
    bad = set()

    def dflt(p):
        return default if p == "R" else p

    def is_win(sh):
        return sh != "s" and sh[0] == "w"

    def is_dense(sh):
        return sh != "s" and sh[0] == "d"

    def leaf_precs(env, e):
        t = e[0]
        if t in ("read", "window"):
            d = env.get(e[1])
            return [dflt(d[0])] if d else []
        if t == "const":
            return [] if e[1] == "R" else [e[1]]
        if t == "usub":
            return leaf_precs(env, e[1])
        if t == "binop":
            return leaf_precs(env, e[1]) + leaf_precs(env, e[2])
        if t == "extern":
            return [q for a in e[1] for q in leaf_precs(env, a)]
        return []

    def direct_reads(e):
        t = e[0]
        if t == "read":
            return [e[1]]
        if t == "usub":
            return direct_reads(e[1])
        if t == "binop":
            return direct_reads(e[1]) + direct_reads(e[2])
        if t == "extern":
            return [q for a in e[1] for q in direct_reads(a)]
        return []

    def stmts(env, body, procs):
        for st in body:
            t = st[0]
            if t in ("assign", "reduce"):
                if len(set(leaf_precs(env, st[2]))) > 1:
                    bad.add("precision:expr")
                for x in direct_reads(st[2]):
                    d = env.get(x)
                    if d and not caps[d[1]]["read"]:
                        bad.add("cap:read")
                d = env.get(st[1])
                if d and not caps[d[1]]["write" if t == "assign" else "reduce"]:
                    bad.add("cap:write" if t == "assign" else "cap:reduce")
            elif t == "call":
                callee = procs[st[1]]
                for a, p in zip(st[2], callee["params"]):
                    if p[1] != "data":
                        continue
                    if a[0] not in ("read", "window"):
                        bad.add("call:non-buffer-argument")
                        continue
                    d = env.get(a[1])
                    if d is None:
                        bad.add("call:unbound-argument")
                        continue
                    if dflt(d[0]) != dflt(p[2]):
                        bad.add("precision:call")
                    if p[3] not in supers[d[1]]:
                        bad.add("memory")
                    if is_dense(p[4]) and (a[0] == "window" or is_win(d[2])):
                        if a[0] == "read" and not is_win(a[2]):
                            bad.add("window:stale")
                        else:
                            bad.add("window")
            elif t == "for":
                stmts(env, st[1], procs)
            elif t == "if":
                stmts(env, st[1], procs)
                stmts(env, st[2], procs)
            elif t == "alloc":
                env[st[1]] = (st[2], st[3], st[4])
            elif t == "win":
                a = st[2]
                d = env.get(a[1]) if a[0] in ("read", "window") else None
                if d:
                    env[st[1]] = (d[0], d[1], a[2])

    for p in prog["procs"]:
        if p["instr"]:
            continue
        env = {}
        for q in p["params"]:
            if q[1] == "data":
                env[q[0]] = (q[2], q[3], q[4])
        stmts(env, p["body"], prog["procs"])
    return sorted(bad)


# ------------------------------------------------------------------------------------------------
# skeletons
# ------------------------------------------------------------------------------------------------
def dom(precs=P6, mems=M7, wins=(False, True)):
    return [(p, m, w) for p in precs for m in mems for w in wins]


FULL = dom()
ALLOC_FULL = dom(wins=(False,))
SMALL = dom(precs=["f32", "f64"])
SMALL2 = dom(precs=["f32", "f64"], mems=["DRAM", "DRAM_STACK", "AVX2", "T_WO", "T_RO"])
MID = dom(precs=["R", "f32", "f64", "i8"])
TINY = dom(precs=["R", "f32", "f64"], mems=["DRAM", "AVX2", "T_RO"])
TINY2 = dom(precs=["f32", "f64"], mems=["DRAM", "T_RO"])

CALL_BODIES = {
    "none": "b[i] = 1.0",
    "read": "b[i] = a[i]",
    "write": "a[i] = b[i]",
    "reduce": "a[i] += b[i]",
}

EXPR_FORMS = {
    "mul_add_const": "z[i] = x[i] * y[i] + 2.0",
    "reduce_neg": "z[i] += -x[i] + y[i]",
    "select": "z[i] = select(x[i], y[i], 1.0, x[i])",
    "extern_in_binop": "z[i] = sin(x[i]) * 3.0 + y[i]",
    "const_left": "z[i] = (1.0 + 2.0) * x[i] - y[i]",
}


def skeletons(quick):
    """list of dict(name, src, order (bottom-up proc names), top, sites [(proc, var, domain)],
    calls [(caller, callee)])"""
    out = []
    for cal in ("aaa_sub", "zzz_sub"):
        for bk, body in CALL_BODIES.items():
            full = (cal == "aaa_sub" and bk == "none")
            d = FULL if full else (SMALL2 if quick else MID)
            out.append(dict(
                name=f"call1/{bk}/{cal}",
                src=f'''
@proc
def {cal}(n: size, a: f32[n], b: f32[n]):
    for i in seq(0, n):
        {body}

@proc
def mmm(n: size, x: f32[n], y: f32[n]):
    {cal}(n, x, y)
''',
                order=[cal, "mmm"], top="mmm",
                sites=[("mmm", "x", d), (cal, "a", d)],
                calls=[("mmm", cal)],
            ))
    for fk, form in EXPR_FORMS.items():
        full = (fk == "mul_add_const")
        if full:
            d = FULL if not quick else dom(mems=["DRAM", "DRAM_STACK", "AVX2", "T_WO"])
        else:
            d = SMALL2 if quick else MID
        out.append(dict(
            name=f"expr/{fk}",
            src=f'''
@proc
def ex(n: size, x: f32[n], y: f32[n], z: f32[n]):
    for i in seq(0, n):
        {form}
''',
            order=["ex"], top="ex",
            sites=[("ex", "x", d), ("ex", "y", d)],
            calls=[],
        ))
    # destination precision / memory of an assignment and of a reduction
    out.append(dict(
        name="assign/dst",
        src='''
@proc
def asg(n: size, x: f32[n], z: f32[n], r: f32[n]):
    for i in seq(0, n):
        z[i] = x[i] * 2.0
        r[i] += x[i]
''',
        order=["asg"], top="asg",
        sites=[("asg", "x", SMALL2 if not quick else dom(precs=["f32", "f64"], mems=["DRAM", "AVX2", "T_WO"], wins=(False,))),
               ("asg", "z", FULL if not quick else dom(wins=(False,))),
               ("asg", "r", dom(precs=["f32"], wins=(False,)))],
        calls=[],
    ))
    # allocation: precision x memory of the buffer, written, read, passed on
    for shp, ext in (("c8", "8"), ("c16", "16")):
        out.append(dict(
            name=f"alloc/{shp}",
            src=f'''
@proc
def leaf(a: f32[{ext}], b: f32[{ext}]):
    for i in seq(0, {ext}):
        b[i] = 1.0

@proc
def top(x: f32[{ext}], y: f32[{ext}]):
    t: f32[{ext}]
    for i in seq(0, {ext}):
        t[i] = x[i]
    for i in seq(0, {ext}):
        y[i] += t[i]
    leaf(t, y)
''',
            order=["leaf", "top"], top="top",
            sites=[("top", "t", ALLOC_FULL), ("leaf", "a", FULL if shp == "c8" or not quick else SMALL2)],
            calls=[("top", "leaf")],
        ))
    out.append(dict(
        name="alloc/pass_only",
        src='''
@proc
def leaf(a: f32[8], b: f32[8]):
    for i in seq(0, 8):
        b[i] = 1.0

@proc
def top(y: f32[8]):
    t: f32[8]
    leaf(t, y)
''',
        order=["leaf", "top"], top="top",
        sites=[("top", "t", ALLOC_FULL), ("leaf", "a", FULL if not quick else SMALL2)],
        calls=[("top", "leaf")],
    ))
    out.append(dict(
        name="alloc/scalar",
        src='''
@proc
def leaf(a: f32, b: f32[8]):
    for i in seq(0, 8):
        b[i] = a

@proc
def top(x: f32[8], y: f32[8]):
    t: f32
    t = x[0]
    leaf(t, y)
''',
        order=["leaf", "top"], top="top",
        sites=[("top", "t", ALLOC_FULL), ("leaf", "a", dom(wins=(False,)))],
        calls=[("top", "leaf")],
    ))
    # depth 2, windows made by a window statement / expression
    for wk, wr in (("ro", "pass"), ("wr", "w[0] = 1.0")):
        for lk, lbody in (("rd", "b[i] = a[i]"), ("wr", "a[i] = b[i]")):
            out.append(dict(
                name=f"depth2/{wk}/{lk}",
                src=f'''
@proc
def leaf(n: size, a: f32[n], b: f32[n]):
    for i in seq(0, n):
        {lbody}

@proc
def mid(n: size, u: f32[n], v: f32[n]):
    leaf(n, u, v)

@proc
def top(n: size, x: f32[n + 1], y: f32[n]):
    assert n >= 1
    w = x[1:n + 1]
    {wr}
    mid(n, w, y)
''',
                order=["leaf", "mid", "top"], top="top",
                sites=[("top", "x", TINY if not quick else TINY2), ("mid", "u", TINY if not quick else TINY2),
                       ("leaf", "a", TINY if not quick else TINY2)],
                calls=[("mid", "leaf"), ("top", "mid")],
            ))
    # window expression passed directly; window parameter passed on (F9 shape)
    for lk, lbody in (("rd", "b[i] = a[i]"), ("wr", "a[i] = b[i]")):
        out.append(dict(
            name=f"winexpr/{lk}",
            src=f'''
@proc
def leaf(n: size, a: f32[n], b: f32[n]):
    for i in seq(0, n):
        {lbody}

@proc
def top(n: size, x: f32[2 * n], y: f32[n]):
    leaf(n, x[n:2 * n], y)
''',
            order=["leaf", "top"], top="top",
            sites=[("top", "x", MID if not quick else SMALL2), ("leaf", "a", MID if not quick else SMALL2)],
            calls=[("top", "leaf")],
        ))
        out.append(dict(
            name=f"winparam-written/{lk}",
            src=f'''
@proc
def leaf(n: size, a: f32[n], b: f32[n]):
    for i in seq(0, n):
        {lbody}

@proc
def top(n: size, x: f32[n], y: f32[n]):
    for i in seq(0, n):
        x[i] = 1.0
    leaf(n, x, y)
''',
            order=["leaf", "top"], top="top",
            sites=[("top", "x", SMALL if not quick else SMALL2), ("leaf", "a", SMALL if not quick else SMALL2)],
            calls=[("top", "leaf")],
        ))
    return out


def n_assignments(sk):
    n = 1
    for _, _, d in sk["sites"]:
        n *= len(d)
    return n


def assignment_at(sk, k):
    """k-th element of the product of the site domains (mixed radix, last site fastest)"""
    out = []
    for _, _, d in reversed(sk["sites"]):
        out.append(d[k % len(d)])
        k //= len(d)
    return list(reversed(out))


class Built:
    """a parsed skeleton + memoised application of annotations with the real scheduling API"""

    def __init__(self, sk):
        from exo_build import build_module, procs_of, HEADER
        from translate.c15_mems import HEADER_EXTRA

        self.sk = sk
        self.mod = build_module(sk["src"], header=HEADER + HEADER_EXTRA)
        self.base = procs_of(self.mod)
        self.memo = {}

    def mems(self):
        import exo.libs.memories as lm
        from exo import DRAM
        from translate.c15_mems import fixture_memories

        d = {"DRAM": DRAM}
        for k in ("DRAM_STACK", "DRAM_STATIC", "AVX2", "AVX512"):
            d[k] = getattr(lm, k)
        d.update(fixture_memories())
        return d

    def annotate(self, pname, proc, site_vals):
        from exo.stdlib.scheduling import set_precision, set_memory, set_window

        M = self.mems()
        for var, (prec, mem, win) in site_vals:
            if prec != "f32":
                proc = set_precision(proc, var, prec)
            if mem != "DRAM":
                proc = set_memory(proc, var, M[mem])
            if win:
                proc = set_window(proc, var, True)
        return proc

    def apply(self, assignment):
        """-> dict proc name -> annotated Procedure (callers re-pointed with call_eqv)"""
        from exo.stdlib.scheduling import call_eqv

        sk = self.sk
        by_proc = {}
        for (pn, var, _), val in zip(sk["sites"], assignment):
            by_proc.setdefault(pn, []).append((var, val))
        res = {}
        keys = {}
        for pn in sk["order"]:
            callees = [c for (caller, c) in sk["calls"] if caller == pn]
            key = (pn, tuple(by_proc.get(pn, [])), tuple(keys[c] for c in callees))
            keys[pn] = key
            if key in self.memo:
                res[pn] = self.memo[key]
                continue
            p = self.annotate(pn, self.base[pn], by_proc.get(pn, []))
            for c in callees:
                if res[c] is not self.base[c]:
                    p = call_eqv(p, f"{c}(_)", res[c])
            if len(self.memo) > 20000:
                self.memo.clear()
            self.memo[key] = p
            res[pn] = p
        return res


def source_with_annotations(sk, assignment):
    """the same assignment written in the source text (fresh type annotations everywhere)"""
    src = sk["src"]
    for (pn, var, _), (prec, mem, win) in zip(sk["sites"], assignment):
        # locate `def pn(` ... and the declaration `var: f32…` inside that proc's text
        m = re.search(rf"def {re.escape(pn)}\(", src)
        nxt = src.find("@proc", m.end())
        seg_end = nxt if nxt >= 0 else len(src)
        seg = src[m.start():seg_end]

        def repl(mm):
            dims = mm.group(2) or ""
            if win and dims:
                t = f"[{prec}]{dims}"
            else:
                t = f"{prec}{dims}"
            return f"{mm.group(1)}{t} @ {mem}"

        seg2, k = re.subn(rf"(\b{re.escape(var)}: )f32(\[[^\]]*\])?", repl, seg, count=1)
        if k != 1:
            raise Unsupported(f"site {pn}.{var} not found in source")
        src = src[:m.start()] + seg2 + src[seg_end:]
    return src


# ------------------------------------------------------------------------------------------------
# gcc
# ------------------------------------------------------------------------------------------------
GCC_FLAGS = ["-fsyntax-only", "-Wall", "-Werror=incompatible-pointer-types", "-Werror=int-conversion",
             "-Werror=implicit-function-declaration"]
VEC_FLAGS = ["-mavx2", "-mfma", "-mavx512f"]


def gcc_check(c, h, workdir, stem):
    """-> (ok, first error line, full stderr tail)"""
    d = os.path.join(workdir, stem)
    os.makedirs(d, exist_ok=True)
    with open(os.path.join(d, "c15.h"), "w") as f:
        f.write(h)
    with open(os.path.join(d, "c15.c"), "w") as f:
        f.write(c)
    flags = list(GCC_FLAGS)
    if "immintrin.h" in c or "immintrin.h" in h:
        flags += VEC_FLAGS
    p = None
    for attempt in range(2):
        try:
            p = subprocess.run(["gcc", *flags, "-I", d, os.path.join(d, "c15.c")], capture_output=True,
                               text=True, timeout=600)
            break
        except subprocess.TimeoutExpired:
            p = None
    if p is None:
        return None, "timeout", ""
    if p.returncode == 0:
        return True, "", ""
    errs = [l for l in p.stderr.split("\n") if " error: " in l or "fatal error" in l]
    first = errs[0] if errs else p.stderr.strip().split("\n")[0]
    first = re.sub(r"^.*?c15\.[ch]:\d+:\d+: ", "", first)
    return False, first, p.stderr[-1500:]


C_KEYWORDS = {
    "auto", "break", "case", "char", "const", "continue", "default", "do", "double", "else", "enum", "extern",
    "float", "for", "goto", "if", "inline", "int", "long", "register", "restrict", "return", "short", "signed",
    "sizeof", "static", "struct", "switch", "typedef", "union", "unsigned", "void", "volatile", "while",
    "_Bool", "_Complex", "_Imaginary",
}


def exo_bound_names(src):
    """names bound in an Exo source text (procedures, arguments, allocations, loop iterators)"""
    names = set(re.findall(r"^\s*for\s+(\w+)\s+in\b", src, re.M))
    names |= set(re.findall(r"^\s*def\s+(\w+)\s*\(", src, re.M))
    for m in re.finditer(r"^\s*def\s+\w+\s*\((.*?)\)\s*:\s*$", src, re.M | re.S):
        names |= set(re.findall(r"(\w+)\s*:", m.group(1)))
    names |= set(re.findall(r"^\s+(\w+)\s*:\s*[\[\w]", src, re.M))
    names |= set(re.findall(r"^\s+(\w+)\s*=\s*\w+\[", src, re.M))
    return names


VECTOR_MEMS = {"AVX2", "AVX512"}


def _vector_buffer_passed(prog):
    """does some call pass a buffer that lives in a vector-register memory?"""
    if not prog:
        return False

    def walk(env, body):
        for st in body:
            t = st[0]
            if t == "call":
                for a in st[2]:
                    if a[0] in ("read", "window") and env.get(a[1]) in VECTOR_MEMS:
                        return True
            elif t == "for":
                if walk(env, st[1]):
                    return True
            elif t == "if":
                if walk(env, st[1]) or walk(env, st[2]):
                    return True
            elif t == "alloc":
                env[st[1]] = st[3]
            elif t == "win":
                a = st[2]
                if a[0] in ("read", "window") and a[1] in env:
                    env[st[1]] = env[a[1]]
        return False

    for p in prog["procs"]:
        env = {q[0]: q[3] for q in p["params"] if q[1] == "data"}
        if walk(env, p["body"]):
            return True
    return False


def classify_gcc(first, stderr, c_text, prog=None):
    """key of a gcc failure: one key per ROOT CAUSE; anything unrecognised gets a key made of gcc's message"""
    s = stderr.replace("\u2018", "'").replace("\u2019", "'")
    first = first.replace("\u2018", "'").replace("\u2019", "'")
    if "array subscript is not an integer" in s:
        return "codegen:index-constant-folded-with-float-division"
    m = re.search(r"expected 'struct (exo_win_\w+)' but argument is of type 'struct (exo_win_\w+)'", s)
    if m and (m.group(1) == m.group(2) + "c" or m.group(2) == m.group(1) + "c"):
        return "codegen:window-variable-const-struct-mismatch-at-call"
    if re.search(r"expected '[^']*\*'(?: \{aka '[^']*'\})? but argument is of type 'struct exo_win_\w+'", s):
        return "set_window:stale-read-type:window-passed-as-dense-tensor"
    if re.search(r"(array size missing in|storage size of) '\w+'", s) and re.search(r"^\s*(static )?\w+ \w+\[\];", c_text, re.M):
        return "codegen:scalar-alloc-in-DRAM_STACK-or-DRAM_STATIC"
    if _vector_buffer_passed(prog) and ("incompatible" in first):
        return "codegen:vector-memory-buffer-passed-to-non-instr-proc"
    return "gcc:" + re.sub(r"'[^']*'", "'_'", first)[:100]


def text_hash(c, h):
    return hashlib.sha1((c + "\0" + h).encode()).hexdigest()[:16]


# ------------------------------------------------------------------------------------------------
# worker entry (ProcessPoolExecutor, fork)
# ------------------------------------------------------------------------------------------------
_W = {}


def worker_chunk(args):
    """(skeleton index, quick, [k…], mem_names) -> list of records"""
    si, quick, ks, mem_names = args
    try:
        sks = _W.get("sks")
        if sks is None or _W.get("quick") != quick:
            sks = skeletons(quick)
            _W["sks"], _W["quick"], _W["built"] = sks, quick, {}
        sk = sks[si]
        b = _W["built"].get(si)
        if b is None:
            b = Built(sk)
            _W["built"][si] = b
        ex = Exporter(mem_names)
        out = []
        seen_txt = _W.setdefault("seen_txt", set())
        for k in ks:
            asg = assignment_at(sk, k)
            rec = {"sk": sk["name"], "k": k, "asg": asg}
            try:
                procs = b.apply(asg)
            except BaseException as e:  # noqa
                if isinstance(e, (KeyboardInterrupt, SystemExit)):
                    raise
                rec["sched_exc"] = type(e).__name__ + ": " + str(e)[:200]
                out.append(rec)
                continue
            top = procs[sk["top"]]
            try:
                prog = ex.program([top._loopir_proc])
            except Unsupported as u:
                rec["unsupported"] = str(u)
                out.append(rec)
                continue
            rec["prog"] = prog
            v, c, h = real_compile([top])
            rec["real"] = v
            from exo.backend.LoopIR_compiler import find_all_subprocs

            irs = {id(p): p for p in find_all_subprocs([top._loopir_proc])}
            # per-proc stages in the order of prog["procs"]
            per = []
            smemo = _W.setdefault("stage_memo", {})
            if len(smemo) > 50000:
                smemo.clear()
            name_to_ir = {}
            for p in irs.values():
                name_to_ir.setdefault(p.name, []).append(p)
            for pj in prog["procs"]:
                cands = name_to_ir.get(pj["name"], [])
                if len(cands) == 1 and not pj["instr"]:
                    ir = cands[0]
                    hit = smemo.get(id(ir))
                    if hit is None or hit[0] is not ir:
                        hit = (ir, real_stages(ir))      # the IR object is kept alive with its verdict
                        smemo[id(ir)] = hit
                    per.append(hit[1])
                else:
                    per.append(None)
            rec["per"] = per
            if c is not None:
                hh = text_hash(c, h)
                rec["hash"] = hh
                if hh not in seen_txt:
                    seen_txt.add(hh)
                    rec["c"], rec["h"] = c, h
            out.append(rec)
        return out
    except BaseException as e:  # noqa
        if isinstance(e, (KeyboardInterrupt, SystemExit)):
            raise
        return [{"worker_exc": traceback.format_exc()[-3000:]}]
