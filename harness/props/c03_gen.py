"""Generator of Exo source texts for property C03 (memory- and call-safety of accepted procedures).

Programs are built *valid by construction* with a small affine interval reasoner (sizes >= 1,
loop variables inside their ranges, asserted bounds), so that most of them are accepted by the
front end and contain non-trivial accesses (offsets at both edges of the extents, windows, windows
of windows, calls through windows, guards, asserts, / and % indices).  A near-miss variant corrupts
exactly one site (offset one past the feasible range, a dropped assert, a window one cell too
long, a wrong size argument, an aliased call, a loop with hi < lo, ...).

`gen_program(rng, nm)` -> dict(src=..., target=name, kind=label, nm=near-miss kind or None,
                               nm_used=bool)
All callees live in PRELUDE (accepted by the unchanged front end); the generated module defines
them first and the target last.
"""
from __future__ import annotations

PRELUDE = '''
@proc
def fill(n: size, a: [f32][n]):
    for i in seq(0, n):
        a[i] = 1.0

@proc
def cp(n: size, dst: [f32][n], src: [f32][n]):
    for i in seq(0, n):
        dst[i] = src[i]

@proc
def third(n: size, a: [f32][n]):
    assert n > 2
    a[2] = 3.0

@proc
def unit(n: size, a: [f32][n]):
    assert stride(a, 0) == 1
    a[n - 1] = 2.0

@proc
def acc(n: size, a: [f32][n], out: f32):
    for i in seq(0, n):
        out += a[i]

@proc
def mat(n: size, m: size, A: [f32][n, m]):
    for i in seq(0, n):
        for j in seq(0, m):
            A[i, j] = 0.0

@proc
def edge(n: size, k: index, a: [f32][n]):
    assert k >= 0
    assert k < n
    a[k] = 5.0

@proc
def dense2(n: size, A: f32[n, 4]):
    for i in seq(0, n):
        A[i, 3] = 1.0

@proc
def upto(n: size, a: [f32][4]):
    for i in seq(0, 4):
        if i < n:
            a[i] = 7.0

@proc
def nested(n: size, a: [f32][n]):
    assert n >= 2
    fill(n - 1, a[1:n])
'''

NEAR_MISSES = [
    "idx+1", "idx-1", "loop-rev", "alloc-nonpos", "win-hi+1", "win-lo-1", "win-access", "call-extent",
    "call-assert", "call-alias", "call-size0", "guard-off", "drop-assert", "call-stride",
    "win-write", "winvar-call",
]


# ------------------------------------------------------------------ affine forms
class Aff:
    """sum coef*var + const"""

    __slots__ = ("t", "c")

    def __init__(self, t=None, c=0):
        self.t = {k: v for k, v in (t or {}).items() if v != 0}
        self.c = c

    @staticmethod
    def const(c):
        return Aff({}, c)

    @staticmethod
    def var(v, k=1):
        return Aff({v: k}, 0)

    def __add__(self, o):
        if isinstance(o, int):
            return Aff(self.t, self.c + o)
        t = dict(self.t)
        for k, v in o.t.items():
            t[k] = t.get(k, 0) + v
        return Aff(t, self.c + o.c)

    def __neg__(self):
        return Aff({k: -v for k, v in self.t.items()}, -self.c)

    def __sub__(self, o):
        if isinstance(o, int):
            return Aff(self.t, self.c - o)
        return self + (-o)

    def scale(self, k):
        return Aff({a: b * k for a, b in self.t.items()}, self.c * k)

    def is_const(self):
        return not self.t

    def __str__(self):
        parts = []
        for v in sorted(self.t):
            k = self.t[v]
            if k == 1:
                parts.append(("+", v))
            elif k == -1:
                parts.append(("-", v))
            elif k > 0:
                parts.append(("+", f"{k} * {v}"))
            else:
                parts.append(("-", f"{-k} * {v}"))
        if self.c > 0 or not parts:
            parts.append(("+", str(self.c)))
        elif self.c < 0:
            parts.append(("-", str(-self.c)))
        # exo does not parse a leading unary minus on a product nicely: put a positive term first
        parts.sort(key=lambda p: p[0] != "+")
        out = ""
        for i, (s, txt) in enumerate(parts):
            if i == 0:
                out = txt if s == "+" else f"0 - {txt}"
            else:
                out += f" {s} {txt}"
        return out


class Ctx:
    """what is known about the control variables in scope"""

    def __init__(self):
        self.sizes = {}    # name -> [lb, ub or None]
        self.ranges = []   # (name, lo Aff, hi Aff) loop variables / bounded index args, outermost first
        self.bools = []

    def copy(self):
        c = Ctx()
        c.sizes = {k: list(v) for k, v in self.sizes.items()}
        c.ranges = list(self.ranges)
        c.bools = list(self.bools)
        return c

    def _elim(self, f, want_min):
        """eliminate loop variables; returns Aff over sizes or None (unbounded)"""
        for (v, lo, hi) in reversed(self.ranges):
            k = f.t.get(v, 0)
            if k == 0:
                continue
            rest = Aff({a: b for a, b in f.t.items() if a != v}, f.c)
            if (k > 0) == want_min:
                bound = lo
            else:
                bound = hi - 1
            f = rest + bound.scale(k)
        return f

    def min(self, f):
        f = self._elim(f, True)
        tot = f.c
        for v, k in f.t.items():
            if v not in self.sizes:
                return None
            lb, ub = self.sizes[v]
            if k > 0:
                tot += k * lb
            else:
                if ub is None:
                    return None
                tot += k * ub
        return tot

    def max(self, f):
        m = self.min(-f)
        return None if m is None else -m

    def nonneg(self, f):
        m = self.min(f)
        return m is not None and m >= 0


# ------------------------------------------------------------------ program builder
class Buf:
    def __init__(self, name, shape, kind="arg", is_win_arg=False, base=None):
        self.name = name
        self.shape = shape        # list of Aff
        self.kind = kind          # arg | alloc | win
        self.is_win_arg = is_win_arg
        self.base = base or name  # root buffer name (for aliasing)


class Gen:
    def __init__(self, rng, nm=None):
        self.rng = rng
        self.nm = nm
        self.nm_used = False
        self.counter = 0
        self.lines = []
        self.features = set()

    def fresh(self, p):
        self.counter += 1
        return f"{p}{self.counter}"

    def take_nm(self, kind):
        if self.nm == kind and not self.nm_used:
            self.nm_used = True
            return True
        return False

    # ---- expressions
    def atoms(self, cx):
        return [v for (v, _, _) in cx.ranges]

    def index_for(self, cx, ext, allow_nm=True):
        """an index expression (string) inside [0, ext) by construction; None if none found"""
        rng = self.rng
        cands = self.atoms(cx)
        rng.shuffle(cands)
        tries = []
        for a in cands[:3]:
            for k in ([1, 1, 1, 2] if rng.random() < 0.25 else [1]):
                tries.append(Aff.var(a, k))
        if len(cands) >= 2 and rng.random() < 0.3:
            tries.insert(0, Aff.var(cands[0]) + Aff.var(cands[1]))
        tries.append(Aff.const(0))
        if rng.random() < 0.3:
            rng.shuffle(tries)
        for base in tries:
            mn = cx.min(base)
            mx = cx.max(base - ext + 1)
            if mn is None or mx is None:
                continue
            cmin, cmax = -mn, -mx
            if cmin > cmax:
                continue
            if allow_nm and self.take_nm("idx+1"):
                return str(base + (cmax + 1))
            if allow_nm and self.take_nm("idx-1"):
                return str(base + (cmin - 1))
            r = rng.random()
            if r < 0.35:
                c = cmax
            elif r < 0.6:
                c = cmin
            else:
                c = rng.randint(cmin, min(cmax, cmin + 3))
            self.features.add("edge-hi" if c == cmax else "edge-lo" if c == cmin else "interior")
            return str(base + c)
        return None

    def access(self, cx, buf, allow_nm=True):
        idx = []
        for e in buf.shape:
            s = self.index_for(cx, e, allow_nm)
            if s is None:
                return None
            idx.append(s)
        if not idx:
            return buf.name
        return f"{buf.name}[{', '.join(idx)}]"

    def rhs(self, cx, bufs):
        rng = self.rng
        terms = []
        for _ in range(rng.randint(1, 3)):
            if rng.random() < 0.75 and bufs:
                b = rng.choice(bufs)
                a = self.access(cx, b)
                if a is not None:
                    terms.append(a)
                    if b.kind == "win":
                        self.features.add("read-through-window")
                    continue
            terms.append(rng.choice(["1.0", "2.0", "0.5"]))
        # only sums and constant factors: products of cells would make the exact rationals of the
        # reference interpreter grow exponentially inside loops (values are irrelevant for C03)
        out = terms[0]
        for t in terms[1:]:
            out = f"{out} + {t}"
        if rng.random() < 0.3:
            out = f"0.5 * ({out})"
        if rng.random() < 0.1:
            out = f"relu({out})"
        return out

    # ---- statements
    def emit(self, ind, s):
        self.lines.append("    " * ind + s)

    def size_form(self, cx, allow_const=True):
        rng = self.rng
        vs = list(cx.sizes)
        r = rng.random()
        if allow_const and (r < 0.2 or not vs):
            return Aff.const(rng.choice([1, 2, 4, 6, 8]))
        v = rng.choice(vs)
        if r < 0.6:
            return Aff.var(v)
        if r < 0.85:
            return Aff.var(v) + rng.randint(1, 3)
        if r < 0.93 and len(vs) > 1:
            return Aff.var(vs[0]) + Aff.var(vs[1])
        return Aff.var(v, 2) + rng.randint(0, 2)

    def stmt_assign(self, cx, bufs, ind):
        rng = self.rng
        wr = [b for b in bufs]
        b = rng.choice(wr)
        lhs = self.access(cx, b)
        if lhs is None:
            return False
        if b.kind == "win":
            self.features.add("write-through-window")
        op = "=" if rng.random() < 0.7 else "+="
        self.emit(ind, f"{lhs} {op} {self.rhs(cx, bufs)}")
        return True

    def stmt_loop(self, cx, bufs, ind, depth):
        rng = self.rng
        i = self.fresh("i")
        r = rng.random()
        if r < 0.55:
            lo = Aff.const(rng.choice([0, 0, 0, 1, 2]))
        elif r < 0.75:
            lo = self.size_form(cx, allow_const=False)
        else:
            lo = Aff.const(0)
        ext = self.size_form(cx)
        r2 = rng.random()
        if r2 < 0.6:
            hi = lo + ext if not lo.is_const() or rng.random() < 0.4 else ext + rng.choice([0, 0, 1, -1])
        else:
            hi = ext
        if self.take_nm("loop-rev"):
            hi = lo - 1 if rng.random() < 0.5 else Aff.var(rng.choice(list(cx.sizes))) - 2
            lo = Aff.const(0) if not lo.is_const() else lo
        elif not cx.nonneg(hi - lo):
            hi = lo + ext
            if not cx.nonneg(hi - lo):
                return False
        if cx.max(hi - lo) is not None and cx.max(hi - lo) == 0:
            self.features.add("zero-trip")
        self.emit(ind, f"for {i} in seq({lo}, {hi}):")
        c2 = cx.copy()
        c2.ranges.append((i, lo, hi))
        self.block(c2, list(bufs), ind + 1, depth + 1)
        self.features.add("loop")
        return True

    def stmt_guarded(self, cx, bufs, ind):
        """an access that is only safe because of the surrounding if"""
        rng = self.rng
        ats = self.atoms(cx)
        if not ats:
            return False
        b = rng.choice([x for x in bufs if len(x.shape) == 1] or [None])
        if b is None:
            return False
        a = rng.choice(ats)
        off = rng.randint(-3, 3)
        e = Aff.var(a) + off
        ext = b.shape[0]
        lo_ok = cx.nonneg(e)
        hi_ok = cx.nonneg(ext - 1 - e)
        conds = []
        slack = 1 if self.take_nm("guard-off") else 0
        if not lo_ok:
            conds.append(f"{e - (-slack)} >= 0" if slack else f"{e} >= 0")
        if not hi_ok:
            conds.append(f"{e} < {ext + slack}" if slack else f"{e} < {ext}")
        if not conds:
            if slack:
                self.nm_used = False
            return False
        if len(conds) == 1 and rng.random() < 0.4:
            # the access sits in the else branch of the complementary test
            c = conds[0]
            neg = c.replace(" >= ", " < ") if " >= " in c else c.replace(" < ", " >= ")
            self.emit(ind, f"if {neg}:")
            self.emit(ind + 1, "pass")
            self.emit(ind, "else:")
            self.emit(ind + 1, f"{b.name}[{e}] = {self.rhs(cx, bufs)}")
            self.features.add("guard-else")
            return True
        for k, c in enumerate(conds):
            self.emit(ind + k, f"if {c}:")
        self.emit(ind + len(conds), f"{b.name}[{e}] = {self.rhs(cx, bufs)}")
        if rng.random() < 0.3 and len(conds) == 1:
            self.emit(ind, "else:")
            self.emit(ind + 1, "pass")
        self.features.add("guard")
        return True

    def stmt_alloc(self, cx, bufs, ind):
        rng = self.rng
        t = self.fresh("t")
        if rng.random() < 0.3:
            self.emit(ind, f"{t}: f32")
            bufs.append(Buf(t, [], "alloc"))
            self.emit(ind, f"{t} = {self.rhs(cx, bufs[:-1])}")
            return True
        shape = [self.size_form(cx) for _ in range(rng.choice([1, 1, 2]))]
        if self.take_nm("alloc-nonpos"):
            shape[0] = Aff.var(rng.choice(list(cx.sizes))) - rng.choice([1, 2])
        else:
            for e in shape:
                m = cx.min(e)
                if m is None or m < 1:
                    return False
        self.emit(ind, f"{t}: f32[{', '.join(map(str, shape))}]")
        bufs.append(Buf(t, shape, "alloc"))
        self.features.add("alloc")
        return True

    def make_window(self, cx, b, allow_nm=True):
        """window expression over buffer b: (text, shape) with 0 <= lo <= hi <= ext by construction"""
        rng = self.rng
        accs, shape = [], []
        for e in b.shape:
            if len(b.shape) > 1 and rng.random() < 0.35:
                p = self.index_for(cx, e, allow_nm=False)
                if p is None:
                    return None
                accs.append(p)
                continue
            mn = cx.min(e)
            if mn is None:
                return None
            lo_c = rng.randint(0, max(0, min(mn - 1, 2)))
            lo = Aff.const(lo_c)
            r = rng.random()
            if r < 0.5:
                hi = e - rng.randint(0, max(0, min(mn - 1 - lo_c, 2)))
            elif r < 0.8:
                hi = Aff.const(rng.randint(lo_c, mn)) if mn >= lo_c else e
            else:
                hi = e
            if not cx.nonneg(hi - lo) or not cx.nonneg(e - hi):
                hi = e
            if allow_nm and self.take_nm("win-hi+1"):
                hi = e + rng.choice([1, 2])
            if allow_nm and self.take_nm("win-lo-1"):
                lo = Aff.const(-1)
            accs.append(f"{lo}:{hi}")
            shape.append(hi - lo)
        if not shape:
            return None
        return f"{b.name}[{', '.join(accs)}]", shape

    def stmt_window(self, cx, bufs, ind):
        rng = self.rng
        cand = [b for b in bufs if b.shape]
        if not cand:
            return False
        b = rng.choice(cand)
        r = self.make_window(cx, b)
        if r is None:
            return False
        txt, shape = r
        w = self.fresh("w")
        self.emit(ind, f"{w} = {txt}")
        wb = Buf(w, shape, "win", base=b.base)
        bufs.append(wb)
        self.features.add("window-of-window" if b.kind == "win" else "window")
        # use it right away (so that the window matters)
        if self.take_nm("win-access") or self.take_nm("win-write"):
            # an access one past the window's own extent (inside or outside the base)
            idx = [str(e) for e in shape]
            if rng.random() < 0.5 or self.nm == "win-write":
                self.emit(ind, f"{w}[{', '.join(idx)}] = 1.0")
            else:
                tgt = self.access(cx, rng.choice([x for x in bufs if x.kind != "win"] or bufs), allow_nm=False)
                if tgt is not None:
                    self.emit(ind, f"{tgt} = {w}[{', '.join(idx)}]")
        else:
            a = self.access(cx, wb)
            if a is not None and all((cx.min(e) or 0) >= 1 for e in shape):
                if rng.random() < 0.5:
                    self.emit(ind, f"{a} = {self.rhs(cx, bufs)}")
                    self.features.add("write-through-window")
                else:
                    tgt = self.access(cx, rng.choice(bufs))
                    if tgt is not None:
                        self.emit(ind, f"{tgt} = {a}")
                        self.features.add("read-through-window")
        return True

    def stmt_call(self, cx, bufs, ind):
        rng = self.rng
        one_d = [b for b in bufs if len(b.shape) == 1]
        two_d = [b for b in bufs if len(b.shape) == 2]
        choice = rng.choice(["fill", "fill", "cp", "third", "unit", "acc", "mat", "edge", "winvar", "dense2",
                             "nested", "upto"])
        if self.nm in ("call-extent", "call-size0", "winvar-call") and not self.nm_used:
            choice = rng.choice(["fill", "winvar"]) if self.nm != "winvar-call" else "winvar"
            if self.nm == "call-size0":
                choice = "upto"
        if self.nm == "call-assert" and not self.nm_used:
            choice = rng.choice(["third", "edge", "nested"])
        if self.nm == "call-alias" and not self.nm_used:
            choice = "cp"
        if self.nm == "call-stride" and not self.nm_used:
            choice = "unit"

        def win1(b, need_min=1):
            """1-d window argument of b with a positive width: (text, width Aff)"""
            for _ in range(4):
                r = self.make_window(cx, b, allow_nm=False)
                if r is None:
                    return None
                txt, shape = r
                if len(shape) == 1 and (cx.min(shape[0]) or 0) >= need_min:
                    return txt, shape[0]
            return None

        if choice in ("fill", "third", "unit", "nested"):
            src = [b for b in bufs if b.shape]
            if not src:
                return False
            b = rng.choice(src)
            if choice == "unit" and self.take_nm("call-stride"):
                tb = [x for x in bufs if len(x.shape) == 2 and x.kind != "win"]
                if not tb:
                    self.nm_used = False
                    return False
                b = rng.choice(tb)
                # a column: stride is the row length, not 1
                self.emit(ind, f"unit({b.shape[0]}, {b.name}[0:{b.shape[0]}, 0])")
                self.features.add("call")
                return True
            need = 1
            if choice == "third" and not (self.nm == "call-assert" and not self.nm_used):
                need = 3
            if choice == "nested" and not (self.nm == "call-assert" and not self.nm_used):
                need = 2
            r = win1(b, need)
            if r is None:
                return False
            txt, width = r
            if choice in ("third", "nested") and self.nm == "call-assert" and not self.nm_used:
                if (cx.min(width) or 0) >= (3 if choice == "third" else 2):
                    return False
                self.nm_used = True
            if choice == "unit" and b.kind == "win":
                pass
            size_arg = width
            if self.take_nm("call-extent"):
                size_arg = width + rng.choice([1, -1]) if (cx.min(width) or 0) > 1 else width + 1
            self.emit(ind, f"{choice}({size_arg}, {txt})")
            self.features.add("call")
            if b.kind == "win":
                self.features.add("call-window-of-window")
            return True
        if choice == "upto":
            src = [b for b in one_d if (cx.min(b.shape[0]) or 0) >= 4]
            if not src:
                return False
            b = rng.choice(src)
            sz = self.size_form(cx)
            if (cx.min(sz) or 0) < 1:
                return False
            if self.take_nm("call-size0"):
                sz = Aff.var(rng.choice(list(cx.sizes))) - 1
            lo = rng.randint(0, (cx.min(b.shape[0]) or 4) - 4)
            self.emit(ind, f"upto({sz}, {b.name}[{lo}:{lo + 4}])")
            self.features.add("call")
            return True
        if choice == "winvar":
            src = [b for b in bufs if b.kind == "win" and len(b.shape) == 1]
            if not src:
                return False
            b = rng.choice(src)
            if (cx.min(b.shape[0]) or 0) < 1:
                return False
            size_arg = b.shape[0]
            if self.take_nm("call-extent") or self.take_nm("winvar-call"):
                size_arg = b.shape[0] + 1
            if self.take_nm("call-size0"):
                return False
            self.emit(ind, f"fill({size_arg}, {b.name})")
            self.features.add("call-window-var")
            return True
        if choice == "cp":
            if len(one_d) < 1:
                return False
            a = rng.choice(one_d)
            if self.take_nm("call-alias"):
                mn = cx.min(a.shape[0]) or 0
                if mn < 2:
                    self.nm_used = False
                    return False
                self.emit(ind, f"cp(1, {a.name}[0:1], {a.name}[1:2])")
                self.features.add("call")
                return True
            others = [b for b in one_d if b.base != a.base]
            if not others:
                return False
            b = rng.choice(others)
            w = Aff.const(1)
            mna, mnb = cx.min(a.shape[0]) or 0, cx.min(b.shape[0]) or 0
            k = min(mna, mnb)
            if k < 1:
                return False
            k = rng.randint(1, min(k, 3))
            self.emit(ind, f"cp({k}, {a.name}[0:{k}], {b.name}[{b.shape[0] - k}:{b.shape[0]}])")
            self.features.add("call")
            return True
        if choice == "acc":
            sc = [b for b in bufs if not b.shape]
            if not sc or not one_d:
                return False
            a = rng.choice(one_d)
            s = rng.choice(sc)
            if s.base == a.base:
                return False
            r = win1(a)
            if r is None:
                return False
            self.emit(ind, f"acc({r[1]}, {r[0]}, {s.name})")
            self.features.add("call-scalar")
            return True
        if choice == "mat":
            if not two_d:
                return False
            b = rng.choice(two_d)
            if any((cx.min(e) or 0) < 1 for e in b.shape):
                return False
            self.emit(ind, f"mat({b.shape[0]}, {b.shape[1]}, {b.name}[0:{b.shape[0]}, 0:{b.shape[1]}])")
            self.features.add("call")
            return True
        if choice == "dense2":
            cand = [b for b in two_d if b.kind != "win" and str(b.shape[1]) == "4"]
            if not cand:
                return False
            b = rng.choice(cand)
            self.emit(ind, f"dense2({b.shape[0]}, {b.name})")
            self.features.add("call-dense")
            return True
        if choice == "edge":
            if not one_d:
                return False
            b = rng.choice(one_d)
            mn = cx.min(b.shape[0]) or 0
            if mn < 1:
                return False
            k = self.index_for(cx, b.shape[0], allow_nm=False)
            if k is None:
                return False
            if self.nm == "call-assert" and not self.nm_used:
                self.nm_used = True
                k = str(b.shape[0])
            self.emit(ind, f"edge({b.shape[0]}, {k}, {b.name}[0:{b.shape[0]}])")
            self.features.add("call-assert")
            return True
        return False

    def stmt_divmod(self, cx, bufs, ind):
        rng = self.rng
        ats = self.atoms(cx)
        if not ats:
            return False
        a = rng.choice(ats)
        d = rng.choice([2, 3, 4])
        one_d = [b for b in bufs if len(b.shape) == 1]
        if not one_d:
            return False
        b = rng.choice(one_d)
        mn = cx.min(b.shape[0]) or 0
        if rng.random() < 0.5:
            # x[a % d] needs extent >= d and a >= 0 for the C backend; the semantics only needs extent >= d
            if mn < d:
                return False
            off = rng.choice([0, 0, 1, -1])
            e = Aff.var(a) + off
            self.emit(ind, f"{b.name}[({e}) % {d}] = {self.rhs(cx, bufs)}")
            self.features.add("mod")
        else:
            # x[a / d]: need 0 <= a and a/d < extent  <=  a <= d*extent - 1
            if not cx.nonneg(Aff.var(a)) or not cx.nonneg(b.shape[0].scale(d) - 1 - Aff.var(a)):
                return False
            self.emit(ind, f"{b.name}[{a} / {d}] = {self.rhs(cx, bufs)}")
            self.features.add("div")
        return True

    def block(self, cx, bufs, ind, depth):
        rng = self.rng
        n = rng.randint(1, 3 if depth else 4)
        done = 0
        for _ in range(n * 3):
            if done >= n:
                break
            r = rng.random()
            ok = False
            if r < 0.32:
                ok = self.stmt_assign(cx, bufs, ind)
            elif r < 0.50 and depth < 2:
                ok = self.stmt_loop(cx, bufs, ind, depth)
            elif r < 0.58:
                ok = self.stmt_guarded(cx, bufs, ind)
            elif r < 0.66:
                ok = self.stmt_alloc(cx, bufs, ind)
            elif r < 0.80:
                ok = self.stmt_window(cx, bufs, ind)
            elif r < 0.94:
                ok = self.stmt_call(cx, bufs, ind)
            else:
                ok = self.stmt_divmod(cx, bufs, ind)
            done += 1 if ok else 0
        if done == 0:
            self.emit(ind, "pass")

    def program(self):
        rng = self.rng
        cx = Ctx()
        name = "tgt"
        args, asserts = [], []
        nsz = rng.choice([1, 2, 2])
        for v in ["n", "m"][:nsz]:
            cx.sizes[v] = [1, None]
            args.append(f"{v}: size")
        # asserts on sizes
        drop = self.take_nm("drop-assert")
        for v in list(cx.sizes):
            r = rng.random()
            if r < 0.3 or drop:
                lb = rng.choice([2, 3, 4, 6])
                cx.sizes[v][0] = lb
                if not drop:
                    asserts.append(f"{v} >= {lb}")
            elif r < 0.4:
                ub = rng.choice([4, 6, 8])
                cx.sizes[v][1] = ub
                asserts.append(f"{v} <= {ub}")
        if rng.random() < 0.35:
            # a bounded index argument
            k = "k"
            args.append(f"{k}: index")
            v = rng.choice(list(cx.sizes))
            lo = Aff.const(rng.choice([0, 0, 1]))
            hi = Aff.var(v) + rng.choice([0, 0, 1])
            asserts.append(f"{k} >= {lo}")
            asserts.append(f"{k} < {hi}")
            cx.ranges.append((k, lo, hi))
        elif rng.random() < 0.15:
            args.append("k: index")   # unconstrained: usable only under guards
        if rng.random() < 0.2:
            args.append("b: bool")
            cx.bools.append("b")
        bufs = []
        for bn in ["x", "y", "z"][: rng.choice([1, 2, 2, 3])]:
            r = rng.random()
            if r < 0.6:
                shape = [self.size_form(cx)]
            elif r < 0.9:
                shape = [self.size_form(cx), self.size_form(cx) if rng.random() < 0.6 else Aff.const(4)]
            else:
                shape = []
            if any((cx.min(e) or 0) < 1 for e in shape):
                shape = [Aff.var(rng.choice(list(cx.sizes)))]
            isw = bool(shape) and rng.random() < 0.3
            if not shape:
                args.append(f"{bn}: f32")
            elif isw:
                args.append(f"{bn}: [f32][{', '.join(map(str, shape))}]")
            else:
                args.append(f"{bn}: f32[{', '.join(map(str, shape))}]")
            bufs.append(Buf(bn, shape, "arg", isw))
        self.lines = []
        self.emit(0, "@proc")
        self.emit(0, f"def {name}({', '.join(args)}):")
        for a in asserts:
            self.emit(1, f"assert {a}")
        self.block(cx, bufs, 1, 0)
        return "\n".join(self.lines) + "\n"


def gen_program(rng, nm=None):
    g = Gen(rng, nm)
    src = g.program()
    return {"src": PRELUDE + "\n" + src, "body": src, "target": "tgt", "nm": nm, "nm_used": g.nm_used,
            "features": sorted(g.features)}


# hand-written seeds: the F12 family and classic edge cases (always run)
SEEDS = {
    "f12-write-through-window": '''
@proc
def tgt(x: f32[8]):
    w = x[0:4]
    w[10] = 1.0
''',
    "f12-window-interval": '''
@proc
def tgt(x: f32[8]):
    w = x[0:16]
    w[1] = 1.0
''',
    "f12-read-inside-base": '''
@proc
def tgt(x: f32[8], y: f32[1]):
    w = x[0:4]
    y[0] = w[6]
''',
    "read-outside-base": '''
@proc
def tgt(x: f32[8], y: f32[1]):
    w = x[0:4]
    y[0] = w[10]
''',
    "winvar-to-callee": '''
@proc
def tgt(x: f32[8]):
    w = x[0:16]
    fill(16, w)
''',
    "winvar-to-callee-read": '''
@proc
def tgt(x: f32[8], y: f32):
    w = x[0:16]
    acc(16, w, y)
''',
    "oversized-window-arg-untouched": '''
@proc
def tgt(x: f32[8]):
    third(16, x[0:16])
''',
    "window-of-window-ok": '''
@proc
def tgt(x: f32[8], y: f32[1]):
    w = x[2:8]
    v = w[2:6]
    y[0] = v[3]
''',
    "window-of-window-oob": '''
@proc
def tgt(x: f32[8], y: f32[1]):
    w = x[2:8]
    v = w[2:6]
    y[0] = v[4]
''',
    "reversed-window": '''
@proc
def tgt(x: f32[8], y: f32[1]):
    w = x[4:2]
    y[0] = x[0]
''',
    "negative-window-lo": '''
@proc
def tgt(x: f32[8], y: f32[1]):
    w = x[-2:4]
    y[0] = w[2]
''',
    "point-window-oob": '''
@proc
def tgt(x: f32[8, 8], y: f32[1]):
    w = x[9, 0:4]
    y[0] = x[0, 0]
''',
    "loop-rev": '''
@proc
def tgt(n: size, x: f32[n]):
    for i in seq(n, 0):
        x[0] = 1.0
''',
    "loop-upper-edge": '''
@proc
def tgt(n: size, x: f32[n]):
    for i in seq(0, n):
        x[i + 1] = 1.0
''',
    "loop-lower-edge": '''
@proc
def tgt(n: size, x: f32[n]):
    for i in seq(0, n):
        x[i - 1] = 1.0
''',
    "shifted-loop": '''
@proc
def tgt(n: size, x: f32[n]):
    for i in seq(1, n):
        x[i - 1] = x[i]
''',
    "mod-neg": '''
@proc
def tgt(n: size, x: f32[4]):
    for i in seq(0, n):
        x[(i - 3) % 4] = 2.0
''',
    "div-ok": '''
@proc
def tgt(n: size, x: f32[n]):
    for i in seq(0, 2 * n):
        x[i / 2] = 2.0
''',
    "div-off": '''
@proc
def tgt(n: size, x: f32[n]):
    for i in seq(0, 2 * n + 1):
        x[i / 2] = 2.0
''',
    "assert-makes-safe": '''
@proc
def tgt(n: size, x: f32[n]):
    assert n > 4
    x[4] = 1.0
''',
    "assert-missing": '''
@proc
def tgt(n: size, x: f32[n]):
    x[4] = 1.0
''',
    "call-alias": '''
@proc
def tgt(x: f32[8]):
    cp(4, x[0:4], x[4:8])
''',
    "call-alias-winvar": '''
@proc
def tgt(x: f32[8]):
    w = x[0:4]
    cp(4, w, x[4:8])
''',
    "call-size0": '''
@proc
def tgt(n: size, x: f32[n]):
    fill(n - 1, x[0:n - 1])
''',
    "call-assert-violated": '''
@proc
def tgt(n: size, x: f32[n]):
    third(n, x[0:n])
''',
    "call-assert-ok": '''
@proc
def tgt(n: size, x: f32[n]):
    assert n > 5
    third(n, x[0:n])
''',
    "call-stride-col": '''
@proc
def tgt(n: size, z: f32[n, 4]):
    unit(n, z[0:n, 0])
''',
    "call-stride-row": '''
@proc
def tgt(n: size, z: f32[n, 4]):
    unit(4, z[0, 0:4])
''',
    "call-extent": '''
@proc
def tgt(x: f32[8]):
    fill(5, x[0:4])
''',
    "call-size0-free": '''
@proc
def tgt(n: size, x: f32[4]):
    upto(n - 1, x[0:4])
''',
    "call-size-free-ok": '''
@proc
def tgt(n: size, x: f32[n + 3]):
    upto(n, x[0:4])
''',
    "else-unsafe": '''
@proc
def tgt(n: size, k: index, x: f32[n]):
    assert k < n
    if k >= 0:
        pass
    else:
        x[k] = 1.0
''',
    "else-safe": '''
@proc
def tgt(n: size, k: index, x: f32[n]):
    assert k < n
    if k < 0:
        pass
    else:
        x[k] = 1.0
''',
    "alloc-nonpos": '''
@proc
def tgt(n: size, x: f32[n]):
    t: f32[n - 1]
    x[0] = 1.0
''',
    "guarded": '''
@proc
def tgt(n: size, k: index, x: f32[n]):
    if k >= 0:
        if k < n:
            x[k] = 1.0
''',
    "guard-off-by-one": '''
@proc
def tgt(n: size, k: index, x: f32[n]):
    if k >= 0:
        if k <= n:
            x[k] = 1.0
''',
    "else-branch": '''
@proc
def tgt(n: size, k: index, x: f32[n]):
    if k < 0:
        pass
    else:
        if k < n:
            x[k] = 1.0
''',
    # --- facts of one statement must not leak into its siblings: a loop's range predicate `lo <= i < hi` holds only
    #     INSIDE the loop; next to a zero-trip loop it says nothing (seeded change C03_1 asserted it in the enclosing scope)
    "zero-trip-sibling-access": '''
@proc
def tgt(n: size, x: f32[n]):
    x[1] = 0.0
    for i in seq(0, n - 1):
        x[i] = x[i + 1]
''',
    "zero-trip-sibling-access-after": '''
@proc
def tgt(n: size, x: f32[n]):
    for i in seq(0, n - 1):
        x[i] = x[i + 1]
    x[1] = 0.0
''',
    "zero-trip-sibling-alloc": '''
@proc
def tgt(k: index, x: f32[8]):
    assert 0 <= k and k <= 8
    tmp: f32[k]
    for i in seq(0, k):
        tmp[i] = x[i]
''',
    "zero-trip-sibling-call-size": '''
@proc
def tgt(n: size, x: f32[n]):
    fill(n - 1, x[1:n])
    for i in seq(0, n - 1):
        x[i] = x[i + 1]
''',
    "zero-trip-sibling-in-branch": '''
@proc
def tgt(n: size, m: size, x: f32[n]):
    if m > 2:
        for i in seq(0, n - 1):
            x[i] = 1.0
        x[1] = 2.0
''',
    "loop-fact-stays-inside-ok": '''
@proc
def tgt(n: size, x: f32[n]):
    for i in seq(0, n - 1):
        x[i + 1] = x[i]
    x[n - 1] = 0.0
''',
    "extern-arg-read-oob": '''
@proc
def tgt(x: f32[4], y: f32[4]):
    x[0] = relu(y[100])
''',
    "extern-arg-read-edge": '''
@proc
def tgt(n: size, x: f32[n], y: f32[n]):
    for i in seq(0, n):
        x[i] = select(y[i], x[i], 1.0, y[i + 1])
''',
    "extern-arg-read-ok": '''
@proc
def tgt(n: size, x: f32[n], y: f32[n + 1]):
    for i in seq(0, n):
        x[i] = select(y[i], x[i], 1.0, y[i + 1])
''',
    "window-to-dense-param": '''
@proc
def tgt(n: size, y: [f32][n, 4]):
    dense2(n, y)
''',
    "strided-window-arg": '''
@proc
def tgt(n: size, a: [f32][n, 4], y: f32[n]):
    for i in seq(0, n):
        y[i] = a[i, 3]
    unit(4, a[0, 0:4])
''',
}
