"""Configuration-heavy program pool of property C10.

Every entry is a module source (built through the real front end by exo_build.build_module); the
last @proc of the module is the procedure under test, the earlier ones are its callees.  Fields
of all three kinds (index / bool / real), read and written directly and through callees, inside
loops and branches, fields that are read before any write (initial configuration flows to an
output), fields that the procedure never mentions (first touched by an inserted write).
"""

POOL = {}


def add(name, src):
    POOL[name] = src


add("c_direct", '''
@config
class CfgA:
    k: index
    b: bool
    s: f32
    t: f32
    late: index

@proc
def c_direct(n: size, flag: bool, a: f32, c: f32, x: f32[n], y: f32[n]):
    CfgA.s = a
    CfgA.b = flag
    for i in seq(0, n):
        if CfgA.b:
            x[i] = CfgA.s
        else:
            x[i] += c
    CfgA.k = 2
    CfgA.s = c
    for i in seq(0, n):
        y[i] = CfgA.s + a
    CfgA.b = False
''')

add("c_callee", '''
@config
class CfgB:
    mode: bool
    g: f32
    cnt: index
    spare: f32

@proc
def set_mode(m: bool):
    CfgB.mode = m

@proc
def scale(n: size, x: [f32][n]):
    for i in seq(0, n):
        if CfgB.mode:
            x[i] = x[i] * CfgB.g

@proc
def c_callee(n: size, flag: bool, a: f32, x: f32[n], y: f32[n]):
    CfgB.g = a
    set_mode(flag)
    scale(n, x[0:n])
    set_mode(False)
    scale(n, y[0:n])
    CfgB.cnt = 1
''')

add("c_loop", '''
@config
class CfgC:
    acc: f32
    k: index
    on: bool

@proc
def c_loop(n: size, a: f32, b: f32, x: f32[n], y: f32[n]):
    CfgC.acc = a
    for i in seq(0, n):
        x[i] = CfgC.acc
        CfgC.acc = b
    CfgC.k = 0
    for i in seq(0, n):
        CfgC.k = 1
        y[i] = a
    CfgC.on = True
''')

add("c_branch", '''
@config
class CfgD:
    v: index
    s: f32
    w: bool

@proc
def c_branch(n: size, flag: bool, a: f32, x: f32[n + 3]):
    CfgD.v = 1
    CfgD.s = a
    if flag:
        CfgD.v = 2
        CfgD.w = True
    else:
        CfgD.w = flag
    for i in seq(0, n):
        if CfgD.w:
            x[i + CfgD.v] = CfgD.s
        else:
            x[i] = 0.0
    CfgD.v = 0
''')

add("c_late", '''
@config
class CfgE:
    late_s: f32
    late_k: index
    late_b: bool
    never: f32

@proc
def c_late(n: size, flag: bool, a: f32, x: f32[n]):
    for i in seq(0, n):
        x[i] = a
    if flag:
        x[0] = CfgE.late_s
    if CfgE.late_b:
        x[0] += 1.0
    CfgE.late_k = 3
''')

add("c_index", '''
@config
class CfgF:
    off: index
    m: index
    z: f32

@proc
def c_index(n: size, x: f32[n + 4]):
    CfgF.off = 2
    for i in seq(0, n):
        x[i + CfgF.off] = 1.0
    CfgF.off = 0
    for i in seq(0, n):
        x[i + CfgF.off] += 2.0
    CfgF.m = 1
''')

add("c_chain", '''
@config
class CfgG:
    lvl: index
    gain: f32
    en: bool

@proc
def leaf(n: size, x: [f32][n]):
    for i in seq(0, n):
        if CfgG.en:
            x[i] = x[i] + CfgG.gain

@proc
def mid(n: size, g: f32, x: [f32][n]):
    CfgG.gain = g
    leaf(n, x)
    CfgG.lvl = 1

@proc
def c_chain(n: size, on: bool, g: f32, h: f32, x: f32[n], y: f32[n]):
    CfgG.en = on
    mid(n, g, x[0:n])
    mid(n, h, y[0:n])
    CfgG.en = False
''')

add("c_same", '''
@config
class CfgI:
    b: bool
    k: index
    r: f32

@proc
def c_same(n: size, flag: bool, a: f32, x: f32[n]):
    CfgI.b = flag
    CfgI.k = 1
    CfgI.r = a
    for i in seq(0, n):
        CfgI.k = 1
        if CfgI.b:
            x[i] = CfgI.r
    CfgI.b = flag
    CfgI.r = a
''')

add("c_argpass", '''
@config
class CfgJ:
    flag: bool
    q: f32
    n2: index

@proc
def apply(n: size, f: bool, x: [f32][n]):
    for i in seq(0, n):
        if f:
            x[i] = CfgJ.q
    CfgJ.n2 = 2

@proc
def c_argpass(n: size, sel: bool, a: f32, x: f32[n], y: f32[n]):
    CfgJ.q = a
    CfgJ.flag = sel
    apply(n, CfgJ.flag, x[0:n])
    CfgJ.flag = True
    apply(n, sel, y[0:n])
''')

add("c_two", '''
@config
class CfgK:
    a: index
    b: index
    p: bool

@config
class CfgL:
    a: index
    u: f32

@proc
def c_two(n: size, t: bool, v: f32, x: f32[n], y: f32[n]):
    CfgK.a = 1
    CfgL.a = 2
    CfgL.u = v
    for i in seq(0, n):
        if CfgK.a == CfgL.a:
            x[i] = 0.0
        else:
            x[i] = CfgL.u
    if t:
        CfgK.b = 3
    for i in seq(0, n):
        if CfgK.p:
            y[i] = CfgL.u
    CfgK.a = 0
''')

add("c_nest", '''
@config
class CfgM:
    r: f32
    c: index
    e: bool

@proc
def c_nest(n: size, m: size, flag: bool, a: f32, A: f32[n, m]):
    CfgM.e = flag
    for i in seq(0, n):
        CfgM.r = a
        for j in seq(0, m):
            if CfgM.e:
                A[i, j] = CfgM.r
            else:
                CfgM.c = 1
        CfgM.r = a
    CfgM.c = 0
''')

add("c_loopcall", '''
@config
class CfgN:
    mode: bool
    g: f32
    cnt: index

@proc
def scale_n(n: size, x: [f32][n]):
    for i in seq(0, n):
        if CfgN.mode:
            x[i] = x[i] * CfgN.g

@proc
def c_loopcall(n: size, m: size, flag: bool, a: f32, A: f32[m, n]):
    CfgN.mode = flag
    CfgN.g = a
    for j in seq(0, m):
        scale_n(n, A[j, 0:n])
        CfgN.cnt = 1
''')

# a configuration write inside a loop that runs exactly once: "the loop leaves the field unchanged" must not be concluded from the iterations after the first
# (seeded change C10_1 dropped i == lo from the loop-invariance test of globenv)
add("c_once", '''
@config
class CfgO:
    flag: bool
    k: index
    s: f32

@proc
def c_once(n: size, a: f32, x: f32[n + 2], y: f32[n]):
    for i in seq(0, 1):
        CfgO.flag = True
        CfgO.s = a
    if CfgO.flag:
        x[0] = CfgO.s
    for i in seq(0, n):
        y[i] = CfgO.s + 1.0
''')
