"""C08 — generated C is free of undefined behaviour and leaks (see docs/C08.md, harness/ccpipe.py)."""
from __future__ import annotations

import ccpipe


def run(ctx):
    ccpipe.run(ctx, "C08")
