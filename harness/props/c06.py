"""C06 — forwarded cursors denote the same code or are invalid.

Parts (see docs/C06.md):
  O  proof obligations: ExoModel.Props.C06 (builds, axioms, forbidden tokens)
  A  correspondence: real `internal_cursors` atomic edits vs the Lean model (Drivers/C06.lean) on
     random real LoopIR procedures, every node/block/gap cursor of the source tree; the same
     comparison is made for every atomic edit the real scheduling primitives perform (recorded).
  S  property search on the atomic edits: lineage of the real results (independent of the model)
  X  end-to-end search on real scheduling primitives: `Procedure.forward` of every statement /
     block / gap cursor must raise InvalidCursorError or land on the same lineage; implicit
     forwarding == explicit forwarding.
"""
from __future__ import annotations

import importlib
import json
import re
import sys
import tempfile
import textwrap
from pathlib import Path

from common import import_exo, lean_batch, InfraError, LEAN

ATTR = {"body": 0, "orelse": 1}
ATTR_NAME = ["body", "orelse"]
FRESH = 999999        # label of nodes whose lineage is unknown / newly constructed
PASS_KIND = 8


# ============================================================================ lineage
class Lineage:
    """side table id(node) -> lineage label; `update` keeps the label of `self`"""

    def __init__(self):
        self.tab = {}
        self.keep = []
        self.installed = False
        self.types = ()

    def install(self, LoopIR):
        if self.installed:
            return
        from asdl_adt import adt

        self.types = (LoopIR.stmt, LoopIR.proc)
        orig = adt._AsdlAdtBase.update
        me = self

        def update(node, **kw):
            new = orig(node, **kw)
            if isinstance(node, me.types):
                lab = me.tab.get(id(node))
                if lab is not None and new is not node:
                    me.tab[id(new)] = lab
                    me.keep.append(new)
            return new

        update.__c06_orig__ = orig
        adt._AsdlAdtBase.update = update
        self.installed = True

    def reset(self):
        self.tab = {}
        self.keep = []

    def set(self, node, lab):
        self.tab[id(node)] = lab
        self.keep.append(node)

    def get(self, node):
        return self.tab.get(id(node), FRESH)


LIN = Lineage()


class Env:
    """handles on the real code"""

    def __init__(self, exo):
        from exo.core import internal_cursors as ic
        from exo.core.LoopIR import LoopIR, T
        from exo.core.prelude import Sym
        import exo.API_cursors as PC
        import exo.API_scheduling as S

        self.exo, self.ic, self.LoopIR, self.T, self.Sym, self.PC, self.S = exo, ic, LoopIR, T, Sym, PC, S
        L = LoopIR
        self.kinds = [L.proc, L.For, L.If, L.Assign, L.Reduce, L.Alloc, L.Call, L.WriteConfig, L.Pass,
                      L.WindowStmt]
        LIN.install(LoopIR)

    def kind(self, node):
        for i, k in enumerate(self.kinds):
            if isinstance(node, k):
                return i
        return 99

    def blocks(self, node):
        L = self.LoopIR
        if isinstance(node, (L.proc, L.For)):
            return node.body, []
        if isinstance(node, L.If):
            return node.body, node.orelse
        return [], []

    def to_tree(self, node):
        b, o = self.blocks(node)
        return [LIN.get(node), self.kind(node), [self.to_tree(s) for s in b], [self.to_tree(s) for s in o]]

    def label_tree(self, root, start=0):
        """assign fresh distinct labels (preorder) to every statement of `root`"""
        n = [start]

        def go(node):
            LIN.set(node, n[0])
            n[0] += 1
            b, o = self.blocks(node)
            for s in b + o:
                go(s)

        go(root)
        return n[0]

    # ---- internal cursors from canonical cursors
    def ipath(self, p):
        return [(ATTR_NAME[a], i) for a, i in p]

    def icursor(self, root, c):
        ic = self.ic
        if c[0] == "n":
            return ic.Node(root, self.ipath(c[1]))
        if c[0] == "b":
            return ic.Block(root, ic.Node(root, self.ipath(c[1])), ATTR_NAME[c[2]], range(c[3], c[4]))
        if c[0] == "g":
            return ic.Gap(root, ic.Node(root, self.ipath(c[1])), ic.GapType.Before if c[2] == 0 else ic.GapType.After)
        raise ValueError(c)

    def canon(self, cur):
        """canonical form of an internal cursor (None if it is not a statement-level cursor)"""
        ic = self.ic

        def cpath(p):
            out = []
            for a, i in p:
                if a not in ATTR or i is None:
                    return None
                out.append([ATTR[a], i])
            return out

        if isinstance(cur, ic.Node):
            p = cpath(cur._path)
            return None if p is None else ["n", p]
        if isinstance(cur, ic.Block):
            p = cpath(cur._anchor._path)
            if p is None or cur._attr not in ATTR:
                return None
            return ["b", p, ATTR[cur._attr], cur._range.start, cur._range.stop]
        if isinstance(cur, ic.Gap):
            p = cpath(cur._anchor._path)
            return None if p is None else ["g", p, 0 if cur._type == ic.GapType.Before else 1]
        return None

    def run_fwd(self, fwd, cur):
        """-> canonical result | 'invalid' | 'crash', exception class name"""
        try:
            r = fwd(cur)
        except self.ic.InvalidCursorError:
            return "invalid", "InvalidCursorError"
        except Exception as e:  # noqa
            return "crash", type(e).__name__
        c = self.canon(r)
        if c is None:
            return "crash", "non-statement-cursor"
        return c, None


# ============================================================================ canonical trees
def tget(t, p):
    for a, i in p:
        l = t[2 + a]
        if not (0 <= i < len(l)):
            return None
        t = l[i]
    return t


def all_paths(t, pre=()):
    yield list(pre)
    for a in (0, 1):
        for i, c in enumerate(t[2 + a]):
            yield from all_paths(c, pre + ([a, i],))


def all_cursors(t, root=True):
    out = []
    for p in all_paths(t):
        if p or root:
            out.append(["n", p])
        if p:
            out.append(["g", p, 0])
            out.append(["g", p, 1])
        n = tget(t, p)
        for a in (0, 1):
            ln = len(n[2 + a])
            for lo in range(ln):
                for hi in range(lo + 1, ln + 1):
                    out.append(["b", p, a, lo, hi])
    return out


def labels_under(t, acc=None):
    acc = set() if acc is None else acc
    acc.add(t[0])
    for a in (0, 1):
        for c in t[2 + a]:
            labels_under(c, acc)
    return acc


def is_prefix(p, q):
    return len(p) <= len(q) and q[: len(p)] == p


# ============================================================================ the spec on real results
def check_forward(old, new, cur, res, old_labels=None, new_labels=None):
    """the property, decided on lineage labels only (independent of the Lean model).
    returns (verdict, detail): verdict in ok | invalid | replaced | lost-members | <symptom>"""
    old_labels = old_labels if old_labels is not None else labels_under(old)
    new_labels = new_labels if new_labels is not None else labels_under(new)
    if res == "invalid":
        return "invalid", None
    if res == "crash":
        return "crash", None
    if res[0] != cur[0]:
        return "cursor-kind-changed", res
    if cur[0] in ("n", "g"):
        if cur[0] == "g" and res[2] != cur[2]:
            return "gap-type-changed", res
        src = tget(old, cur[1])
        dst = tget(new, res[1])
        if dst is None:
            return "dangling", res
        if cur[0] == "g" and not res[1]:
            return "dangling", res
        if dst[0] == src[0]:
            return "ok", None
        if dst[0] not in old_labels and src[0] not in new_labels:
            return "replaced", None        # the statement is gone, the cursor sits on its replacement
        return "wrong-statement", {"landed": res, "label": dst[0], "expected": src[0],
                                   "expected_survives": src[0] in new_labels}
    # block
    _, p, a, lo, hi = cur
    _, p2, a2, lo2, hi2 = res
    n2 = tget(new, p2)
    if n2 is None:
        return "dangling-block", res
    if not (0 <= lo2 <= hi2 <= len(n2[2 + a2])):
        return "dangling-block", res
    if lo2 == hi2:
        return "empty-block", res
    n = tget(old, p)
    cov_old = set()
    for m in n[2 + a][lo:hi]:
        labels_under(m, cov_old)
    surviving = cov_old & new_labels
    kept = set()
    for m in n2[2 + a2][lo2:hi2]:
        under = labels_under(m)
        carried = under & old_labels
        # a member is foreign if it carries old statements but none of the block's own
        # (a wrapper built by `update` of an enclosing statement keeps that statement's label)
        if carried and not (carried & cov_old):
            return "foreign-member", {"block": res, "member_label": m[0]}
        kept |= carried & cov_old
    if surviving and not kept:
        return "lost-all-members", res
    if surviving - kept:
        return "lost-members", None
    return "ok", None


BAD = {"crash", "cursor-kind-changed", "gap-type-changed", "dangling", "wrong-statement", "dangling-block",
       "empty-block", "foreign-member", "lost-all-members"}


# ============================================================================ classification
def move_bug_condition(bp, ba, lo, gap_path):
    """`new_gap_path` subtracts at the first difference although it is above the block's list"""
    bsp = bp + [[ba, lo]]
    if not (len(bp) <= len(gap_path) - 1):
        return False
    for k, (bs, gs) in enumerate(zip(bsp, gap_path)):
        if bs != gs:
            return k < len(bp) and bs[0] == gs[0] and bs[1] < gs[1]
    return False


def classify(edit, cur, verdict):
    """stable key of a deviation observed at one atomic edit (edit = canonical params)"""
    k = edit["k"]
    ck = {"n": "node", "g": "gap", "b": "block"}[cur[0]]
    if k == "wrap":
        if not edit.get("direct", True):
            return "wrap:ctor-not-direct"
    if k == "move":
        gp = edit["gap_path"]
        if cur[0] in ("n", "g"):
            p = cur[1]
            through = is_prefix(edit["bp"], p) and len(p) > len(edit["bp"]) and p[len(edit["bp"])][0] == edit["a"] \
                and edit["lo"] <= p[len(edit["bp"])][1] < edit["hi"]
            if through and move_bug_condition(edit["bp"], edit["a"], edit["lo"], gp):
                return "move:%s-in-moved-block:gap-path-shifted-above-the-moved-blocks-list" % ck
        else:
            _, p, a, lo, hi = cur
            deeper = is_prefix(edit["bp"], p) and len(p) > len(edit["bp"]) and p[len(edit["bp"])][0] == edit["a"] \
                and edit["lo"] <= p[len(edit["bp"])][1] < edit["hi"]
            if deeper and move_bug_condition(edit["bp"], edit["a"], edit["lo"], gp):
                return "move:block-in-moved-block:gap-path-shifted-above-the-moved-blocks-list"
            same = p == edit["bp"] and a == edit["a"]
            inter = same and max(lo, edit["lo"]) < min(hi, edit["hi"])
            inside = inter and edit["lo"] <= lo and hi <= edit["hi"]
            gapin = p == gp[:-1] and a == gp[-1][0] and lo < gp[-1][1] < hi
            if inside and move_bug_condition(edit["bp"], edit["a"], edit["lo"], gp):
                return "move:block-in-moved-block:gap-path-shifted-above-the-moved-blocks-list"
            if inside and a != gp[-1][0]:
                return "move:block-cursor-moved-to-other-attr:attr-kept"
            if inter and not inside:
                return "move:block-cursor-overlaps-moved-range:forwarded-through-end-points"
            if gapin and verdict == "foreign-member":
                # like `insert`: a block that strictly contains the insertion point grows around
                # what is put there -- not counted as a deviation
                return "by-design:block-grows-around-moved-in-statements"
            if gapin:
                return "move:block-cursor-contains-target-gap:forwarded-through-end-points"
    if k == "nodeReplace":
        p, q = cur[1], edit["p"]
        if len(p) >= len(q) and p[: len(q) - 1] == q[:-1] and p[len(q) - 1][0] == q[-1][0] and p[len(q) - 1][1] != q[-1][1]:
            return "node_replace:sibling-forwards-to-replaced-node"
    if k == "insert" and cur[0] == "b" and verdict == "foreign-member":
        gp = gap_path_of(edit["anchor"], edit["ty"])
        if cur[1] == gp[:-1] and cur[2] == gp[-1][0] and cur[3] < gp[-1][1] < cur[4]:
            return "by-design:block-grows-around-inserted-statements"
    if k in ("delete", "replace") and cur[0] == "b" and verdict == "empty-block":
        if cur[1] == edit["bp"] and cur[2] == edit["a"] and cur[3] == edit["lo"] and cur[4] == edit["hi"]:
            return "delete:block-cursor-equal-to-deleted-range:forwards-to-empty-block"
    return "%s:%s-cursor:%s" % (k, ck, verdict)


# ============================================================================ random procedures (stream A/S)
HEADER = "from __future__ import annotations\nfrom exo import proc, config\n"
SIG = "(n: size, m: size, a: f32, b: f32, x: f32[n], y: f32[m])"


def gen_block_src(rng, depth, maxdepth, maxlen, ind, vars_):
    lines = []
    ln = rng.randint(1, maxlen)
    for _ in range(ln):
        r = rng.random()
        if depth < maxdepth and r < 0.30:
            v = "i%d" % depth
            lines.append(" " * ind + "for %s in seq(0, %s):" % (v, rng.choice(["n", "m", "4"])))
            lines += gen_block_src(rng, depth + 1, maxdepth, maxlen, ind + 4, vars_ + [v])
        elif depth < maxdepth and r < 0.55:
            lines.append(" " * ind + "if %s:" % rng.choice(["n > 2", "m > 1", "n < m"]))
            lines += gen_block_src(rng, depth + 1, maxdepth, maxlen, ind + 4, vars_)
            if rng.random() < 0.6:
                lines.append(" " * ind + "else:")
                lines += gen_block_src(rng, depth + 1, maxdepth, maxlen, ind + 4, vars_)
        else:
            lines.append(" " * ind + rng.choice(["a = 1.0", "b = 2.0", "a += b", "b += 1.0", "pass", "a = b"]))
    return lines


class ProcFactory:
    """writes `@proc` source text into scratch modules and imports them"""

    def __init__(self, tmp):
        self.tmp = Path(tmp)
        self.n = 0
        if str(self.tmp) not in sys.path:
            sys.path.insert(0, str(self.tmp))

    def load(self, sources):
        """sources: list of function source texts (def name must be p<k>) -> list of Procedure|Exception"""
        self.n += 1
        mod = "c06_scratch_%d" % self.n
        text = HEADER
        for i, s in enumerate(sources):
            name = re.search(r"^def (\w+)", s, re.M).group(1)
            text += "\ntry:\n" + textwrap.indent(s, "    ") + "\n    R%d = %s\nexcept Exception as e:\n    R%d = e\n" % (i, name, i)
        (self.tmp / (mod + ".py")).write_text(text)
        importlib.invalidate_caches()
        m = importlib.import_module(mod)
        return [getattr(m, "R%d" % i) for i in range(len(sources))]


def random_proc_sources(rng, count, maxdepth=3, maxlen=4):
    out = []
    for k in range(count):
        body = gen_block_src(rng, 1, maxdepth, maxlen, 4, [])
        out.append("@proc\ndef p%d%s:\n" % (k, SIG) + "\n".join(body))
    return out


# ============================================================================ stream A / S
def nonroot_paths(t):
    return [p for p in all_paths(t) if p]


def all_blocks(t, allow_empty=False):
    out = []
    for p in all_paths(t):
        n = tget(t, p)
        for a in (0, 1):
            ln = len(n[2 + a])
            has_attr = (a == 0 and n[1] in (0, 1, 2)) or (a == 1 and n[1] == 2)
            for lo in range(ln + 1):
                for hi in range(lo, ln + 1):
                    if hi > lo or (allow_empty and has_attr):
                        out.append((p, a, lo, hi))
    return out


def gap_path_of(anchor, ty):
    return anchor[:-1] + [[anchor[-1][0], anchor[-1][1] + (1 if ty == 1 else 0)]]


class Draws:
    """random choices that are logged (and can be replayed from the log)"""

    def __init__(self, rng=None, recorded=None):
        self.rng = rng
        self.rec = list(recorded) if recorded is not None else None
        self.log = []

    def _next(self, gen):
        v = self.rec.pop(0) if self.rec is not None else gen()
        self.log.append(v)
        return v

    def randint(self, a, b):
        return self._next(lambda: self.rng.randint(a, b))

    def random(self):
        return self._next(lambda: self.rng.random())

    def choice(self, seq):
        return seq[self._next(lambda: self.rng.randrange(len(seq)))]


class AtomicCase:
    """one atomic edit on a real procedure: builds the real arguments and the model request"""

    def __init__(self, env, root, tree, rng):
        self.env, self.root, self.tree, self.rng = env, root, tree, rng
        self.next_label = 1000

    def fresh_pass(self):
        L = self.env.LoopIR
        s = L.Pass(self.root.srcinfo)
        LIN.set(s, self.next_label)
        self.next_label += 1
        return s

    def build(self, kind):
        """-> (edit_json_for_model, canonical_params, thunk running the real edit) or None"""
        env, rng, t = self.env, self.rng, self.tree
        L, ic = env.LoopIR, env.ic
        si = self.root.srcinfo
        if kind == "insert":
            p = rng.choice(nonroot_paths(t))
            ty = rng.randint(0, 1)
            stmts = [self.fresh_pass() for _ in range(rng.randint(1, 2))]
            ej = {"k": "insert", "anchor": p, "ty": ty, "stmts": [env.to_tree(s) for s in stmts]}
            return ej, dict(ej), lambda: env.icursor(self.root, ["g", p, ty])._insert(stmts)
        if kind in ("replace", "delete", "wrap", "move"):
            blocks = all_blocks(t, allow_empty=(kind == "replace" and rng.random() < 0.2))
            if kind != "replace":
                blocks = [b for b in blocks if b[3] > b[2]]
            p, a, lo, hi = rng.choice(blocks)
            blk = ic.Block(self.root, ic.Node(self.root, env.ipath(p)), ATTR_NAME[a], range(lo, hi))
            base = {"bp": p, "a": a, "lo": lo, "hi": hi}
            if kind == "replace":
                nodes = [self.fresh_pass() for _ in range(rng.randint(0, 2))]
                ej = dict(base, k="replace", nodes=[env.to_tree(s) for s in nodes], empty=[])
                return ej, dict(ej), lambda: blk._replace(nodes)
            if kind == "delete":
                ej = dict(base, k="delete")
                ej["pass"] = [FRESH, PASS_KIND, [], []]
                return ej, dict(ej), lambda: blk._delete()
            if kind == "wrap":
                variant = rng.choice(["for", "if-body", "if-orelse", "indirect"])
                wl = self.next_label
                self.next_label += 2
                one = L.Const(1, env.T.index, si)
                cond = L.Const(True, env.T.bool, si)
                other_nodes = [self.fresh_pass()] if variant == "if-orelse" else []

                def ctor(**kw):
                    (wa, nodes), = kw.items()
                    if variant == "for":
                        w = L.For(env.Sym("w"), one, one, nodes, L.Seq(), si)
                    elif variant == "if-body":
                        w = L.If(cond, nodes, [], si)
                    elif variant == "if-orelse":
                        w = L.If(cond, other_nodes, nodes, si)
                    else:
                        inner = L.If(cond, nodes, [], si)
                        LIN.set(inner, wl + 1)
                        w = L.For(env.Sym("w"), one, one, [inner], L.Seq(), si)
                    LIN.set(w, wl)
                    return w

                wa = 1 if variant == "if-orelse" else 0
                wk = 1 if variant in ("for", "indirect") else 2
                ej = dict(base, k="wrap", wa=wa,
                          ctor={"label": wl, "kind": wk, "other": [env.to_tree(s) for s in other_nodes],
                                "inner": [wl + 1, 2] if variant == "indirect" else None})
                params = dict(ej, direct=(variant != "indirect"), variant=variant)
                return ej, params, lambda: blk._wrap(ctor, ATTR_NAME[wa])
            if kind == "move":
                gaps = []
                for q in nonroot_paths(t):
                    inside_deeper = any(is_prefix(p + [[a, i]], q) and len(q) > len(p) + 1 for i in range(lo, hi))
                    # `target in self` with the block at the end of its list: `_move` itself raises
                    # IndexError (re-inserts at the deleted anchor) -- outside the scope of forwarding
                    in_self_q = q[:-1] == p and q[-1][0] == a and lo <= q[-1][1] < hi
                    if in_self_q and hi == len(tget(t, p)[2 + a]):
                        continue
                    if not inside_deeper:
                        gaps.append(q)
                if not gaps:
                    return None
                q = rng.choice(gaps)
                ty = rng.randint(0, 1)
                ej = dict(base, k="move", ganchor=q, gty=ty)
                ej["pass"] = [FRESH, PASS_KIND, [], []]
                in_self = q[:-1] == p and q[-1][0] == a and lo <= q[-1][1] < hi
                params = dict(ej, gap_path=gap_path_of(p + [[a, lo]], 0) if in_self else gap_path_of(q, ty))
                return ej, params, lambda: blk._move(env.icursor(self.root, ["g", q, ty]))
        if kind == "nodeReplace":
            p = rng.choice(nonroot_paths(t))
            old = ic.Node(self.root, env.ipath(p))._node
            if isinstance(old, (L.For, L.If)) or rng.random() < 0.5:
                new = old.update(srcinfo=si)       # same lineage, same children
            else:
                new = self.fresh_pass()
            ej = {"k": "nodeReplace", "p": p, "ast": env.to_tree(new)}
            return ej, dict(ej), lambda: ic.Node(self.root, env.ipath(p))._replace(new)
        if kind == "touch":
            cands = []
            for p in nonroot_paths(t):
                node = ic.Node(self.root, env.ipath(p))._node
                if isinstance(node, (L.Assign, L.Reduce)):
                    cands.append((p, "rhs", L.Const(3.0, node.rhs.type, si)))
                elif isinstance(node, L.For):
                    cands.append((p, "hi", L.Const(5, env.T.index, si)))
                elif isinstance(node, L.If):
                    cands.append((p, "cond", L.Const(True, env.T.bool, si)))
            if not cands:
                return None
            p, attr, e = rng.choice(cands)
            ej = {"k": "touch", "p": p}
            return ej, dict(ej, attr=attr), lambda: ic.Node(self.root, env.ipath(p))._child_node(attr)._replace(e)
        return None


EDIT_KINDS = ["insert", "replace", "delete", "wrap", "move", "nodeReplace", "touch"]


def has_negative(res):
    return isinstance(res, list) and any(i < 0 for _, i in res[1])


def compare_with_model(ctx, pending, where):
    """pending: list of dicts(request, real_tree, real_fwd, replay, params); runs the driver once"""
    if not pending:
        return
    answers = lean_batch(LEAN / "Drivers" / "C06.lean", [json.dumps(c["request"]) for c in pending])
    for c, line in zip(pending, answers):
        ans = json.loads(line)
        k = c["params"]["k"]
        if "error" in ans:
            raise InfraError("C06 driver rejected a request: %s / %s" % (ans["error"], json.dumps(c["request"])[:300]))
        if ans["tree"] != c["real_tree"]:
            ctx.count("A_tree_mismatch")
            ctx.violation("%s:%s:tree-differs-from-model" % (where, k),
                          "new tree of real %s differs from the model's" % k,
                          dict(c["replay"], model_tree=ans["tree"], real_tree=c["real_tree"]), no_input=True)
            continue
        negative = k == "move" and move_bug_condition(c["params"]["bp"], c["params"]["a"], c["params"]["lo"],
                                                      c["params"]["gap_path"])
        for cur, real, model in zip(c["request"]["cursors"], c["real_fwd"], ans["fwd"]):
            if negative and (has_negative(real) or (cur[0] == "b" and real == "crash")):
                # Python's `gs[1] - edit_n` went below zero (only in the proved-wrong case of
                # `_forward_move`); the model's indices are naturals
                ctx.count("A_skipped:move-negative-index")
                continue
            ctx.evaluated((where, k, json.dumps(cur), json.dumps(real)), nontrivial=True)
            if real != model:
                ctx.count("A_fwd_mismatch")
                ctx.violation("%s:%s:%s-cursor:forwarding-differs-from-model" % (where, k, cur[0]),
                              "real forwarding of %s differs from the model (real %s, model %s)" % (cur, real, model),
                              dict(c["replay"], cursor=cur, real=real, model=model), no_input=True)
                break
        else:
            ctx.count("A_agree:" + where + ":" + k)


def property_on_atomic(ctx, env, old_tree, new_tree, params, cursors, results, replay, where):
    """stream S: lineage check of the real results of one atomic edit"""
    if params["k"] == "wrap" and not params.get("direct", True):
        ctx.count("S_skipped:wrap-ctor-not-direct")
        return
    ol, nl = labels_under(old_tree), labels_under(new_tree)
    for cur, res in zip(cursors, results):
        if params["k"] == "nodeReplace" and cur[1][: len(params["p"])] == params["p"] and cur[1] != params["p"]:
            continue      # below the replaced node: only meaningful if the new node has the same shape
        v, detail = check_forward(old_tree, new_tree, cur, res, ol, nl)
        ctx.count("S_%s:%s" % (where, v))
        if v in BAD:
            key = classify(params, cur, v)
            if key.startswith("by-design:"):
                ctx.count("S_" + key)
                continue
            ctx.count("Skey:" + key)
            ctx.violation(key, "atomic %s: %s cursor %s forwards to %s (%s)" % (params["k"], cur[0], cur, res, v),
                          dict(replay, cursor=cur, forwarded=res, verdict=v, detail=detail, edit=params))


def atomic_case(ctx, env, root, tree, cursors, src, kind, draws, pending):
    ac = AtomicCase(env, root, tree, draws)
    built = ac.build(kind)
    if built is None:
        return None
    ej, params, thunk = built
    replay = {"stream": "A", "source": src, "kind": kind, "draws": list(draws.log), "edit": params}
    try:
        ir2, fwd = thunk()
    except Exception as e:  # noqa
        ctx.count("A_real_edit_raised:%s:%s" % (kind, type(e).__name__))
        ctx.violation("A:%s:real-edit-raised:%s" % (kind, type(e).__name__),
                      "real %s raised %s on a valid location" % (kind, type(e).__name__), replay)
        return None
    new_tree = env.to_tree(ir2)
    real_cursors = [env.icursor(root, c) for c in cursors]
    results = [env.run_fwd(fwd, rc)[0] for rc in real_cursors]
    pending.append({"request": {"tree": tree, "edit": ej, "cursors": cursors}, "real_tree": new_tree,
                    "real_fwd": results, "replay": replay, "params": params})
    property_on_atomic(ctx, env, tree, new_tree, params, cursors, results, replay, "A")
    return new_tree, results


def stream_atomic(ctx, env, fac):
    rng = ctx.rng
    n_procs = ctx.scale(50, 400)
    edits_per_kind = ctx.scale(2, 4)
    pending = []
    batch = 20
    for b0 in range(0, n_procs, batch):
        srcs = random_proc_sources(rng, min(batch, n_procs - b0), maxdepth=rng.choice([2, 3, 3]), maxlen=rng.choice([2, 3, 4]))
        procs = fac.load(srcs)
        for src, pr in zip(srcs, procs):
            if isinstance(pr, Exception):
                ctx.count("A_frontend_rejected:" + type(pr).__name__)
                continue
            root = pr.INTERNAL_proc()
            LIN.reset()
            env.label_tree(root)
            tree = env.to_tree(root)
            cursors = all_cursors(tree)
            if len(cursors) > 400:
                cursors = [c for c in cursors if c[0] != "b"] + rng.sample([c for c in cursors if c[0] == "b"], 150)
            for kind in EDIT_KINDS:
                for _ in range(edits_per_kind):
                    atomic_case(ctx, env, root, tree, cursors, src, kind, Draws(rng), pending)
            ctx.sample({"stream": "A", "source": src, "cursors": len(cursors)}, limit=2)
        if len(pending) >= 2500:
            compare_with_model(ctx, pending, "A")
            pending = []
    compare_with_model(ctx, pending, "A")


# ============================================================================ stream X: real primitives
XSIG = "(n: size, m: size, x: f32[n], y: f32[n], u: f32[16], v: f32[16], a: f32, b: f32)"
LEAVES = ["a = 1.0", "b = 2.0", "pass", "a += b", "b += 1.0"]
SUBPROCS = """
@proc
def sub_fill(dst: [f32][8]):
    for k in seq(0, 8):
        dst[k] = 1.0

@proc
def sub_two(p: f32[16], q: f32[16]):
    for k in seq(0, 16):
        p[k] = 1.0
    for k in seq(0, 16):
        q[k] = 2.0
"""


def S_(m): return ("s", m)
def B_(m1, m2): return ("b", m1, m2)
def BODY(m): return ("body", m)
def ORELSE(m): return ("orelse", m)
def G_(m, ty): return ("g", m, ty)
def RHS(m): return ("rhs", m)
def PROC(nm): return ("proc", nm)


def scenarios(rng):
    """-> list of (name, focus source (with #@marks), [(op, args, kwargs), ...])"""
    sc = []
    three = "for i in seq(0, n):  #@L\n    x[i] = 1.0  #@s1\n    y[i] = 2.0  #@s2\n    x[i] += 3.0  #@s3\n"
    sc.append(("reorder_stmts", "for i in seq(0, n):  #@L\n    x[i] = 1.0  #@s1\n    y[i] = 2.0  #@s2\n    a = 3.0  #@s3\n",
               [("reorder_stmts", [B_("s1", "s2")], {})]))
    sc.append(("reorder_stmts2", "u[0] = 1.0  #@s1\nv[0] = 2.0  #@s2\nu[1] = 1.0  #@s3\n",
               [("reorder_stmts", [B_(*rng.choice([("s1", "s2"), ("s2", "s3")]))], {})]))
    const3 = "for i in seq(0, 16):  #@L\n    u[i] = 1.0  #@s1\n    v[i] = 2.0  #@s2\n    u[i] += 3.0  #@s3\n"
    sc.append(("cut_loop", const3, [("cut_loop", [S_("L"), rng.choice([3, 4, 8])], {})]))
    sc.append(("join_loops", "for i in seq(0, 8):  #@L1\n    u[i] = 1.0  #@s1\n    v[i] = 2.0 #@s2\nfor i in seq(8, 16):  #@L2\n    u[i] = 1.0  #@t1\n    v[i] = 2.0 #@t2\n",
               [("join_loops", [S_("L1"), S_("L2")], {})]))
    sc.append(("shift_loop", const3, [("shift_loop", [S_("L"), rng.choice([1, 2, 5])], {})]))
    for tail in ["guard", "cut", "cut_and_guard"]:
        sc.append(("divide_loop:" + tail, three, [("divide_loop", [S_("L"), rng.choice([2, 4]), ["io", "ii"]], {"tail": tail})]))
    sc.append(("divide_loop:perfect", const3, [("divide_loop", [S_("L"), 4, ["io", "ii"]], {"perfect": True})]))
    nest = "for i in seq(0, 4):  #@L\n    for j in seq(0, 4):  #@M\n        u[4 * i + j] = 1.0  #@s1\n        v[4 * i + j] = 2.0  #@s2\n"
    sc.append(("mult_loops", nest, [("mult_loops", [S_("L"), "k"], {})]))
    sc.append(("reorder_loops", nest, [("reorder_loops", [S_("L")], {})]))
    sc.append(("unroll_loop", "for i in seq(0, 3):  #@L\n    u[i] = 1.0  #@s1\n    v[i] = 2.0  #@s2\n", [("unroll_loop", [S_("L")], {})]))
    sc.append(("fission:1", three, [("fission", [G_(rng.choice(["s1", "s2"]), 1)], {})]))
    sc.append(("fission:2", "for i in seq(0, 4):  #@L\n    for j in seq(0, 4):  #@M\n        u[4 * i + j] = 1.0  #@s1\n        v[4 * i + j] = 2.0  #@s2\n        u[4 * i + j] += 1.0  #@s3\n",
               [("fission", [G_(rng.choice(["s1", "s2"]), 1)], {"n_lifts": 2})]))
    sc.append(("fission:if", "for i in seq(0, n):  #@L\n    if i < 4:  #@I\n        x[i] = 1.0  #@s1\n        y[i] = 2.0  #@s2\n    else:\n        x[i] = 3.0  #@e1\n        y[i] = 4.0  #@e2\n",
               [("fission", [G_(rng.choice(["s1", "e1"]), 1)], {"n_lifts": rng.choice([1, 2])})]))
    sc.append(("autofission", three, [("autofission", [G_("s1", 1)], {"n_lifts": 1})]))
    sc.append(("fuse:for", "for i in seq(0, n):  #@L1\n    x[i] = 1.0  #@s1\n    x[i] += 1.0  #@s2\nfor j in seq(0, n):  #@L2\n    y[j] = 2.0  #@t1\n    y[j] += 2.0  #@t2\n",
               [("fuse", [S_("L1"), S_("L2")], {})]))
    sc.append(("fuse:if", "if n > 3:  #@L1\n    u[0] = 1.0  #@s1\nelse:\n    u[1] = 1.0  #@s2\nif n > 3:  #@L2\n    v[0] = 2.0  #@t1\n    v[2] = 2.0  #@t3\nelse:\n    v[1] = 2.0  #@t2\n",
               [("fuse", [S_("L1"), S_("L2")], {})]))
    sc.append(("lift_scope:if-out-of-for", "for i in seq(0, 8):  #@L\n    if n > 3:  #@I\n        u[i] = 1.0  #@s1\n        v[i] = 1.0  #@s2\n    else:\n        u[i] = 2.0  #@e1\n",
               [("lift_scope", [S_("I")], {})]))
    sc.append(("lift_scope:for-out-of-if", "if n > 3:  #@I\n    for i in seq(0, 8):  #@L\n        u[i] = 1.0  #@s1\n        v[i] = 1.0  #@s2\n",
               [("lift_scope", [S_("L")], {})]))
    sc.append(("lift_scope:if-if-body", "if n > 3:  #@O\n    if m > 3:  #@I\n        u[0] = 1.0  #@s1\n    else:\n        u[1] = 2.0  #@s2\nelse:\n    u[2] = 3.0  #@s3\n    u[3] = 3.0  #@s4\n",
               [("lift_scope", [S_("I")], {})]))
    sc.append(("lift_scope:if-if-orelse", "if n > 3:  #@O\n    u[2] = 3.0  #@s3\n    u[3] = 3.0  #@s4\nelse:\n    if m > 3:  #@I\n        u[0] = 1.0  #@s1\n    else:\n        u[1] = 2.0  #@s2\n",
               [("lift_scope", [S_("I")], {})]))
    sc.append(("lift_scope:for-for", nest, [("lift_scope", [S_("M")], {})]))
    for guard in (False, True):
        sc.append(("add_loop:guard=%s" % guard, "u[0] = 1.0  #@s0\nu[1] = 1.0  #@s1\nu[2] = 1.0  #@s2\n",
                   [("add_loop", [S_(rng.choice(["s0", "s1", "s2"])), "q", rng.choice([2, 4])], {"guard": guard})]))
    sc.append(("remove_loop", "for q in seq(0, 4):  #@L\n    u[0] = 1.0  #@s1\n    v[0] = 2.0  #@s2\n", [("remove_loop", [S_("L")], {})]))
    sc.append(("remove_loop:n", "for q in seq(0, n):  #@L\n    u[0] = 1.0  #@s1\n    v[0] = 2.0  #@s2\n", [("remove_loop", [S_("L")], {})]))
    sc.append(("insert_pass", three, [("insert_pass", [G_(rng.choice(["L", "s1", "s2", "s3"]), rng.randint(0, 1))], {})]))
    sc.append(("delete_pass", "for i in seq(0, n):  #@L\n    pass  #@p1\n    x[i] = 1.0  #@s1\n    pass  #@p2\nif n > 2:  #@I\n    pass  #@p3\n", [("delete_pass", [], {})]))
    sc.append(("specialize", three, [("specialize", [rng.choice([S_("L"), B_("s1", "s2"), B_("s2", "s3"), S_("s2")]), rng.choice([["n > 4"], ["n > 4", "n > 2"]])], {})]))
    alloc_in = "for i in seq(0, n):  #@L\n    y[i] = 0.0  #@s0\n    t: f32  #@A\n    t = 1.0  #@s1\n    x[i] = t  #@s2\n"
    sc.append(("lift_alloc", alloc_in, [("lift_alloc", [S_("A")], {})]))
    sc.append(("lift_alloc:2", "for i in seq(0, 4):  #@L\n    for j in seq(0, 4):  #@M\n        v[j] = 0.0  #@s0\n        t: f32  #@A\n        t = 1.0  #@s1\n        u[4 * i + j] = t  #@s2\n",
               [("lift_alloc", [S_("A")], {"n_lifts": 2})]))
    sc.append(("autolift_alloc", alloc_in, [("autolift_alloc", [S_("A")], {"n_lifts": 1, "keep_dims": True})]))
    sc.append(("sink_alloc", "t: f32  #@A\nfor i in seq(0, n):  #@L\n    t = 1.0  #@s1\n    x[i] = t  #@s2\n", [("sink_alloc", [S_("A")], {})]))
    sc.append(("sink_alloc:if", "t: f32  #@A\nif n > 2:  #@L\n    t = 1.0  #@s1\n    u[0] = t  #@s2\nelse:\n    t = 2.0  #@e1\n    u[1] = t  #@e2\n", [("sink_alloc", [S_("A")], {})]))
    sc.append(("expand_dim+lift_alloc", alloc_in, [("expand_dim", [S_("A"), "n", "i"], {}), ("lift_alloc", [S_("A")], {})]))
    sc.append(("bind_expr", "for i in seq(0, n):  #@L\n    x[i] = y[i] * 2.0  #@s1\n    y[i] = 3.0  #@s2\n", [("bind_expr", [[RHS("s1")], "tmp"], {})]))
    sc.append(("stage_mem", const3, [("stage_mem", [rng.choice([S_("L"), B_("s1", "s2"), B_("s1", "s3")]), "u[0:16]", "us"], {})]))
    sc.append(("simplify", "for i in seq(0, 4 + 4):  #@L\n    u[i + 0] = 1.0 * 2.0  #@s1\n    if 1 < 2:  #@I\n        v[i] = 2.0  #@s2\n    else:\n        v[i] = 3.0  #@s3\n", [("simplify", [], {})]))
    sc.append(("eliminate_dead_code:then", "if n > 0:  #@I\n    u[0] = 1.0  #@s1\n    u[1] = 1.0  #@s2\nelse:\n    u[2] = 2.0  #@e1\n", [("eliminate_dead_code", [S_("I")], {})]))
    sc.append(("eliminate_dead_code:else", "if n < 0:  #@I\n    u[0] = 1.0  #@s1\nelse:\n    u[2] = 2.0  #@e1\n    u[3] = 2.0  #@e2\n", [("eliminate_dead_code", [S_("I")], {})]))
    sc.append(("eliminate_dead_code:for", "u[5] = 0.0  #@s0\nfor i in seq(0, 0):  #@I\n    u[i] = 1.0  #@s1\nu[6] = 0.0  #@s2\n", [("eliminate_dead_code", [S_("I")], {})]))
    sc.append(("inline", "u[9] = 0.0  #@s0\nsub_fill(u[0:8])  #@C\nu[10] = 0.0  #@s1\n", [("inline", [S_("C")], {})]))
    sc.append(("replace", "for k in seq(0, 16):  #@L1\n    u[k] = 1.0  #@s1\nfor k in seq(0, 16):  #@L2\n    v[k] = 2.0  #@s2\n", [("replace", [B_("L1", "L2"), PROC("sub_two")], {"quiet": True})]))
    sc.append(("extract_subproc", const3, [("extract_subproc", [rng.choice([S_("L"), B_("s1", "s2"), B_("s2", "s3")]), "extracted"], {})]))
    sc.append(("merge_writes", "u[0] = 1.0  #@s1\nu[0] = 2.0  #@s2\nv[0] = 1.0  #@s3\n", [("merge_writes", [B_("s1", "s2")], {})]))
    sc.append(("fold_into_reduce", "u[0] = u[0] + 1.0  #@s1\nv[0] = 1.0  #@s2\n", [("fold_into_reduce", [S_("s1")], {})]))
    sc.append(("inline_assign", "t: f32  #@A\nt = 2.0  #@s1\nu[0] = t  #@s2\nu[1] = t  #@s3\n", [("inline_assign", [S_("s1")], {})]))
    sc.append(("split_write", "u[0] = 1.0 + 2.0  #@s1\nv[0] = 1.0  #@s2\n", [("split_write", [S_("s1")], {})]))
    sc.append(("rewrite_expr", "for i in seq(0, 8):  #@L\n    u[i] = 1.0  #@s1\n    v[i] = u[i]  #@s2\n", [("rewrite_expr", [RHS("s1"), "1.0"], {})]))
    sc.append(("set_memory", alloc_in, [("set_memory", [S_("A"), "DRAM_STATIC"], {})]))
    sc.append(("set_precision", alloc_in, [("set_precision", [S_("A"), "f32"], {})]))
    sc.append(("delete_buffer", "t: f32  #@A\nu[0] = 1.0  #@s1\n", [("delete_buffer", [S_("A")], {})]))
    sc.append(("reuse_buffer", "t: f32  #@A\nt = 1.0  #@s1\nu[0] = t  #@s2\nw: f32  #@B\nw = 2.0  #@s3\nu[1] = w  #@s4\n", [("reuse_buffer", [S_("A"), S_("B")], {})]))
    sc.append(("divide_dim", "t: f32[16]  #@A\nfor i in seq(0, 16):  #@L\n    t[i] = 1.0  #@s1\n    u[i] = t[i]  #@s2\n", [("divide_dim", [S_("A"), 0, 4], {})]))
    sc.append(("resize_dim", "t: f32[16]  #@A\nfor i in seq(0, 8):  #@L\n    t[i + 2] = 1.0  #@s1\n    u[i] = t[i + 2]  #@s2\n", [("resize_dim", [S_("A"), 0, 8, 2], {})]))
    sc.append(("unroll_buffer", "t: f32[2]  #@A\nt[0] = 1.0  #@s1\nt[1] = 2.0  #@s2\nu[0] = t[0] + t[1]  #@s3\n", [("unroll_buffer", [S_("A"), 0], {})]))
    sc.append(("add_unsafe_guard", three, [("add_unsafe_guard", [S_("s2"), "i == 0"], {})]))
    sc.append(("parallelize_loop", "for i in seq(0, n):  #@L\n    x[i] = 1.0  #@s1\n", [("parallelize_loop", [S_("L")], {})]))
    sc.append(("divide_with_recompute", "for i in seq(0, 16):  #@L\n    u[i] = 1.0  #@s1\n    v[i] = 2.0  #@s2\n", [("divide_with_recompute", [S_("L"), "4", 4, ["io", "ii"]], {})]))
    sc.append(("lift_reduce_constant", "t: f32  #@A\nt = 0.0  #@s0\nfor i in seq(0, 16):  #@L\n    t += a * u[i]  #@s1\nv[0] = t  #@s2\n", [("lift_reduce_constant", [B_("s0", "L")], {})]))
    sc.append(("divide+fission+reorder", nest, [("divide_loop", [S_("M"), 2, ["jo", "ji"]], {"perfect": True}), ("fission", [G_("s1", 1)], {"n_lifts": 3}), ("reorder_loops", [S_("L")], {})]))
    sc.append(("fission+remove_loop", "for q in seq(0, 4):  #@L\n    u[0] = 1.0  #@s1\n    for i in seq(0, 16):  #@M\n        v[i] = 2.0  #@s2\n", [("fission", [G_("s1", 1)], {}), ("remove_loop", [S_("L")], {})]))
    sc.append(("specialize+divide", three, [("specialize", [S_("s2"), ["n > 4"]], {}), ("divide_loop", [S_("L"), 2, ["io", "ii"]], {"tail": "cut"})]))
    return sc


SPEC_TAGS = ("s", "b", "body", "orelse", "g", "rhs", "proc", "rawgap")


def enc_arg(a):
    if isinstance(a, tuple):
        return {"spec": [enc_arg(x) for x in a]}
    if isinstance(a, list):
        return [enc_arg(x) for x in a]
    return a


def dec_arg(a):
    if isinstance(a, dict) and "spec" in a:
        return tuple(dec_arg(x) for x in a["spec"])
    if isinstance(a, list):
        return [dec_arg(x) for x in a]
    return a


def embed(rng, focus):
    """random surroundings of the focus code; returns the body lines (4-space indented once)"""
    lines = [l for l in focus.rstrip("\n").split("\n")]

    def leaves(k):
        return [rng.choice(LEAVES) for _ in range(k)]

    lines = leaves(rng.randint(0, 2)) + lines + leaves(rng.randint(0, 2))
    for d in range(rng.randint(0, 2)):
        ind = ["    " + l for l in lines]
        kind = rng.choice(["for", "ifbody", "ifelse", "ifboth"])
        if kind == "for":
            lines = ["for c%d in seq(0, 3):" % d] + ind
        elif kind == "ifbody":
            lines = ["if m > %d:" % (d + 1)] + ind
        elif kind == "ifelse":
            lines = ["if m > %d:" % (d + 1)] + ["    " + l for l in leaves(rng.randint(1, 2))] + ["else:"] + ind
        else:
            lines = ["if m > %d:" % (d + 1)] + ind + ["else:"] + ["    " + l for l in leaves(rng.randint(1, 2))]
        lines = leaves(rng.randint(0, 1)) + lines + leaves(rng.randint(0, 1))
    return ["    " + l for l in lines]


class Tracer:
    """records the outermost atomic edits performed by the primitives and (on demand) the
    calls of their forwarding functions"""

    def __init__(self, env):
        self.env = env
        self.depth = 0
        self.recording = False
        self.tracing = False
        self.steps = []
        self.calls = []
        self.op = None
        ic = env.ic
        self.wrap_method(ic.Block, "_replace", "replace")
        self.wrap_method(ic.Block, "_delete", "delete")
        self.wrap_method(ic.Block, "_wrap", "wrap")
        self.wrap_method(ic.Block, "_move", "move")
        self.wrap_method(ic.Gap, "_insert", "insert")
        self.wrap_method(ic.Node, "_replace", "nodeReplace")

    def wrap_method(self, cls, name, kind):
        orig = getattr(cls, name)
        tr = self

        def wrapped(cur, *a, **kw):
            if tr.depth > 0 or not tr.recording:
                return orig(cur, *a, **kw)
            tr.depth += 1
            try:
                ir, fwd = orig(cur, *a, **kw)
            finally:
                tr.depth -= 1
            idx = len(tr.steps)
            tr.steps.append({"kind": kind, "cur": cur, "args": a, "kw": kw, "src": cur._root, "dst": ir, "fwd": fwd,
                             "op": tr.op})

            def fwd2(c):
                try:
                    r = fwd(c)
                except BaseException as e:  # noqa
                    if tr.tracing:
                        tr.calls.append((idx, c, e))
                    raise
                if tr.tracing:
                    tr.calls.append((idx, c, r))
                return r

            return ir, fwd2

        wrapped.__c06_orig__ = orig
        setattr(cls, name, wrapped)

    def step_params(self, st):
        """canonical parameters of a recorded step + model request (None if not statement-level)"""
        env, ic = self.env, self.env.ic
        if "params" in st:
            return st["params"], st["ej"]
        kind, cur = st["kind"], st["cur"]
        params = ej = None

        def stmt_prefix(path):
            out = []
            for a, i in path:
                if a not in ATTR or i is None:
                    break
                out.append([ATTR[a], i])
            return out

        def is_stmt_block(b):
            return b._attr in ATTR and all(a in ATTR and i is not None for a, i in b._anchor._path) and \
                isinstance(b._anchor._node, (env.LoopIR.proc, env.LoopIR.For, env.LoopIR.If))

        if kind == "nodeReplace":
            path = cur._path
            ast = st["args"][0]
            if path and path[-1][1] is not None and isinstance(ast, list):
                cur = cur.as_block()
                kind = "replace"
                st = dict(st, args=(ast,))
            else:
                full = stmt_prefix(path)
                if len(full) == len(path) and path:
                    ej = {"k": "nodeReplace", "p": full, "ast": env.to_tree(ast)}
                else:
                    ej = {"k": "touch", "p": full}
                params = dict(ej)
        if kind in ("replace", "delete", "wrap", "move"):
            if not is_stmt_block(cur):
                ej = {"k": "touch", "p": stmt_prefix(cur._anchor._path)}
                params = dict(ej)
            else:
                base = {"bp": stmt_prefix(cur._anchor._path), "a": ATTR[cur._attr], "lo": cur._range.start, "hi": cur._range.stop}
                if kind == "replace":
                    nodes = st["args"][0]
                    ed = st["kw"].get("empty_default") or []
                    ej = dict(base, k="replace", nodes=[env.to_tree(x) for x in nodes], empty=[env.to_tree(x) for x in ed])
                    params = dict(ej)
                elif kind == "delete":
                    ej = dict(base, k="delete")
                    ej["pass"] = [FRESH, PASS_KIND, [], []]
                    params = dict(ej)
                elif kind == "wrap":
                    wa = st["args"][1] if len(st["args"]) > 1 else st["kw"]["wrap_attr"]
                    old_nodes = cur.resolve_all()
                    w = ic.Node(st["dst"], cur._anchor._path + [(cur._attr, cur._range.start)])._node
                    inside = getattr(w, wa)
                    direct = len(inside) == len(old_nodes) and all(p is q for p, q in zip(inside, old_nodes))
                    inner = None
                    ok = direct
                    if not direct and len(inside) == 1:
                        ib, _ = env.blocks(inside[0])
                        if len(ib) == len(old_nodes) and all(p is q for p, q in zip(ib, old_nodes)):
                            inner = [LIN.get(inside[0]), env.kind(inside[0])]
                            ok = True
                    other = getattr(w, ATTR_NAME[1 - ATTR[wa]], [])
                    ej = dict(base, k="wrap", wa=ATTR[wa],
                              ctor={"label": LIN.get(w), "kind": env.kind(w), "other": [env.to_tree(x) for x in other], "inner": inner})
                    params = dict(ej, direct=direct, modelled=ok, landing=type(inside[0]).__name__ if inside else "")
                    st["wrap_direct"] = direct
                    if not ok:
                        ej = None
                elif kind == "move":
                    g = st["args"][0]
                    q = stmt_prefix(g._anchor._path)
                    ty = 0 if g._type == ic.GapType.Before else 1
                    p, a, lo, hi = base["bp"], base["a"], base["lo"], base["hi"]
                    ej = dict(base, k="move", ganchor=q, gty=ty)
                    ej["pass"] = [FRESH, PASS_KIND, [], []]
                    in_self = q[:-1] == p and q[-1][0] == a and lo <= q[-1][1] < hi
                    params = dict(ej, gap_path=gap_path_of(p + [[a, lo]], 0) if in_self else gap_path_of(q, ty))
        if kind == "insert":
            anchor = cur._anchor
            full = stmt_prefix(anchor._path)
            if len(full) == len(anchor._path):
                ej = {"k": "insert", "anchor": full, "ty": 0 if cur._type == ic.GapType.Before else 1,
                      "stmts": [env.to_tree(x) for x in st["args"][0]]}
            else:
                ej = {"k": "touch", "p": full}
            params = dict(ej)
        st["params"], st["ej"] = params, ej
        return params, ej


def find_marks(env, root, marks_by_line):
    """marker name -> canonical path, via srcinfo.lineno"""
    out = {}

    def go(node, path):
        b, o = env.blocks(node)
        for a, lst in ((0, b), (1, o)):
            for i, s in enumerate(lst):
                ln = getattr(s.srcinfo, "lineno", None)
                nm = marks_by_line.get(ln)
                p = path + [[a, i]]
                if nm is not None and nm not in out:
                    out[nm] = p
                go(s, p)

    go(root, [])
    return out


def x_forward(env, pN, pub):
    """Procedure.forward -> canonical result | 'invalid' | 'crash', exception class"""
    try:
        r = pN.forward(pub)
    except env.ic.InvalidCursorError:
        return "invalid", "InvalidCursorError"
    except Exception as e:  # noqa
        return "crash", type(e).__name__
    c = env.canon(r._impl)
    if c is None:
        return "crash", "non-statement-cursor"
    return c, None


def raw_forward(env, p0, pN, impl):
    """the forwarding chain of Procedure.forward without lift_cursor"""
    fwds = []
    p = pN
    while p is not None and p is not p0:
        fwds.append(p._forward)
        p = p._provenance_eq_Procedure
    try:
        for fn in reversed(fwds):
            impl = fn(impl)
    except env.ic.InvalidCursorError:
        return "invalid", "InvalidCursorError"
    except Exception as e:  # noqa
        return "crash", type(e).__name__
    c = env.canon(impl)
    return (c, None) if c is not None else ("crash", "non-statement-cursor")


def build_arg(env, spec, p0, root, marks, module):
    ic, PC = env.ic, env.PC
    if isinstance(spec, tuple) and spec and spec[0] in ("s", "b", "body", "orelse", "g", "rhs", "proc"):
        k = spec[0]
        if k == "proc":
            return getattr(module, spec[1])
        path = env.ipath(marks[spec[1]])
        node = ic.Node(root, path)
        if k == "s":
            return PC.lift_cursor(node, p0)
        if k == "rhs":
            return PC.lift_cursor(node._child_node("rhs"), p0)
        if k == "g":
            return PC.lift_cursor(ic.Gap(root, node, ic.GapType.Before if spec[2] == 0 else ic.GapType.After), p0)
        if k in ("body", "orelse"):
            return PC.lift_cursor(node._child_block(k), p0)
        if k == "b":
            path2 = env.ipath(marks[spec[2]])
            assert path[:-1] == path2[:-1] and path[-1][0] == path2[-1][0]
            return PC.lift_cursor(ic.Block(root, ic.Node(root, path[:-1]), path[-1][0], range(path[-1][1], path2[-1][1] + 1)), p0)
    if isinstance(spec, list):
        return [build_arg(env, s, p0, root, marks, module) for s in spec]
    if spec == "DRAM_STATIC":
        from exo.libs.memories import DRAM_STATIC
        return DRAM_STATIC
    return spec


def is_cursor(env, x):
    return isinstance(x, env.PC.Cursor)


def run_chain(env, p0, ops, marks, module, explicit, tracer=None, prefix_gap=None):
    """apply the chain; cursor arguments are cursors of p0 (stale after the first op): passed as they
    are (implicit forwarding) or forwarded by hand first (explicit)"""
    root = p0.INTERNAL_proc()
    p = p0
    chain = list(ops)
    if prefix_gap is not None:
        chain = [("insert_pass", [("rawgap", prefix_gap)], {})] + chain
    for op, args, kw in chain:
        real_args = []
        for a in args:
            if isinstance(a, tuple) and a[0] == "rawgap":
                real_args.append(env.PC.lift_cursor(env.icursor(root, a[1]), p0))
            else:
                real_args.append(build_arg(env, a, p0, root, marks, module))
        if explicit:
            def fw(x):
                if is_cursor(env, x):
                    return p.forward(x)
                if isinstance(x, list):
                    return [fw(y) for y in x]
                return x
            real_args = [fw(x) for x in real_args]
        if tracer is not None:
            tracer.op = op
        p = getattr(env.S, op)(p, *real_args, **kw)
        if isinstance(p, tuple):       # extract_subproc returns (proc, subproc)
            p = p[0]
    return p


def chain_forward(env, steps, impl):
    """apply the forwarding functions of the recorded atomic edits in the order of the edits"""
    try:
        for st in steps:
            if impl._root is not st["src"]:
                return "crash"          # the edits do not form a chain (should not happen)
            impl = st["fwd"](impl)
    except env.ic.InvalidCursorError:
        return "invalid"
    except Exception:  # noqa
        return "crash"
    return env.canon(impl) or "crash"


def attribute(env, tracer, p0, pN, pub, what_op):
    """find the first atomic forwarding step whose own result breaks the property"""
    tracer.calls = []
    tracer.tracing = True
    try:
        try:
            pN.forward(pub)
        except Exception:  # noqa
            pass
    finally:
        tracer.tracing = False
    trees = {}

    def tree_of(ir):
        if id(ir) not in trees:
            trees[id(ir)] = env.to_tree(ir)
        return trees[id(ir)]

    for idx, cin, out in tracer.calls:
        st = tracer.steps[idx]
        params, _ = tracer.step_params(st)
        if params is None:
            continue
        ccur = env.canon(cin)
        if ccur is None:
            continue
        if isinstance(out, BaseException):
            res = "invalid" if isinstance(out, env.ic.InvalidCursorError) else "crash"
        else:
            res = env.canon(out) or "crash"
        v, detail = check_forward(tree_of(st["src"]), tree_of(st["dst"]), ccur, res)
        if v in BAD:
            key = classify(params, ccur, v)
            if key == "wrap:ctor-not-direct":
                what = {"n": "wrapped-stmt-forwards-to-", "g": "gap-at-wrapped-stmt-forwards-to-", "b": "block-of-wrapped-stmts-forwards-to-"}[ccur[0]]
                variant = "guard=True" if st["op"] == "add_loop" else "wrapper-nests-block"
                key = "%s:%s:%s%s" % (st["op"], variant, what, params.get("landing", "?").lower())
            if key.startswith("by-design:"):
                return None, key
            return key, {"step": idx, "step_op": st["op"], "edit": {k: x for k, x in params.items() if k not in ("nodes", "stmts", "ctor")},
                         "cursor_at_step": ccur, "forwarded_at_step": res, "verdict_at_step": v}
    return "%s:composition" % what_op, {"steps": [tracer.steps[i]["kind"] for i, _, _ in tracer.calls]}


def load_x_module(fac, sources):
    """module text: SUBPROCS first; marks are found by line number"""
    fac.n += 1
    mod = "c06_x_%d" % fac.n
    text = HEADER + SUBPROCS
    marks_by_line = []
    for k, s in enumerate(sources):
        name = re.search(r"^def (\w+)", s, re.M).group(1)
        text += "\ntry:\n"
        start = text.count("\n") + 1
        ml = {}
        for j, line in enumerate(textwrap.indent(s, "    ").split("\n")):
            if "#@" in line:
                ml[start + j] = line.split("#@")[1].strip()
        marks_by_line.append(ml)
        text += textwrap.indent(s, "    ") + "\n    R%d = %s\nexcept Exception as e:\n    R%d = e\n" % (k, name, k)
    (fac.tmp / (mod + ".py")).write_text(text)
    importlib.invalidate_caches()
    return importlib.import_module(mod), marks_by_line


def stream_primitives(ctx, env, fac, tracer):
    rng = ctx.rng
    rounds = ctx.scale(2, 10)
    pending = []
    for rnd in range(rounds):
        scs = scenarios(rng)
        sources, metas = [], []
        for k, (name, focus, ops) in enumerate(scs):
            body = embed(rng, focus)
            src = "@proc\ndef p%d%s:\n" % (k, XSIG) + "\n".join(body)
            sources.append(src)
            metas.append((name, ops))
        module, marks_by_line = load_x_module(fac, sources)
        for k, ((name, ops), src) in enumerate(zip(metas, sources)):
            p0 = getattr(module, "R%d" % k)
            if isinstance(p0, Exception):
                ctx.count("X_frontend_rejected:%s:%s" % (name, type(p0).__name__))
                continue
            x_case(ctx, env, tracer, module, name, ops, src, p0, marks_by_line[k], pending)
        if len(pending) >= 2500:
            compare_with_model(ctx, pending, "P")
            pending.clear()
    compare_with_model(ctx, pending, "P")


def x_case(ctx, env, tracer, module, name, ops, src, p0, marks_by_line, pending, fixed_prefix=False):
    rng = ctx.rng
    root = p0.INTERNAL_proc()
    LIN.reset()
    env.label_tree(root)
    tree0 = env.to_tree(root)
    marks = find_marks(env, root, marks_by_line)
    cursors = all_cursors(tree0, root=False)
    if len(cursors) > 500:
        cursors = [c for c in cursors if c[0] != "b"] + rng.sample([c for c in cursors if c[0] == "b"], 250)
    # a stale-making prefix step for the implicit == explicit comparison
    prefix_gap = None
    if fixed_prefix is not False:
        prefix_gap = fixed_prefix
    elif rng.random() < 0.6:
        prefix_gap = rng.choice([c for c in cursors if c[0] == "g"])
    opnames = "+".join(o for o, _, _ in ops)
    replay = {"stream": "X", "scenario": name, "source": src, "ops": [[o, enc_arg(a), kw] for o, a, kw in ops],
              "marks": marks, "prefix_insert_pass_at": prefix_gap, "subprocs": SUBPROCS}
    tracer.steps = []
    tracer.recording = True
    try:
        try:
            pN = run_chain(env, p0, ops, marks, module, explicit=False, tracer=tracer, prefix_gap=prefix_gap)
            err = None
        except Exception as e:  # noqa
            pN, err = None, type(e).__name__
    finally:
        tracer.recording = False
    steps = tracer.steps
    # implicit forwarding == explicit forwarding
    try:
        pE = run_chain(env, p0, ops, marks, module, explicit=True, prefix_gap=prefix_gap)
        errE = None
    except Exception as e:  # noqa
        pE, errE = None, type(e).__name__
    if err != errE or (pN is not None and str(pN) != str(pE)):
        ctx.violation("%s:implicit-forwarding-differs-from-explicit" % opnames,
                      "passing stale cursors directly (%s) differs from forwarding them first (%s)" % (err or "ok", errE or "ok"),
                      dict(replay, implicit=str(pN) if pN is not None else err, explicit=str(pE) if pE is not None else errE))
    ctx.count("X_implicit==explicit" + (":stale" if prefix_gap else ":fresh"))
    if pN is None:
        ctx.count("X_rejected:%s:%s" % (name, err))
        return
    ctx.count("X_ok:" + name)
    treeN = env.to_tree(pN.INTERNAL_proc())
    ol, nl = labels_under(tree0), labels_under(treeN)
    for c in cursors:
        pub = env.PC.lift_cursor(env.icursor(root, c), p0)
        res, exc = x_forward(env, pN, pub)
        why = None
        if res == "crash":
            raw, rexc = raw_forward(env, p0, pN, pub._impl)
            if raw not in ("crash", "invalid"):
                res, why = raw, exc          # lift_cursor crashed on the raw result
            else:
                why = rexc
        v, detail = check_forward(tree0, treeN, c, res, ol, nl)
        ctx.evaluated((name, json.dumps(c), json.dumps(res)), nontrivial=True)
        ctx.count("X_%s" % v)
        if v == "invalid" and steps:
            # no spurious invalidation by a wrong composition: if the atomic edits the primitives
            # performed, chained in the order they were performed, forward the cursor to the same
            # lineage, the primitive's own forwarding must not report it as gone
            chain = chain_forward(env, steps, pub._impl)
            if chain not in ("invalid", "crash") and steps[-1]["dst"] is pN.INTERNAL_proc() \
                    and check_forward(tree0, treeN, c, chain, ol, nl)[0] == "ok":
                ctx.count("X_spurious-invalid")
                ctx.violation("%s:composition:cursor-invalidated-although-the-chain-of-atomic-edits-forwards-it" % opnames,
                              "%s: %s cursor %s is reported invalid, the chain of the %d atomic edits forwards it to %s (same lineage)"
                              % (name, c[0], c, len(steps), chain),
                              dict(replay, cursor=cursor_desc(tree0, c), chain_result=chain, steps=[s["kind"] for s in steps]))
        if v in BAD:
            if why == "NotImplementedError":
                key, info = "%s:forwarding-not-implemented" % opnames, None
            else:
                key, info = attribute(env, tracer, p0, pN, pub, opnames)
            if key is None:
                ctx.count("X_" + info)
                continue
            ctx.count("Xkey:%s @%s" % (key, name))
            ctx.violation(key, "%s: %s cursor %s of the input forwards to %s (%s%s)" % (name, c[0], c, res, v, ", " + why if why else ""),
                          dict(replay, cursor=cursor_desc(tree0, c), forwarded=res, verdict=v, exception=why, detail=detail,
                               attribution=info, result=str(pN)))
    ctx.sample({"stream": "X", "scenario": name, "source": src, "cursors": len(cursors), "atomic_steps": [s["kind"] for s in steps]}, limit=6)
    # the atomic edits the primitive performed, against the model (all cursors of each step's source tree)
    for st in steps[:6]:
        params, ej = tracer.step_params(st)
        if params is not None and params.get("k") == "wrap":
            # the hypothesis `WrapDirect` of wrap_coherent, checked on every wrapper the primitives build
            ctx.count("P_wrap_direct" if params.get("direct") else "P_wrap_NOT_direct:%s" % st["op"])
        if ej is None:
            ctx.count("P_step_not_modelled:" + st["kind"])
            continue
        src_tree = env.to_tree(st["src"])
        cs = all_cursors(src_tree)
        if len(cs) > 300:
            cs = [c for c in cs if c[0] != "b"] + rng.sample([c for c in cs if c[0] == "b"], 100)
        results = [env.run_fwd(st["fwd"], env.icursor(st["src"], c))[0] for c in cs]
        pending.append({"request": {"tree": src_tree, "edit": ej, "cursors": cs}, "real_tree": env.to_tree(st["dst"]),
                        "real_fwd": results, "replay": dict(replay, step=params), "params": params})


def cursor_desc(tree, c):
    return {"cursor": c, "label": (tget(tree, c[1]) or [None])[0]}


# ============================================================================ replay
def replay_case(ctx, env, fac, doc):
    """re-run exactly the case stored in a replay file and print what happens"""
    rep = doc["replay"]
    print("replaying %s (%s)" % (doc.get("key"), doc.get("what")))
    pending = []
    if rep.get("stream") == "A":
        pr, = fac.load([rep["source"]])
        if isinstance(pr, Exception):
            raise InfraError("replay: front end rejected the source: %r" % pr)
        root = pr.INTERNAL_proc()
        LIN.reset()
        env.label_tree(root)
        tree = env.to_tree(root)
        cursors = all_cursors(tree)
        out = atomic_case(ctx, env, root, tree, cursors, rep["source"], rep["kind"], Draws(None, rep["draws"]), pending)
        compare_with_model(ctx, pending, "A")
        if out is not None and "cursor" in rep:
            new_tree, results = out
            res = results[cursors.index(rep["cursor"])]
            print("  cursor %s -> %s   verdict %s" % (rep["cursor"], res, check_forward(tree, new_tree, rep["cursor"], res)[0]))
    elif rep.get("stream") == "X":
        module, mbl = load_x_module(fac, [rep["source"]])
        p0 = module.R0
        if isinstance(p0, Exception):
            raise InfraError("replay: front end rejected the source: %r" % p0)
        ops = [(o, dec_arg(a), kw) for o, a, kw in rep["ops"]]
        tracer = Tracer(env)
        x_case(ctx, env, tracer, module, rep["scenario"], ops, rep["source"], p0, mbl[0], pending,
               fixed_prefix=rep.get("prefix_insert_pass_at"))
        compare_with_model(ctx, pending, "P")
    else:
        raise InfraError("replay: nothing to re-run for this entry (%s)" % doc.get("key"))
    for k, v in sorted(ctx.counts.items()):
        if k.startswith(("Skey:", "Xkey:", "X_", "S_")):
            print("  %s: %d" % (k, v))


# ============================================================================ run
def run(ctx):
    exo = import_exo()
    env = Env(exo)
    ctx.rule = ("A/S: random @proc procedures (depth<=4, blocks<=4, body and orelse) x 7 atomic edit kinds at random "
                "locations x every node/block/gap cursor of the source tree; distinct = (edit kind, cursor, result). "
                "X: (procedure, primitive, args) scenarios in random contexts x every statement/block/gap cursor.")
    ctx.assumptions += [
        "lineage = side table keyed by id(node), propagated by wrapping _AsdlAdtBase.update (nodes built by "
        "constructors are new lineages)",
        "the model abstracts expression children: edits below a statement are `touch` (identity on statement cursors)",
        "block cursors are non-empty (lift_cursor asserts it)",
    ]
    ctx.trusted += ["harness/props/c06.py lineage tracker and tree exporter", "Drivers/C06.lean JSON glue"]

    import time
    t0 = time.time()
    broken = ctx.lean_obligations(["ExoModel.Props.C06", "ExoModel.Props.C06Move", "ExoModel.Props.C06Rest"])
    for b in broken:
        ctx.violation("obligation:" + b, "proof obligation broken: " + b, {"obligation": b}, no_input=True)
    ctx.extra["phase_s"] = {"obligations": round(time.time() - t0, 1)}

    if ctx.replay:
        with tempfile.TemporaryDirectory(prefix="c06_") as tmp:
            replay_case(ctx, env, ProcFactory(tmp), json.loads(Path(ctx.replay).read_text()))
        return

    with tempfile.TemporaryDirectory(prefix="c06_") as tmp:
        fac = ProcFactory(tmp)
        t0 = time.time()
        stream_atomic(ctx, env, fac)
        ctx.extra["phase_s"]["atomic"] = round(time.time() - t0, 1)
        t0 = time.time()
        tracer = Tracer(env)
        stream_primitives(ctx, env, fac, tracer)
        ctx.extra["phase_s"]["primitives"] = round(time.time() - t0, 1)
