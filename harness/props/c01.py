"""C01 — scheduling rewrites preserve procedure semantics (DESIGN.md section 3, C01)."""
from __future__ import annotations

import json

from common import InfraError
import sched_run

SEARCH_ONLY_NOTE = ("primitives without a Lean model (differential execution only): every op of harness/stream.py "
                    "not in obs_sem.Observer.MODELLED")


def run(ctx):
    if ctx.replay:
        ctx.rule = "replay of one recorded case"
        sched_run.replay_stream(ctx, ctx.replay)
        return
    ctx.rule = ("pool program (harness/pool.py, + constant-perturbed variants) x every (primitive, cursor, args) "
                "attempt of harness/stream.py, depth-2 schedules sampled; an evaluation = one accepted rewrite "
                "executed before/after in the Lean reference interpreter on valid inputs (random sizes, strided "
                "windows, random buffer contents and configuration); distinct = (program, op, cursor path, args, "
                "depth); non-trivial = the original runs without tripping a monitor on at least one input")
    ctx.assumptions += [
        "the exporter harness/export_ir.py maps LoopIR faithfully to ExoModel.Syntax (exercised by every run)",
        "side conditions of the conditional theorems (bounds order, commutation, idempotence) are hypotheses; "
        "that the real Check_* verdicts imply them is observed through the differential search, not proved",
        "the comparison up to renaming of bound symbols used by the tie (Rw.blockEq', two renamings, callees compared "
        "structurally) is PROVED sound: Exo.C01.alpha_exec / rwcheck_sound (Props/C01Alpha.lean); the older single-"
        "renaming comparison was unsound (kernel-checked counter-examples procEq_unsound, blockEq_namespace_unsound)",
    ]
    ctx.trusted += ["modelled, not verified: z3/pysmt and the effect analysis of new_eff.py / new_analysis_core.py",
                    SEARCH_ONLY_NOTE]
    # T-gen: the scheduling-primitive registry and the "stdlib builds procedures only through primitives" facts
    from translate import registry
    reg = registry.generate()
    ctx.extra["registry"] = {k: (v if not isinstance(v, list) or len(v) < 80 else len(v)) for k, v in reg.items()}
    broken = ctx.lean_obligations(["ExoModel.Props.C01Registry", "ExoModel.Props.C01", "ExoModel.Props.C01Subst", "ExoModel.Props.C01Data", "ExoModel.Props.C01Alpha", "ExoModel.Props.C01Context", "ExoModel.Props.C01Storage", "ExoModel.Props.C01DataStmt", "ExoModel.Props.C01Calls", "ExoModel.Props.C01Recompute", "ExoModel.Props.C01Side"])
    # thorough tier = the quick configuration over three consecutive seeds (3x the sampled depth-2 schedules and inputs).
    # A deeper configuration (perturbed variants, 10 depth-2 procedures x 40 attempts) was run once: it reaches
    # unclassified instances of the recorded finding families and model limits of the depth-2 tie (replays kept in
    # repro/thorough_c01/, see DESIGN 7.7); until those are classified it is not a registered command.
    recs = []
    seed0 = ctx.seed
    for ds in range(ctx.scale(1, 3)):
        ctx.seed = seed0 + ds
        try:
            recs += sched_run.run_stream(ctx, ["obs_sem"], nvariants=1, extra=__import__("pool").REGRESSION,
                                         opts={"depth": 2, "n_inputs": 3, "depth2_procs": 3, "depth2_attempts": 12})
        finally:
            ctx.seed = seed0
    shape = []
    side = []
    concrete_ops = set()
    for r in recs:
        if r["error"]:
            if r["error"].startswith("infra"):
                raise InfraError(r["error"])
            if r["error"].startswith("front end rejected pool program") and "~" in r["name"]:
                # a constant-perturbed VARIANT of a pool program (thorough tier) that the front end rightly refuses
                ctx.count("perturbed-variant-rejected-by-the-front-end")
                continue
            ctx.violation(f"stream:{r['name'].split('~')[0]}:worker-error", r["error"],
                          {"program": r["name"], "src": r["src"]}, no_input=True)
            continue
        for k, v in r["counts"].items():
            ctx.count(k, v)
        for s in r.get("samples", []):
            ctx.sample({"program": r["name"], **s})
        ctx.distinct.update(r.get("distinct", []))
        for x in r["records"]:
            if x["kind"] == "mismatch":
                concrete_ops.add(x["att"]["op"])
                ctx.violation(x["key"], x["what"], x)
            elif x["kind"] == "shape-mismatch":
                shape.append(x)
            elif x["kind"] == "side-condition":
                side.append(x)
            elif x["kind"] == "impure":
                pass  # reported by C07
            elif x["kind"] == "observer-exception":
                ctx.violation(f"observer-exception:{x['att']['op']}", x["exc"], x, no_input=True)
    # a shape mismatch of an attempt whose execution also differs is the same event as that mismatch
    # (the real output is not the modelled rewrite BECAUSE of the defect the failing input shows)
    sem_key = {}
    for r in recs:
        for x in r.get("records", []):
            if x["kind"] == "mismatch":
                sem_key[(x["program"], json.dumps(x["att"], sort_keys=True), json.dumps(x["hist"], sort_keys=True))] = x["key"]
    for x in shape:
        # the real output is not the rewrite the theorems talk about: correspondence A broke
        k = sem_key.get((x["program"], json.dumps(x["att"], sort_keys=True), json.dumps(x["hist"], sort_keys=True)))
        if k is not None:
            ctx.violation(k, x["what"] + " (model/real correspondence; same attempt as the failing execution)", x)
            continue
        ctx.violation(x["key"], x["what"] + " (model/real correspondence)", x,
                      no_input=x["att"]["op"] not in concrete_ops)
    for x in side:
        # accepted by the real check although the theorem's semantic side condition fails on a sampled input
        k = sem_key.get((x["program"], json.dumps(x["att"], sort_keys=True), json.dumps(x["hist"], sort_keys=True)))
        # a recorded situation (classifier key) is the same defect seen through the side condition: it carries the input
        known = ctx._known(x["key"]) is not None
        ctx.violation(k or x["key"], x["what"] + " (correspondence B: accepted ⇒ side condition)", x, no_input=(k is None and not known))
    ctx.evaluations = ctx.counts.get("pairs-executed", 0)
    # end-to-end compositions: the shipped application schedules against their algorithm
    import apps_sem
    from common import REPO
    for key, what, replay, noinp in apps_sem.run_apps(ctx, REPO, 1, [(6, 64, 2), (7, 70, 3)]):
        ctx.violation(key, what, replay, no_input=noinp)
    tried = {k.split(":", 1)[1] for k in ctx.counts if k.startswith(("accepted:", "rejected:"))}
    ctx.extra["primitives_never_attempted_by_the_stream"] = sorted(p for p in reg["primitives"] if p not in tried)
    ctx.extra["primitives_with_lean_model_and_tie"] = sorted(__import__("obs_sem").Observer.MODELLED)
    ctx.extra["ops_accepted"] = {k.split(":", 1)[1]: v for k, v in ctx.counts.items() if k.startswith("accepted:")}
    ctx.extra["ops_rejected"] = {k.split(":", 1)[1]: v for k, v in ctx.counts.items() if k.startswith("rejected:")}
    if broken:
        ctx.violation("obligations:" + broken[0][:60], f"proof obligations broken: {broken}",
                      {"broken": broken}, no_input=not ctx.violations)
