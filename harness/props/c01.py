"""C01 — scheduling rewrites preserve procedure semantics (DESIGN.md section 3, C01)."""
from __future__ import annotations

from common import InfraError
import sched_run


def run(ctx):
    ctx.rule = ("pool program (harness/pool.py, + constant-perturbed variants) x every (primitive, cursor, args) "
                "attempt of harness/stream.py; an evaluation = one accepted rewrite executed before/after in the "
                "Lean reference interpreter on valid inputs; distinct = (program, op, cursor path, args); "
                "non-trivial = the original runs without tripping a monitor on at least one input")
    broken = []
    # TODO proofs
    recs = sched_run.run_stream(ctx, ["obs_sem"], nvariants=ctx.scale(1, 3),
                                opts={"depth": ctx.scale(1, 2), "n_inputs": ctx.scale(3, 6)})
    for r in recs:
        if r["error"]:
            if r["error"].startswith("infra"):
                raise InfraError(r["error"])
            ctx.violation(f"stream:{r['name']}:worker-error", r["error"], {"program": r["name"], "src": r["src"]}, no_input=True)
            continue
        for k, v in r["counts"].items():
            ctx.count(k, v)
        for s in r.get("samples", []):
            ctx.sample({"program": r["name"], **s})
        for x in r["records"]:
            if x["kind"] == "mismatch":
                ctx.violation(x["key"], x["what"], x)
            else:
                ctx.violation(f"observer-exception:{x['att']['op']}", x["exc"], x, no_input=True)
    ctx.evaluations = ctx.counts.get("pairs-executed", 0)
    ctx.distinct = set(range(ctx.counts.get("pairs-nontrivial", 0)))
