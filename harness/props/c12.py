"""C12 — simplify preserves the value of every index expression.

Parts
  1. obligations    : lake build + axiom audit of ExoModel.Props.C12
  2. correspondence : generated procedures (index expressions in call arguments, buffer accesses,
                      loop bounds, conditions, allocation sizes, config writes; nested loops with
                      zero / non-zero / symbolic lower bounds, guards, asserts, shadowed names) are
                      built through the real front end, run through the REAL `simplify`, exported to a
                      neutral tree and compared node by node with the output of the Lean model
                      (Drivers/C12.lean, `simplifyB` with the concrete range oracle).
  3. search (always): every before/after pair is executed on ALL valuations of a small box admitted
                      by the asserts; the traces of observed index tuples (and executed loop bounds,
                      final config) must be equal.  A difference is a concrete violation.  Outputs of
                      divide_loop / stage_mem / expand_dim pipelines go through the same check.
  4. attribution    : a value change that the faithful model reproduces exactly and that disappears
                      under one named repair of the MODEL (names made unique; no config write) is
                      reported under that finding's key; anything else is reported
                      under the generic key and is a VIOLATION.
"""
from __future__ import annotations

import importlib.util
import itertools
import json
import sys
import tempfile
import traceback
from pathlib import Path

from common import import_exo, lean_batch, LeanDriver, InfraError, LEAN, REPO, ROOT

DRIVER = "Drivers/C12.lean"

KEY_SHADOW = "simplify:fact-table:shadowed-name"
KEY_CFG = "simplify:fact-table:config-write"
KEY_QUOT = "simplify:quotient-remainder:same-name"
KEY_GENERIC = "simplify:value-changed"
KEY_MODEL = "simplify:model-mismatch"


class Unsupported(Exception):
    pass


# ------------------------------------------------------------------------------------------------
# neutral tree  (the driver's wire format)
#   expr = ["v",name,id] | ["c",int] | ["b",bool] | ["u",e] | ["o",op,l,r] | ["g",cfg,field]
#   stmt = ["obs",[e..]] | ["w",cfg,field,e] | ["if",c,[..],[..]] | ["for",name,id,lo,hi,[..]] | ["pass"]
# ------------------------------------------------------------------------------------------------
class Exporter:
    def __init__(self, exo, strict):
        from exo.core.LoopIR import LoopIR, T
        self.L = LoopIR
        self.T = T
        self.strict = strict

    def is_ctrl(self, t):
        return t.is_indexable() or isinstance(t, self.T.Bool)

    def e(self, x):
        L = self.L
        if isinstance(x, L.Read):
            if x.idx:
                raise Unsupported("indexed read in control expression")
            if not x.type.is_indexable():
                raise Unsupported(f"read of type {x.type}")
            return ["v", x.name.name(), x.name._id]
        if isinstance(x, L.Const):
            if isinstance(x.val, bool):
                return ["b", x.val]
            if isinstance(x.val, int):
                return ["c", x.val]
            raise Unsupported("data constant in control expression")
        if isinstance(x, L.USub):
            return ["u", self.e(x.arg)]
        if isinstance(x, L.BinOp):
            return ["o", x.op, self.e(x.lhs), self.e(x.rhs)]
        if isinstance(x, L.ReadConfig):
            if not x.type.is_indexable():
                raise Unsupported("non-index config field")
            return ["g", x.config.name(), x.field]
        raise Unsupported(type(x).__name__)

    def collect(self, x, out):
        """index expressions of an arbitrary expression, in the traversal order of map_e"""
        L = self.L
        if isinstance(x, (L.Read,)):
            if not x.idx and self.is_ctrl(x.type):
                out.append(self.e(x))
            else:
                for i in x.idx:
                    out.append(self.e(i))
        elif isinstance(x, L.WindowExpr):
            for w in x.idx:
                if isinstance(w, L.Interval):
                    out.append(self.e(w.lo))
                    out.append(self.e(w.hi))
                else:
                    out.append(self.e(w.pt))
        elif self.is_ctrl(x.type) and not isinstance(x, L.StrideExpr):
            out.append(self.e(x))
        elif isinstance(x, L.Const):
            pass
        elif isinstance(x, L.USub):
            self.collect(x.arg, out)
        elif isinstance(x, L.BinOp):
            self.collect(x.lhs, out)
            self.collect(x.rhs, out)
        elif isinstance(x, L.Extern):
            for a in x.args:
                self.collect(a, out)
        else:
            raise Unsupported(type(x).__name__)

    def s(self, st):
        L = self.L
        if isinstance(st, (L.Assign, L.Reduce)):
            out = [self.e(i) for i in st.idx]
            self.collect(st.rhs, out)
            return [["obs", out]]
        if isinstance(st, L.WriteConfig):
            if not st.rhs.type.is_indexable():
                if self.strict:
                    raise Unsupported("non-index config write")
                out = []
                self.collect(st.rhs, out)
                return [["obs", out]]
            return [["w", st.config.name(), st.field, self.e(st.rhs)]]
        if isinstance(st, L.Pass):
            return [["pass"]]
        if isinstance(st, L.If):
            return [["if", self.e(st.cond), self.b(st.body), self.b(st.orelse)]]
        if isinstance(st, L.For):
            return [["for", st.iter.name(), st.iter._id, self.e(st.lo), self.e(st.hi), self.b(st.body)]]
        if isinstance(st, L.Alloc):
            out = []
            if isinstance(st.type, self.T.Tensor):
                for d in st.type.shape():
                    out.append(self.e(d))
            return [["obs", out]]
        if isinstance(st, L.Free):
            return []
        if isinstance(st, L.Call):
            out = []
            for a in st.args:
                self.collect(a, out)
            return [["obs", out]]
        if isinstance(st, L.WindowStmt):
            out = []
            self.collect(st.rhs, out)
            return [["obs", out]]
        raise Unsupported(type(st).__name__)

    def b(self, stmts):
        r = []
        for st in stmts:
            r.extend(self.s(st))
        return r

    def proc(self, ir):
        args, sizes = [], []
        for a in ir.args:
            if isinstance(a.type, self.T.Size):
                sizes.append([a.name.name(), a.name._id])
                args.append([a.name.name(), a.name._id, "size"])
            elif a.type.is_indexable():
                args.append([a.name.name(), a.name._id, "index"])
            elif isinstance(a.type, self.T.Bool):
                raise Unsupported("bool argument")
        return {"sizes": sizes, "args": args, "preds": [self.e(p) for p in ir.preds], "body": self.b(ir.body)}


# ------------------------------------------------------------------------------------------------
# independent evaluator: neutral tree -> python source -> function(vals, cfg) -> (trace, cfg)
# ------------------------------------------------------------------------------------------------
class BadDivisor(Exception):
    pass


def _fd(a, b):
    if b <= 0:
        raise BadDivisor()
    return a // b


def _fm(a, b):
    if b <= 0:
        raise BadDivisor()
    return a % b


def py_e(e):
    t = e[0]
    if t == "v":
        return f"v_{e[1]}_{e[2]}"
    if t == "c":
        return f"({e[1]})"
    if t == "b":
        return "True" if e[1] else "False"
    if t == "u":
        return f"(-{py_e(e[1])})"
    if t == "g":
        return f"C[({e[1]!r}, {e[2]!r})]"
    if t == "o":
        op, l, r = e[1], py_e(e[2]), py_e(e[3])
        if op == "/":
            return f"_fd({l}, {r})"
        if op == "%":
            return f"_fm({l}, {r})"
        if op in ("and", "or"):
            return f"(bool({l}) {op} bool({r}))"
        return f"({l} {op} {r})"
    raise ValueError(t)


def py_b(stmts, ind, lines, loops):
    if not stmts:
        lines.append(ind + "pass")
    for s in stmts:
        t = s[0]
        if t == "obs":
            lines.append(ind + "T.append((" + "".join(f"int({py_e(x)})," for x in s[1]) + "))")
        elif t == "w":
            lines.append(ind + f"C[({s[1]!r}, {s[2]!r})] = {py_e(s[3])}")
        elif t == "pass":
            lines.append(ind + "pass")
        elif t == "if":
            lines.append(ind + f"if {py_e(s[1])}:")
            py_b(s[2], ind + "  ", lines, loops)
            if s[3]:
                lines.append(ind + "else:")
                py_b(s[3], ind + "  ", lines, loops)
        elif t == "for":
            lines.append(ind + f"_lo = {py_e(s[3])}; _hi = {py_e(s[4])}")
            if loops:
                lines.append(ind + "if _hi > _lo: T.append(('for', _lo, _hi))")
            lines.append(ind + f"for v_{s[1]}_{s[2]} in range(_lo, _hi):")
            py_b(s[5], ind + "  ", lines, loops)
        else:
            raise ValueError(t)


def compile_trace(neutral, loops=True):
    """function(vals: {(name,id): int}, cfg: {(c,f): int}) -> (trace, cfg, preds_ok)"""
    lines = ["def run(V, C):", "  T = []"]
    for a in neutral["args"]:
        lines.append(f"  v_{a[0]}_{a[1]} = V[({a[0]!r}, {a[1]})]")
    py_b(neutral["body"], "  ", lines, loops)
    lines.append("  return T, C")
    lines.append("def preds(V, C):")
    for a in neutral["args"]:
        lines.append(f"  v_{a[0]}_{a[1]} = V[({a[0]!r}, {a[1]})]")
    lines.append("  return [bool(p) for p in (" + "".join(py_e(p) + "," for p in neutral["preds"]) + ")]")
    src = "\n".join(lines)
    env = {"_fd": _fd, "_fm": _fm}
    exec(compile(src, "<c12-trace>", "exec"), env)
    return env["run"], env["preds"]


def cfg_fields(neutral):
    out = []

    def we(e):
        if e[0] == "g":
            if (e[1], e[2]) not in out:
                out.append((e[1], e[2]))
        elif e[0] == "u":
            we(e[1])
        elif e[0] == "o":
            we(e[2]); we(e[3])

    def wb(b):
        for s in b:
            if s[0] == "obs":
                for x in s[1]:
                    we(x)
            elif s[0] == "w":
                if (s[1], s[2]) not in out:
                    out.append((s[1], s[2]))
                we(s[3])
            elif s[0] == "if":
                we(s[1]); wb(s[2]); wb(s[3])
            elif s[0] == "for":
                we(s[3]); we(s[4]); wb(s[5])

    for p in neutral["preds"]:
        we(p)
    wb(neutral["body"])
    return out


SIZE_VALS = [1, 2, 3, 4, 5, 8, 6, 7]
IDX_VALS = [0, 1, -1, 3, -2, 5, 2, 7, 4, -3]
CFG_VALS = [0, 3, 4, 1]


def box(neutral, cap):
    """all valuations of a small box: sizes >= 1, index arguments around 0, config fields;
    value lists are shortened until the product is <= cap"""
    names = [(a[0], a[1], a[2]) for a in neutral["args"]]
    fields = cfg_fields(neutral)
    lens = {"size": len(SIZE_VALS), "index": len(IDX_VALS), "cfg": len(CFG_VALS)}

    def total():
        n = 1
        for _, _, k in names:
            n *= lens[k]
        return n * lens["cfg"] ** len(fields)

    order = ["cfg", "index", "size"]
    k = 0
    while total() > cap and any(lens[o] > 2 for o in order):
        o = order[k % 3]
        if lens[o] > 2:
            lens[o] -= 1
        k += 1
    lists = [(SIZE_VALS if kd == "size" else IDX_VALS)[: lens[kd]] for _, _, kd in names]
    clists = [CFG_VALS[: lens["cfg"]] for _ in fields]
    for combo in itertools.product(*lists, *clists):
        V = {(n, i): v for (n, i, _), v in zip(names, combo)}
        C = {f: v for f, v in zip(fields, combo[len(names):])}
        yield V, C


def first_diff(ta, tb):
    for k, (x, y) in enumerate(zip(ta, tb)):
        if x != y:
            return k, x, y
    if len(ta) != len(tb):
        k = min(len(ta), len(tb))
        return k, (ta[k] if k < len(ta) else None), (tb[k] if k < len(tb) else None)
    return None


def compare_on_box(before, after, cap, loops=True):
    """-> (n_valuations_admitted, None | witness dict)"""
    run_b, preds_b = compile_trace(before, loops)
    run_a, _ = compile_trace(after, loops)
    n = 0
    for V, C in box(before, cap):
        try:
            if not all(preds_b(V, dict(C))):
                continue
            tb, cb = run_b(V, dict(C))
        except BadDivisor:
            continue
        n += 1
        try:
            ta, ca = run_a(V, dict(C))
        except BadDivisor:
            return n, {"valuation": [[k[0], k[1], v] for k, v in V.items()],
                       "config": [[k[0], k[1], v] for k, v in C.items()], "what": "non-positive divisor after simplify"}
        if tb != ta or cb != ca:
            d = first_diff(tb, ta)
            return n, {"valuation": [[k[0], k[1], v] for k, v in V.items()],
                       "config": [[k[0], k[1], v] for k, v in C.items()],
                       "first_difference": {"position": d[0], "before": d[1], "after": d[2]} if d else
                       {"final_config_before": sorted((list(k), v) for k, v in cb.items()),
                        "final_config_after": sorted((list(k), v) for k, v in ca.items())},
                       "trace_len": [len(tb), len(ta)]}
    return n, None


# ------------------------------------------------------------------------------------------------
# transformations of neutral trees used for attribution
# ------------------------------------------------------------------------------------------------
def rename_apart(n):
    def re(e):
        if e[0] == "v":
            return ["v", f"{e[1]}_u{e[2]}", e[2]]
        if e[0] == "u":
            return ["u", re(e[1])]
        if e[0] == "o":
            return ["o", e[1], re(e[2]), re(e[3])]
        return e

    def rb(b):
        out = []
        for s in b:
            if s[0] == "obs":
                out.append(["obs", [re(x) for x in s[1]]])
            elif s[0] == "w":
                out.append(["w", s[1], s[2], re(s[3])])
            elif s[0] == "if":
                out.append(["if", re(s[1]), rb(s[2]), rb(s[3])])
            elif s[0] == "for":
                out.append(["for", f"{s[1]}_u{s[2]}", s[2], re(s[3]), re(s[4]), rb(s[5])])
            else:
                out.append(s)
        return out

    return {"sizes": [[f"{a}_u{i}", i] for a, i in n["sizes"]],
            "args": [[f"{a}_u{i}", i, k] for a, i, k in n["args"]],
            "preds": [re(p) for p in n["preds"]], "body": rb(n["body"])}


def drop_cfg_writes(n):
    def rb(b):
        out = []
        for s in b:
            if s[0] == "w":
                out.append(["obs", [s[3]]])
            elif s[0] == "if":
                out.append(["if", s[1], rb(s[2]), rb(s[3])])
            elif s[0] == "for":
                out.append(["for", s[1], s[2], s[3], s[4], rb(s[5])])
            else:
                out.append(s)
        return out

    return dict(n, body=rb(n["body"]))


def defact(n):
    """same meaning, but no condition has the shape `e == const` that feeds the fact table:
    `l == r` in an if-condition becomes `l <= r and l >= r`"""
    def rc(e):
        if e[0] == "o" and e[1] == "==":
            return ["o", "and", ["o", "<=", e[2], e[3]], ["o", ">=", e[2], e[3]]]
        if e[0] == "o" and e[1] in ("and", "or"):
            return ["o", e[1], rc(e[2]), rc(e[3])]
        return e

    def rb(b):
        out = []
        for s in b:
            if s[0] == "if":
                out.append(["if", rc(s[1]), rb(s[2]), rb(s[3])])
            elif s[0] == "for":
                out.append(["for", s[1], s[2], s[3], s[4], rb(s[5])])
            else:
                out.append(s)
        return out

    return dict(n, body=rb(n["body"]))


def has_shadow(n):
    """two distinct symbols with the same name somewhere in the procedure"""
    seen = {}

    def add(name, i):
        seen.setdefault(name, set()).add(i)

    def we(e):
        if e[0] == "v":
            add(e[1], e[2])
        elif e[0] == "u":
            we(e[1])
        elif e[0] == "o":
            we(e[2]); we(e[3])

    def wb(b):
        for s in b:
            if s[0] == "obs":
                for x in s[1]:
                    we(x)
            elif s[0] == "w":
                we(s[3])
            elif s[0] == "if":
                we(s[1]); wb(s[2]); wb(s[3])
            elif s[0] == "for":
                add(s[1], s[2]); we(s[3]); we(s[4]); wb(s[5])

    for a in n["args"]:
        add(a[0], a[1])
    wb(n["body"])
    return any(len(v) > 1 for v in seen.values())


def count_nodes(n):
    c = {"div": 0, "mod": 0, "if": 0, "for": 0, "w": 0, "cfgread": 0, "expr": 0}

    def we(e):
        if e[0] == "u":
            we(e[1])
        elif e[0] == "g":
            c["cfgread"] += 1
        elif e[0] == "o":
            if e[1] == "/":
                c["div"] += 1
            if e[1] == "%":
                c["mod"] += 1
            we(e[2]); we(e[3])

    def wb(b):
        for s in b:
            if s[0] == "obs":
                for x in s[1]:
                    c["expr"] += 1
                    we(x)
            elif s[0] == "w":
                c["w"] += 1; c["expr"] += 1
                we(s[3])
            elif s[0] == "if":
                c["if"] += 1; c["expr"] += 1
                we(s[1]); wb(s[2]); wb(s[3])
            elif s[0] == "for":
                c["for"] += 1; c["expr"] += 2
                we(s[3]); we(s[4]); wb(s[5])

    wb(n["body"])
    return c


# ------------------------------------------------------------------------------------------------
# generator of procedures (source text)
# ------------------------------------------------------------------------------------------------
PREAMBLE = '''from __future__ import annotations
from exo import proc, config
ERR = {}
@config
class Cfg:
    a: index
    b: index
@proc
def sink1(a: index):
    pass
@proc
def sink2(a: index, b: index):
    pass
'''

DIVS = [1, 2, 3, 4, 4, 8, 8, 6, 16, 12]


class Gen:
    def __init__(self, rng, use_cfg=True):
        self.r = rng
        self.use_cfg = use_cfg
        self.nalloc = 0

    # ---- expressions
    def const(self):
        return self.r.choice([0, 1, 1, 2, 3, 4, 5, 7, 8, 12, 16, -1, -2, -3, -5, -8])

    def atom(self, vs):
        if vs and self.r.random() < 0.7:
            return self.r.choice(vs)
        c = self.const()
        return str(c) if c >= 0 else f"(-{-c})"

    def expr(self, vs, depth):
        r = self.r
        if depth <= 0 or r.random() < 0.18:
            return self.atom(vs)
        k = r.random()
        if k < 0.22:
            return f"({self.expr(vs, depth - 1)} + {self.expr(vs, depth - 1)})"
        if k < 0.38:
            return f"({self.expr(vs, depth - 1)} - {self.expr(vs, depth - 1)})"
        if k < 0.50:
            c = r.choice([2, 3, 4, 8, -1, -2, 0, 1, 6, 16])
            cs = str(c) if c >= 0 else f"(-{-c})"
            if r.random() < 0.5:
                return f"({cs} * {self.expr(vs, depth - 1)})"
            return f"({self.expr(vs, depth - 1)} * {cs})"
        if k < 0.62:
            return f"({self.expr(vs, depth - 1)} / {r.choice(DIVS)})"
        if k < 0.74:
            return f"({self.expr(vs, depth - 1)} % {r.choice(DIVS)})"
        if k < 0.78:
            return f"(-{self.expr(vs, depth - 1)})"
        return self.pattern(vs, depth)

    def pattern(self, vs, depth):
        r = self.r
        d = r.choice([2, 3, 4, 8, 16])
        v = r.choice(vs) if vs else "1"
        w = r.choice(vs) if vs else "2"
        k = r.randrange(9)
        if k == 0:   # divisible + small remainder
            return f"(({d * r.choice([1, 2, 3])} * {v} + {w} + {r.choice([0, d, 1, -1, 2 * d])}) / {d})"
        if k == 1:   # quotient-remainder recombination, all four layouts
            e = self.expr(vs, depth - 1)
            forms = [f"({d} * ({e} / {d}) + {e} % {d})", f"({e} % {d} + {d} * ({e} / {d}))",
                     f"(({e} / {d}) * {d} + {e} % {d})", f"({e} % {d} + ({e} / {d}) * {d})"]
            return r.choice(forms)
        if k == 2:   # nested denominators
            return f"(({self.expr(vs, depth - 1)} / {r.choice([2, 3, 4])}) / {r.choice([2, 3, 4])})"
        if k == 3:   # modulo with multiples dropped
            return f"(({v} + {d * r.choice([1, 2, -1])} * {w} + {r.choice([0, d, 2 * d, 1, -1])}) % {d})"
        if k == 4:   # negative numerator under % (the old finding F2: `%` must stay unless 0 <= e is known)
            return f"(({v} - {r.choice([1, 2, 3, 5])}) % {r.choice([4, 8, 16])})"
        if k == 5:   # negative numerator under /
            return f"(({v} - {r.choice([1, 2, 3, 5])}) / {d})"
        if k == 6:   # splitting of the denominator
            a, b = r.choice([(2, 2), (2, 4), (4, 2), (2, 3), (3, 2), (4, 4)])
            return f"(({a * r.choice([1, 2])} * {v} + {a * b * r.choice([1, 2])} * {w}) / {a * b})"
        if k == 7:   # mismatched quotient-remainder (must NOT be recombined)
            e = self.expr(vs, depth - 1)
            d2 = r.choice([x for x in [2, 3, 4, 8, 16] if x != d])
            return r.choice([f"({d} * ({e} / {d2}) + {e} % {d})", f"({e} % {d} + {d2} * ({e} / {d}))",
                             f"({d} * ({e} / {d}) + {w} % {d})"])
        return f"(({v} + {w}) - {v})"

    def cond(self, vs, depth):
        r = self.r
        k = r.random()
        if self.use_cfg and k < 0.10:
            return f"Cfg.{r.choice('ab')} == {r.choice([0, 3, 4])}"
        if k < 0.30:
            c = r.choice([0, 0, 1, 2, 3, 4, -1, -3, -7, 9])
            return f"{self.expr(vs, 1)} == {c if c >= 0 else f'(-{-c})'}"
        if k < 0.38:
            return f"{r.choice([0, 1, 2, 4])} == {self.expr(vs, 1)}"
        if k < 0.50:
            return f"{self.expr(vs, 1)} / {r.choice([2, 4, 8])} == 0"
        if k < 0.70:
            return f"{self.expr(vs, depth)} {r.choice(['<', '<=', '>', '>=', '=='])} {self.expr(vs, 1)}"
        if k < 0.78:
            a, b = r.choice([(1, 2), (2, 1), (3, 3), (0, 4)])
            return f"{a} {r.choice(['<', '<=', '>', '>=', '=='])} {b}"
        if k < 0.84 and vs:
            v = r.choice(vs)
            return f"{v} - {v} == 0"
        if depth > 0:
            return f"({self.cond(vs, depth - 1)}) {r.choice(['and', 'or'])} ({self.cond(vs, depth - 1)})"
        return f"{self.atom(vs)} < {self.atom(vs)}"

    # ---- statements
    def block(self, vs, loopnames, depth, ind, n):
        out = []
        for _ in range(n):
            out.extend(self.stmt(vs, loopnames, depth, ind))
        return out

    def stmt(self, vs, loopnames, depth, ind):
        r = self.r
        k = r.random()
        if depth <= 0:
            k = k * 0.55
        if k < 0.36:
            if r.random() < 0.5:
                return [f"{ind}sink1({self.expr(vs, 3)})"]
            return [f"{ind}sink2({self.expr(vs, 3)}, {self.expr(vs, 2)})"]
        if k < 0.46:
            if r.random() < 0.6:
                return [f"{ind}x[({self.expr(vs, 2)}) % 8] = 1.0"]
            return [f"{ind}x[({self.expr(vs, 2)}) % 8] += y[({self.expr(vs, 2)}) % 4]"]
        if k < 0.50:
            self.nalloc += 1
            return [f"{ind}t{self.nalloc}: f32[({self.expr(vs, 2)}) % 4 + 1]"]
        if k < 0.53 and self.use_cfg:
            return [f"{ind}Cfg.{r.choice('ab')} = {self.expr(vs, 2)}"]
        if k < 0.55:
            return [f"{ind}pass"]
        if k < 0.78:
            # loop; 15 % of the loops re-use a name that is already in scope (shadowing)
            if loopnames and r.random() < 0.15:
                v = r.choice(loopnames)
            elif vs and r.random() < 0.04:
                v = r.choice(vs)
            else:
                v = r.choice(["i", "j", "k", "l", "ii", "jj"])
            lo, hi = self.bounds([x for x in vs if x != v])   # (the front end resolves `v` in its own bounds to the new iterator)
            body = self.block([x for x in vs if x != v] + [v], loopnames + [v], depth - 1, ind + "    ", r.choice([1, 1, 2, 3]))
            return [f"{ind}for {v} in seq({lo}, {hi}):"] + body
        c = self.cond(vs, 1)
        body = self.block(vs, loopnames, depth - 1, ind + "    ", r.choice([1, 1, 2]))
        res = [f"{ind}if {c}:"] + body
        if r.random() < 0.35:
            res += [f"{ind}else:"] + self.block(vs, loopnames, depth - 1, ind + "    ", r.choice([1, 1, 2]))
        return res

    def bounds(self, vs):
        r = self.r
        k = r.random()
        if k < 0.40:
            return "0", str(r.choice([1, 2, 3, 4, 4, 8, 8, 16]))
        if k < 0.55:
            lo = r.choice([1, 2, 3, 4, 5])
            return str(lo), str(lo + r.choice([0, 1, 2, 3, 4, 8]))
        if k < 0.65:
            return "0", "n"
        if k < 0.75:
            v = r.choice(vs) if vs else "n"
            return v, f"{v} + {r.choice([1, 2, 4, 8])}"
        if k < 0.82:
            return "0", f"(n + {r.choice([1, 3, 7])}) / {r.choice([2, 4, 8])}"
        if k < 0.90:
            return "0", f"({self.expr(vs, 1)}) % 4 + {r.choice([0, 1])}"
        if k < 0.95:
            return str(r.choice([-2, -1])), str(r.choice([1, 2, 3]))
        return f"{self.expr(vs, 1)}", f"{self.expr(vs, 1)}"

    def proc(self, name):
        r = self.r
        self.nalloc = 0
        args = ["n: size"]
        vs = ["n"]
        if r.random() < 0.5:
            args.append("m: size"); vs.append("m")
        if r.random() < 0.7:
            args.append("a: index"); vs.append("a")
        if r.random() < 0.25:
            args.append("b: index"); vs.append("b")
        args += ["x: f32[8]", "y: f32[4]"]
        lines = [f"def {name}({', '.join(args)}):"]
        if r.random() < 0.35:
            lines.append(f"    assert n {r.choice(['>=', '<=', '=='])} {r.choice([2, 4, 5])}")
        if "a" in vs and r.random() < 0.5:
            lo = r.choice([0, -2, 1])
            lines.append(f"    assert a >= {lo} and a < {lo + r.choice([2, 4, 8])}")
        if r.random() < 0.15:
            lines.append(f"    assert n % {r.choice([2, 4])} == 0")
        if r.random() < 0.08:
            lines.append(f"    assert {r.choice(['1 < 2', '2 + 2 == 4', 'n - n == 0'])}")
        lines += self.block(vs, [], 3, "    ", r.choice([2, 3, 4]))
        return lines


# fixed procedures (run first): the old F2 witness (fixed in /repo by d86c98ae — a regression shows up as a
# value change with this concrete input), the open findings, documented rewrites, near misses
FIXED = [
    ("f2_mod_negative", """def {name}(x: f32[16]):
    for i in seq(0, 4):
        x[(i - 3) % 8 + 3] = 1.0
"""),
    ("f14_shadow", """def {name}(x: f32[16]):
    for i in seq(0, 4):
        if i == 0:
            for i in seq(0, 8):
                x[i] = 1.0
"""),
    ("cfg_write_under_fact", """def {name}(x: f32[16]):
    if Cfg.a == 3:
        Cfg.a = 4
        if Cfg.a == 4:
            x[0] = 1.0
"""),
    ("cfg_write_then_read", """def {name}(x: f32[16]):
    if Cfg.a == 3:
        Cfg.a = 4
        sink1(Cfg.a)
"""),
    ("div_cases", """def {name}(x: f32[64], n: size, m: index):
    assert m >= 0 and m < 4
    for i in seq(0, 4):
        for j in seq(0, 8):
            sink2((8*i + j) / 8 + (8 * i + j) % 8 + (j + 16) / 8 + (i + 4*j) / 4 + m - m + (i / 2) / 3, (16 * i + 4 * j) / 16)
            sink2((4*i + j)/8 + 4 * ((j+i)/4) + (i + j) % 4 + -(i/4), (i + 3) / 4 + (j - 8) / 8 + (j + 8 * n) / 8)
"""),
    ("dead_code", """def {name}(x: f32[16], n: size):
    for i in seq(0, 4):
        for j in seq(2, 2):
            x[i] = 1.0
    for i in seq(0, 4):
        if 1 < 0:
            x[i] = 2.0
        if 0 < 1:
            x[i+1-1] = 3.0
        else:
            x[0] = 4.0
    if n == 4:
        for k in seq(0, n / 4 + n % 4):
            sink1(k + n)
    for i in seq(0, n):
        pass
"""),
    ("quot_rem", """def {name}(x: f32[64], n: size):
    for i in seq(0, 8):
        for j in seq(0, 8):
            sink2(i % 4 + i / 4 * 4, 4 * (i / 4) + i % 4)
            sink2(i / 4 * 4 + i % 4 + j, i % 4 + 8 * (i / 4))
            sink2(i % 4 + 4 * (j / 4), (n / 4) * 4 + n % 4)
            sink2(i - (i / 4) * 4, (i/4 + j) - i/4)
"""),
    ("div_fact", """def {name}(x: f32[64], n: size, a: index):
    if a / 8 == 0:
        sink2(a % 8, a / 8)
        if n / 4 == 0:
            sink2(n % 4 + a % 8, (n + a) % 4)
    else:
        sink1(a % 8)
    if 0 == n / 4:
        sink1(n % 4)
"""),
    ("shadow_arg", """def {name}(x: f32[16], n: size):
    if n == 4:
        for n in seq(0, 8):
            sink1(n)
        sink1(n)
"""),
    ("symbolic_lo", """def {name}(x: f32[16], n: size, a: index):
    for i in seq(n, n + 4):
        for j in seq(a, a + 4):
            sink2((i - n) % 4, (j - a) / 4)
            sink2((i - n + 4) / 4, i % 1 + j / 1)
    for i in seq(2, 6):
        sink2((i - 2) / 4, (i - 2) % 4)
        sink2((i + 2) / 8, (i - 6) % 8)
"""),
]


def tmpl_procs(r, n):
    """procedures aimed at the boundary of each rewrite (ranges that just fit / just do not fit the
    divisor, facts re-used in their branch, facts next to shadowing loops and config writes,
    recombination with equal / different divisors, loops with equal / reversed literal bounds)"""
    out = []
    for t in range(n):
        k = t % 8
        d = r.choice([2, 3, 4, 8])
        name = f"t{t}"
        L = [f"def {name}(n: size, a: index, x: f32[8], y: f32[4]):"]
        X = r.choice(["a", "a + 1", "n", "n + a", "a - 2", "2 * a"])
        if k == 0:
            lo = r.choice([0, 0, 1, -1, 2])
            hi = lo + r.choice([d - 1, d, d + 1])
            c = r.choice([0, d, -d, 1, -1, 2 * d])
            L += [f"    for i in seq({lo}, {hi}):",
                  f"        for j in seq(0, 3):",
                  f"            sink2((i + {d} * j + {c}) / {d}, ({d} * j + i + {c}) % {d})",
                  f"            sink2(({2 * d} * j + i) / {d}, (i + {c}) / {d})",
                  f"            sink2(({d} * j + i - {lo}) / {d}, ({d} * j + i - {lo}) % {d})"]
        elif k == 1:
            lo = r.choice([-2, -1, 0, 1])
            hi = lo + r.choice([1, d - 1, d, d + 1])
            c = r.choice([0, 1, 2, d, d + 1])
            L += [f"    for i in seq({lo}, {hi}):",
                  f"        sink2((i + {c}) % {d}, (i - {c}) % {d})",
                  f"        sink2((i + {d} * n) % {d}, (-i) % {d})",
                  f"        x[(i - {c}) % 8] = 1.0"]
        elif k == 2:
            k0 = r.choice([0, 0, 1, 2])
            side = r.random() < 0.5
            cond = f"({X}) / {d} == {k0}" if side else f"{k0} == ({X}) / {d}"
            L += [f"    if {cond}:",
                  f"        sink2(({X}) % {d}, ({X}) / {d})",
                  f"        sink1(({X}) % {d} + {d} * (({X}) / {d}))",
                  f"    else:",
                  f"        sink2(({X}) % {d}, ({X}) / {d})",
                  f"    sink1(({X}) % {d})"]
        elif k == 3:
            k0 = r.choice([0, 1, 2, 3])
            c = r.choice([0, 1, 2])
            e = "i" if c == 0 else f"i + {c}"
            inner = r.choice(["i", "i", "j"])
            L += [f"    for i in seq(0, 4):",
                  f"        if {e} == {k0}:",
                  f"            sink2({e}, i)",
                  f"            for {inner} in seq(0, 3):",
                  f"                sink2({inner}, {inner} + {c})",
                  f"                sink1(i + {c})",
                  f"            sink1({e})",
                  f"        else:",
                  f"            sink1({e})",
                  f"        sink1({e})"]
        elif k == 4:
            k0, k1 = r.choice([0, 3, 4]), r.choice([0, 3, 4])
            f = r.choice("ab")
            g = r.choice("ab")
            w = r.choice([None, f"Cfg.{f} = {k1}", f"Cfg.{g} = Cfg.{f} + 1", f"Cfg.{f} = a"])
            L += [f"    if Cfg.{f} == {k0}:",
                  f"        sink1(Cfg.{f} + 1)"]
            if w:
                L += [f"        {w}"]
            L += [f"        sink2(Cfg.{f}, Cfg.{g})",
                  f"        if Cfg.{f} == {k1}:",
                  f"            sink1(Cfg.{f})",
                  f"    else:",
                  f"        sink1(Cfg.{f})",
                  f"    sink1(Cfg.{f})"]
        elif k == 5:
            d2 = r.choice([d, d, 2 * d, r.choice([2, 3, 4, 8])])
            L += [f"    for i in seq(0, 9):",
                  f"        sink2(({X}) % {d} + {d2} * (({X}) / {d}), {d} * (({X}) / {d2}) + ({X}) % {d})",
                  f"        sink2(i % {d} + (i / {d2}) * {d}, (i / {d}) * {d2} + i % {d})",
                  f"        sink2(i % {d} + {d} * (({X}) / {d}), ({X}) % {d} + {d} * (i / {d}))"]
        elif k == 6:
            c1 = r.choice([0, 1, 2, 3])
            c2 = c1 + r.choice([0, 0, 1, -1, 2])
            cmp_ = r.choice(["<", "<=", ">", ">=", "=="])
            L += [f"    for i in seq({c1}, {c2}):",
                  f"        sink1(i)",
                  f"    for i in seq(n - n, {r.choice([0, 1])}):",
                  f"        sink1(i + n)",
                  f"    for i in seq(n, n):",
                  f"        sink1(i)",
                  f"    if {c1} {cmp_} {c2}:",
                  f"        sink1({c1})",
                  f"    else:",
                  f"        sink1({c2})",
                  f"    if n - n == {r.choice([0, 1])}:",
                  f"        sink1(n)"]
        else:
            a1, a2 = r.choice([(2, 2), (2, 4), (4, 2), (2, 3), (3, 2), (4, 4), (3, 3)])
            hi = r.choice([a1 - 1, a1, a1 + 1, a2])
            L += [f"    for i in seq(0, {max(hi, 1)}):",
                  f"        for j in seq(0, 5):",
                  f"            sink2((i + {a1} * j) / {a1 * a2}, ({a1} * i + {a1 * a2} * j) / {a1 * a2})",
                  f"            sink2(((i + {a1} * j) / {a1}) / {a2}, (i + {a1 * a2} * j + {a1 * a2}) / {a1 * a2})"]
        out.append((name, L))
    return out


def build_module(tmpdir, modname, procs):
    """procs: list of (name, [source lines]) -> module; every @proc is wrapped so that a front-end
    rejection of one procedure does not lose the others"""
    lines = [PREAMBLE]
    for name, body in procs:
        lines.append("try:")
        lines.append("    @proc")
        for ln in body:
            lines.append("    " + ln)
        lines.append("except Exception as _e:")
        lines.append(f"    ERR[{name!r}] = type(_e).__name__")
    path = Path(tmpdir) / f"{modname}.py"
    path.write_text("\n".join(lines) + "\n")
    spec = importlib.util.spec_from_file_location(modname, path)
    mod = importlib.util.module_from_spec(spec)
    sys.modules[modname] = mod
    spec.loader.exec_module(mod)
    return mod, path.read_text()


def proc_source(body_lines):
    return "@proc\n" + "\n".join(body_lines)


def tree_diff(real, model):
    """first differing subtree (real, model) of the exported procedures"""
    def go(a, b, path):
        if a == b:
            return None
        if isinstance(a, list) and isinstance(b, list) and len(a) == len(b) and a and isinstance(a[0], str) and a[0] == b[0]:
            for k, (x, y) in enumerate(zip(a, b)):
                d = go(x, y, path + [k])
                if d:
                    return d
        if isinstance(a, list) and isinstance(b, list) and len(a) == len(b) and (not a or not isinstance(a[0], str)):
            for k, (x, y) in enumerate(zip(a, b)):
                d = go(x, y, path + [k])
                if d:
                    return d
        return {"path": path, "real": a, "model": b}
    return go([real["preds"], real["body"]], [model["preds"], model["body"]], [])


# ------------------------------------------------------------------------------------------------
class Checker:
    def __init__(self, ctx, exo):
        self.ctx = ctx
        self.exo = exo
        from exo.stdlib.scheduling import simplify
        self.simplify = simplify
        self.strict = Exporter(exo, True)
        self.lenient = Exporter(exo, False)
        self.pending = []   # cases waiting for the model's answer
        self.cap = ctx.scale(400, 1500)

    # -- real code
    def run_real(self, p):
        try:
            return self.simplify(p), None
        except Exception as e:  # exceptions of the real code are data
            return None, type(e).__name__

    def case(self, label, source, p, stream):
        """one procedure: real simplify, search X now, model comparison queued"""
        ctx = self.ctx
        ir0 = p._loopir_proc
        q, err = self.run_real(p)
        ctx.count(f"{stream}:real:" + (err or "ok"))
        try:
            before_l = self.lenient.proc(ir0)
        except Unsupported as u:
            ctx.count(f"{stream}:unsupported-before:{u}")
            return
        try:
            before_s = self.strict.proc(ir0)
        except Unsupported:
            before_s = None
        after_l = after_s = None
        if q is not None:
            ir1 = q._loopir_proc
            try:
                after_l = self.lenient.proc(ir1)
            except Unsupported as u:
                ctx.count(f"{stream}:unsupported-after:{u}")
            try:
                after_s = self.strict.proc(ir1)
            except Unsupported:
                after_s = None
        if before_s is not None and len(_trace_cases) < 400 and stream != "ops":
            _trace_cases.append(before_s)
        rec = {"label": label, "source": source, "stream": stream, "before_l": before_l, "before_s": before_s,
               "after_l": after_l, "after_s": after_s, "err": err,
               "printed_before": str(p), "printed_after": str(q) if q is not None else None}
        # ---- search X: exhaustive valuation box
        rec["witness"] = None
        if after_l is not None:
            try:
                n, w = compare_on_box(before_l, after_l, self.cap)
            except Exception as e:
                raise InfraError(f"trace evaluator failed on {label}: {type(e).__name__}: {e}\n{source}")
            rec["n_valuations"] = n
            rec["witness"] = w
            ctx.count(f"{stream}:valuations", n)
            if w is not None:
                ctx.count(f"{stream}:value-changed")
        stats = count_nodes(before_l)
        nontrivial = stats["div"] + stats["mod"] + stats["if"] + stats["for"] > 0 and rec.get("n_valuations", 0) > 0
        ctx.evaluated(("case", stream, json.dumps(before_l["body"], sort_keys=True)), nontrivial=nontrivial)
        for k in ("div", "mod", "if", "for", "w", "cfgread", "expr"):
            ctx.count(f"{stream}:nodes:{k}", stats[k])
        if has_shadow(before_l):
            ctx.count(f"{stream}:with-shadowed-names")
        if nontrivial and stream in ("tmpl", "gen", "ops") and rec["printed_after"] != rec["printed_before"]:
            ctx.sample({"stream": stream, "label": label, "before": rec["printed_before"], "after": rec["printed_after"],
                        "valuations_checked": rec.get("n_valuations", 0), "value_changed": rec["witness"] is not None})
        self.pending.append(rec)

    # -- model
    def flush(self, extra=()):
        """ask the driver for every pending case (plus `extra` request lines, whose answers are returned),
        compare, attribute value changes; one driver process for everything"""
        ctx = self.ctx
        recs = self.pending
        self.pending = []
        reqs, owners = [], []
        for k, r in enumerate(recs):
            if r["before_s"] is not None:
                b = r["before_s"]
                reqs.append(json.dumps({"op": "simplify", "sizes": b["sizes"], "preds": b["preds"], "body": b["body"]}))
                owners.append((k, "model"))
                if r["witness"] is not None:
                    ra = rename_apart(b)
                    reqs.append(json.dumps({"op": "simplify", "sizes": ra["sizes"], "preds": ra["preds"], "body": ra["body"]}))
                    owners.append((k, "renamed"))
                    dc = drop_cfg_writes(b)
                    reqs.append(json.dumps({"op": "simplify", "sizes": dc["sizes"], "preds": dc["preds"], "body": dc["body"]}))
                    owners.append((k, "nocfgw"))
                    df = defact(b)
                    reqs.append(json.dumps({"op": "simplify", "sizes": df["sizes"], "preds": df["preds"], "body": df["body"]}))
                    owners.append((k, "defact"))
                    reqs.append(json.dumps({"op": "simplify", "sizes": ra["sizes"], "preds": ra["preds"],
                                            "body": drop_cfg_writes(ra)["body"]}))
                    owners.append((k, "all"))
        extra = list(extra)
        answers = lean_batch(DRIVER, reqs + extra) if (reqs or extra) else []
        extra_answers = answers[len(reqs):]
        answers = answers[: len(reqs)]
        got = {}
        for (k, what), a in zip(owners, answers):
            try:
                got.setdefault(k, {})[what] = json.loads(a)
            except Exception:
                raise InfraError(f"driver answer not JSON: {a[:200]}")
        for k, r in enumerate(recs):
            self.judge(r, got.get(k, {}))
        return extra_answers

    def judge(self, r, ans):
        ctx = self.ctx
        stream = r["stream"]
        replay = {"how": "put `source` (after `from exo import proc, config`, the Cfg/sink preamble of harness/props/c12.py) "
                         "in a module, call exo.stdlib.scheduling.simplify on the procedure and evaluate both procedures "
                         "on the valuation",
                  "label": r["label"], "source": r["source"], "before": r["printed_before"], "after": r["printed_after"]}
        model_same = None
        m = ans.get("model")
        if m is not None:
            if not m.get("ok"):
                if str(m.get("err", "")).startswith(("parse", "request")):
                    raise InfraError(f"driver rejected request: {m}")
                # model outside its domain: the real code must have failed too (or it is a model gap)
                if r["err"] is None:
                    model_same = False
                    ctx.count(f"{stream}:model-none-real-ok")
                else:
                    model_same = True
                    ctx.count(f"{stream}:both-fail")
            elif r["after_s"] is None:
                model_same = False
                ctx.count(f"{stream}:model-ok-real-{r['err'] or 'unexportable'}")
            else:
                model_same = (m["body"] == r["after_s"]["body"] and m["preds"] == r["after_s"]["preds"])
                ctx.count(f"{stream}:model-" + ("same" if model_same else "DIFFERENT"))
        w = r["witness"]
        if w is not None:
            replay["valuation"] = w
            keys = []
            if model_same:
                b = r["before_s"]
                variants = {"renamed": (rename_apart(b), KEY_SHADOW), "nocfgw": (drop_cfg_writes(b), KEY_CFG),
                            "defact": (defact(b), None)}
                fixed_by = {}
                for name, (bb, key) in variants.items():
                    a = ans.get(name)
                    fixed_by[name] = False
                    if a and a.get("ok"):
                        aa = dict(bb, body=a["body"], preds=a["preds"])
                        _, ww = compare_on_box(bb, aa, self.cap)
                        fixed_by[name] = ww is None
                if fixed_by["renamed"]:
                    # printed-name comparison: the fact table if emptying the table also repairs it,
                    # otherwise is_quotient_remainder
                    keys.append(KEY_SHADOW if fixed_by["defact"] else KEY_QUOT)
                if fixed_by["nocfgw"]:
                    keys.append(KEY_CFG)
                if not keys:
                    a = ans.get("all")
                    if a and a.get("ok"):
                        bb = drop_cfg_writes(rename_apart(b))
                        aa = dict(bb, body=a["body"], preds=a["preds"])
                        _, ww = compare_on_box(bb, aa, self.cap)
                        if ww is None:
                            keys = [KEY_SHADOW, KEY_CFG]   # several causes at once
                            # keep only the causes that are syntactically present
                            if not has_shadow(b):
                                keys.remove(KEY_SHADOW)
                            if count_nodes(b)["w"] == 0:
                                keys.remove(KEY_CFG)
            if keys:
                for key in keys:
                    ctx.count(f"{stream}:attributed:{key}")
                    ctx.violation(key, f"simplify changed an index value ({key}); valuation {w['valuation']}", replay)
            else:
                d = w.get("first_difference", {})
                ctx.violation(KEY_GENERIC + ":" + stream,
                              f"simplify changed the value of an index expression / the executed statements of "
                              f"{r['label']}: valuation {w['valuation']} config {w['config']} difference {d}", replay)
        if model_same is False:
            r["model_diff"] = tree_diff(r["after_s"], m) if (m and m.get("ok") and r["after_s"]) else None
            if w is None:
                self.model_gap.append((r, m))

    model_gap: list = []


# ------------------------------------------------------------------------------------------------
def ops_stream(chk, ctx, tmpdir):
    """outputs of divide_loop / stage_mem / expand_dim (+ the usual follow-ups) through simplify"""
    exo = chk.exo
    from exo.stdlib import scheduling as S
    src = PREAMBLE + '''
@proc
def gemm(M: size, N: size, K: size, A: f32[M, K], B: f32[K, N], Cm: f32[M, N]):
    for i in seq(0, M):
        for j in seq(0, N):
            for k in seq(0, K):
                Cm[i, j] += A[i, k] * B[k, j]
@proc
def gemm8(M: size, N: size, K: size, A: f32[M, K], B: f32[K, N], Cm: f32[M, N]):
    assert M % 4 == 0
    assert N % 2 == 0
    for i in seq(0, M):
        for j in seq(0, N):
            for k in seq(0, K):
                Cm[i, j] += A[i, k] * B[k, j]
@proc
def stencil(N: size, inp: f32[N + 2], out: f32[N]):
    for i in seq(0, N):
        out[i] = inp[i] + inp[i + 1] + inp[i + 2]
@proc
def callee_same_name(a: index):
    for i in seq(0, 8):
        sink1(a % 4 + 4 * (i / 4))
@proc
def caller_same_name():
    for i in seq(0, 8):
        callee_same_name(i)
@proc
def scal(N: size, x: f32[N]):
    for i in seq(3, N + 3):
        t: f32
        t = x[i - 3]
        x[i - 3] = t * 2.0
'''
    path = Path(tmpdir) / "c12_ops.py"
    path.write_text(src)
    spec = importlib.util.spec_from_file_location("c12_ops", path)
    mod = importlib.util.module_from_spec(spec)
    sys.modules["c12_ops"] = mod
    spec.loader.exec_module(mod)
    r = ctx.rng
    tails = ["guard", "cut", "cut_and_guard"]

    # `inline` brings two different symbols with the same name into one scope
    try:
        p_inl = S.inline(mod.caller_same_name, "callee_same_name(_)")
        chk.case("inline_same_name", "# S.inline(caller_same_name, 'callee_same_name(_)') of c12.py ops_stream\n" + str(p_inl),
                 p_inl, "fixed")
    except Exception as e:
        ctx.count(f"ops:inline:rejected:{type(e).__name__}")

    def attempt(label, base, steps):
        """steps: list of (opname, fn(p)->p).  Every prefix that succeeds is simplified and checked."""
        p = base
        done = []
        for name, fn in steps:
            try:
                p = fn(p)
            except Exception as e:
                ctx.count(f"ops:{name}:rejected:{type(e).__name__}")
                break
            done.append(name)
            ctx.count(f"ops:{name}:applied")
            chk.case(f"{label}:{'+'.join(done)}", "# pipeline on c12.py ops_stream procedure\n" + str(p), p, "ops")

    n = ctx.scale(4, 40)
    for t in range(n):
        c1 = r.choice([2, 3, 4])
        c2 = r.choice([2, 4])
        tail1, tail2 = r.choice(tails), r.choice(tails)
        attempt(f"gemm#{t}", mod.gemm, [
            ("divide_loop", lambda p: S.divide_loop(p, "i", c1, ["io", "ii"], tail=tail1)),
            ("divide_loop", lambda p: S.divide_loop(p, "j", c2, ["jo", "ji"], tail=tail2)),
            ("expand_dim", lambda p: S.expand_dim(S.bind_expr(p, [p.find("A[_]")], "a_tmp"), "a_tmp", str(c1 + 1), "ii + 1 - 1")
             if tail1 == "guard" else S.lift_alloc(S.bind_expr(p, [p.find("A[_]")], "a_tmp"), "a_tmp", 1)),
        ])
        attempt(f"gemm8#{t}", mod.gemm8, [
            ("divide_loop", lambda p: S.divide_loop(p, "i", 4, ["io", "ii"], perfect=True)),
            ("divide_loop", lambda p: S.divide_loop(p, "j", 2, ["jo", "ji"], perfect=True)),
            ("stage_mem", lambda p: S.stage_mem(p, p.find_loop("ii"), "A[4 * io:4 * io + 4, 0:K]", "A_s")),
            ("stage_mem", lambda p: S.stage_mem(p, p.find_loop("ji"), "Cm[4 * io + ii, 2 * jo:2 * jo + 2]", "C_s")),
            ("divide_loop", lambda p: S.divide_loop(p, "k", c1, ["ko", "ki"], tail=tail1)),
        ])
        attempt(f"stencil#{t}", mod.stencil, [
            ("divide_loop", lambda p: S.divide_loop(p, "i", c2, ["io", "ii"], tail=tail2)),
            ("stage_mem", lambda p: S.stage_mem(p, p.find_loop("ii"), f"inp[{c2} * io:{c2} * io + {c2 + 2}]", "inp_s")
             if tail2 == "cut" else S.stage_mem(p, p.find_loop("io"), "inp[0:N + 2]", "inp_s")),
        ])
        attempt(f"scal#{t}", mod.scal, [
            ("expand_dim", lambda p: S.expand_dim(p, "t", str(c1), f"(i - 3) % {c1}")),
            ("divide_loop", lambda p: S.divide_loop(p, "i", c1, ["io", "ii"], tail=tail1)),
            ("lift_alloc", lambda p: S.lift_alloc(p, "t", 2)),
        ])


def expr_stream(chk, ctx, tmpdir, drv_reqs):
    """expression + context pairs: the context (loops, guards) is wrapped around `sink1(e)`; the real
    result is read off the call argument, the model is asked through the `expr` request"""
    r = ctx.rng
    g = Gen(r, use_cfg=False)
    n = ctx.scale(30, 400)
    procs, metas = [], []
    for t in range(n):
        vs = ["n", "a"]
        loops, guards = [], []
        lines = []
        ind = "    "
        body_vs = list(vs)
        for d in range(r.choice([0, 1, 2, 2, 3])):
            if r.random() < 0.7:
                v = r.choice(["i", "j", "k"]) if r.random() < 0.85 or not loops else r.choice([l[0] for l in loops])
                lo, hi = g.bounds([x for x in body_vs if x != v])
                lines.append(f"{ind}for {v} in seq({lo}, {hi}):")
                loops.append((v, lo, hi))
                body_vs = [x for x in body_vs if x != v] + [v]
            else:
                c = g.cond(body_vs, 0)
                lines.append(f"{ind}if {c}:")
                guards.append(c)
            ind += "    "
        e = g.expr(body_vs, 3)
        lines.append(f"{ind}sink1({e})")
        name = f"e{t}"
        procs.append((name, [f"def {name}(n: size, a: index, x: f32[8], y: f32[4]):"] + lines))
        metas.append({"e": e, "loops": loops, "guards": guards})
    mod, _ = build_module(tmpdir, "c12_exprs", procs)
    from exo.core.LoopIR import LoopIR
    for (name, body), meta in zip(procs, metas):
        p = getattr(mod, name, None)
        if p is None or name in mod.ERR:
            ctx.count("expr:front-end-rejected:" + mod.ERR.get(name, "?"))
            continue
        src = proc_source(body)
        q, err = chk.run_real(p)
        if q is None:
            ctx.count("expr:real:" + err)
            continue

        def walk(stmts, scope, conds):
            for s in stmts:
                if isinstance(s, LoopIR.For):
                    yield from walk(s.body, scope + [[s.iter.name(), s.iter._id, chk.strict.e(s.lo), chk.strict.e(s.hi)]], conds)
                elif isinstance(s, LoopIR.If):
                    yield from walk(s.body, scope, conds + [(len(scope), chk.strict.e(s.cond))])
                elif isinstance(s, LoopIR.Call):
                    yield scope, conds, s.args[0]
        try:
            befores = list(walk(p._loopir_proc.body, [], []))
            afters = list(walk(q._loopir_proc.body, [], []))
        except Unsupported:
            ctx.count("expr:unsupported")
            continue
        if len(befores) != 1:
            continue
        scope, conds, e0 = befores[0]
        b = chk.strict.proc(p._loopir_proc)
        # guards are only usable in this request form when they come after all loops (fact order = nesting order)
        req = {"op": "expr", "sizes": b["sizes"], "scope": scope, "facts": [c for _, c in conds], "e": chk.strict.e(e0)}
        after_e = chk.strict.e(afters[0][2]) if len(afters) == 1 else None
        drv_reqs.append((req, {"name": name, "source": src, "after": after_e,
                               "after_str": " ".join(str(afters[0][2]).split()) if len(afters) == 1 else None}))


def run(ctx):
    exo = import_exo()
    ctx.rule = ("random procedures (2-4 top-level statements, nesting depth <= 3) over call arguments, buffer accesses, "
                "loop bounds, if-conditions, allocation sizes and config writes whose index expressions are drawn from a "
                "quasi-affine grammar (+ - scaling / % by literals, unary minus, negative constants, patterns hitting every "
                "exit of division_simplification / modulo_simplification / is_quotient_remainder and their near misses), "
                "inside loops with constant, non-zero and symbolic bounds, guards (equalities that feed the fact table, "
                "inequalities, foldable conditions), asserts, shadowed loop names and config reads/writes; a case is distinct "
                "by its exported body and non-trivial if it contains a / % if or for and at least one admitted valuation")
    ctx.assumptions += [
        "the Lean model's range oracle in the driver (ExoModel.SimplifyOracle) is a stand-in for check_expr_bound(s); "
        "the theorems assume an arbitrary sound oracle (soundness of the real range analysis is property C13)",
        "`==` on LoopIR nodes in the `(a + b) - a` rule compares srcinfo objects by identity; the model takes it as a "
        "parameter (instantiated to `never equal`, which is what holds for procedures coming from the front end)",
        "the flat text of str(e) determines the printed tree (KExpr) — the printer inserts all parentheses the "
        "precedences require; checked on every compared expression by the `str` requests",
        "valuation boxes are small (sizes 1..8, index arguments -3..7, config fields 0..4); values outside are covered "
        "only by the theorems",
    ]
    ctx.trusted += ["harness/props/c12.py: exporter LoopIR -> neutral tree, python trace evaluator (// and %), generators",
                    "Drivers/C12.lean JSON decoding/encoding",
                    "LoopIR front end (parser, type checker) used to build the inputs; Cursor forwarding inside "
                    "DoSimplify/_DoNormalize is modelled only by its effect on the tree"]

    # ---- 1. obligations
    broken = ctx.lean_obligations(["ExoModel.Props.C12"],
                                  build_targets=["ExoModel.Props.C12", "ExoModel.SimplifyWire"])  # the driver imports SimplifyWire

    chk = Checker(ctx, exo)
    chk.model_gap = []
    _trace_cases.clear()
    phase = {}
    if ctx.replay:
        with tempfile.TemporaryDirectory(prefix="c12_") as tmpdir:
            replay_one(chk, ctx, tmpdir)
        for b in broken:
            ctx.violation("obligation:" + b, f"Lean obligation broken: {b}", {"obligation": b}, no_input=True)
        return
    with tempfile.TemporaryDirectory(prefix="c12_") as tmpdir:
        # ---- 2a. fixed procedures
        procs = [(f"fx_{nm}", src.format(name=f"fx_{nm}").rstrip("\n").split("\n")) for nm, src in FIXED]
        mod, _ = build_module(tmpdir, "c12_fixed", procs)
        for name, body in procs:
            if name in mod.ERR or not hasattr(mod, name):
                raise InfraError(f"fixed procedure {name} rejected by the front end: {mod.ERR.get(name)}")
            chk.case(name, proc_source(body), getattr(mod, name), "fixed")
        phase["fixed"] = round(ctx.elapsed(), 1)
        # ---- 2b. templates at the boundary of each rule
        procs = tmpl_procs(ctx.rng, ctx.scale(40, 480))
        mod, _ = build_module(tmpdir, "c12_tmpl", procs)
        for name, body in procs:
            if name in mod.ERR or not hasattr(mod, name):
                ctx.count("tmpl:front-end-rejected:" + mod.ERR.get(name, "?"))
                continue
            chk.case(name, proc_source(body), getattr(mod, name), "tmpl")
        phase["tmpl"] = round(ctx.elapsed(), 1)
        # ---- 2c. generated procedures
        nproc = ctx.scale(80, 1200)
        gen = Gen(ctx.rng)
        batch = 20
        made = 0
        t_gen = ctx.elapsed()
        while made < nproc:
            procs = []
            for k in range(batch):
                procs.append((f"g{made + k}", gen.proc(f"g{made + k}")))
            mod, _ = build_module(tmpdir, f"c12_gen_{made}", procs)
            for name, body in procs:
                if name in mod.ERR or not hasattr(mod, name):
                    ctx.count("gen:front-end-rejected:" + mod.ERR.get(name, "?"))
                    continue
                chk.case(name, proc_source(body), getattr(mod, name), "gen")
            made += batch
            if ctx.quick and ctx.elapsed() - t_gen > 45:
                break
        phase["gen"] = round(ctx.elapsed(), 1)
        # ---- 2c. outputs of other scheduling operations
        try:
            ops_stream(chk, ctx, tmpdir)
        except InfraError:
            raise
        phase["ops"] = round(ctx.elapsed(), 1)
        # ---- 2d. expression + context requests, printed keys; 3. Lean semantics vs python evaluator
        drv_reqs = []
        expr_stream(chk, ctx, tmpdir, drv_reqs)
        phase["expr"] = round(ctx.elapsed(), 1)
        treqs, texpect = sample_trace_requests(ctx)
        answers = chk.flush([json.dumps(r) for r, _ in drv_reqs] + treqs)
        phase["model"] = round(ctx.elapsed(), 1)
        tanswers = answers[len(drv_reqs):]
        answers = answers[: len(drv_reqs)]
        if drv_reqs:
            for (req, meta), a in zip(drv_reqs, answers):
                a = json.loads(a)
                if not a.get("ok"):
                    if str(a.get("err", "")).startswith(("parse", "request: unknown")):
                        raise InfraError(f"driver rejected request: {a}")
                    ctx.count("expr:model-none")
                    continue
                if meta["after"] is None:
                    ctx.count("expr:removed-by-real")   # dead branch / loop: the call disappeared
                    continue
                same = a["e"] == meta["after"]
                same_str = " ".join(a["str"].split()) == meta["after_str"]
                ctx.count("expr:" + ("same" if same else "DIFFERENT"))
                ctx.count("expr:str-" + ("same" if same_str else "DIFFERENT"))
                ctx.evaluated(("expr", json.dumps(req, sort_keys=True)), nontrivial=True)
                if not same or not same_str:
                    chk.model_gap.append(({"label": meta["name"], "source": meta["source"], "stream": "expr",
                                           "printed_after": meta["after_str"]}, a))

        sample_trace_judge(ctx, treqs, texpect, tanswers)
        phase["end"] = round(ctx.elapsed(), 1)
    ctx.extra["phase_end_s"] = phase

    # ---- 4. verdicts for theorem / correspondence breaks without a failing input
    for b in broken:
        ctx.violation("obligation:" + b, f"Lean obligation broken: {b}", {"obligation": b}, no_input=True)
    for r, m in chk.model_gap[:5]:
        ctx.violation(KEY_MODEL + ":" + r["stream"],
                      f"real simplify and the Lean model disagree on {r['label']} (no value change found on the box)",
                      {"source": r["source"], "real_after": r.get("printed_after"), "first_difference": r.get("model_diff"),
                       "model": m}, no_input=True)
    ctx.extra["model_gaps"] = len(chk.model_gap)
    ctx.extra["model_gap_diffs"] = [{"label": r["label"], "diff": r.get("model_diff")} for r, _ in chk.model_gap[:20]]


_trace_cases = []


def replay_one(chk, ctx, tmpdir):
    """./check C12 --replay replays/C12_….json : rebuild the recorded procedure from its source text,
    run the real simplify, the model comparison and the valuation search on it again"""
    rec = json.loads(Path(ctx.replay).read_text())
    rp = rec.get("replay") or {}
    src = rp.get("source")
    if not src:
        raise InfraError("replay file has no source")
    lines = [ln for ln in src.split("\n") if not ln.startswith("#") and ln.strip() != "@proc"]
    name = None
    for ln in lines:
        if ln.startswith("def "):
            name = ln[4:].split("(")[0].strip()
            break
    if name is None:
        raise InfraError("replay source has no def")
    mod, _ = build_module(tmpdir, "c12_replay", [(name, lines)])
    if name in mod.ERR or not hasattr(mod, name):
        raise InfraError(f"replay source rejected by the front end: {mod.ERR.get(name)}")
    chk.case(name, proc_source(lines), getattr(mod, name), rec.get("key", "replay").split(":")[-1] or "replay")
    chk.flush()
    for r, m in chk.model_gap[:5]:
        ctx.violation(KEY_MODEL + ":" + r["stream"], f"real simplify and the Lean model disagree on {r['label']}",
                      {"source": r["source"], "real_after": r.get("printed_after"), "first_difference": r.get("model_diff")},
                      no_input=True)


def sample_trace_requests(ctx):
    """the python evaluator and Lean's `execB` on the same trees and valuations (ties `execB`/`eval`,
    the subject of the theorems, to the independent oracle of the search)"""
    cases = [r for r in _trace_cases][: ctx.scale(25, 120)]
    reqs, expect = [], []
    for neutral in cases:
        run, preds = compile_trace(neutral, loops=False)
        k = 0
        for V, C in box(neutral, 40):
            try:
                if not all(preds(V, dict(C))):
                    continue
                t, c = run(V, dict(C))
            except BadDivisor:
                continue
            reqs.append(json.dumps({"op": "trace", "body": neutral["body"],
                                    "syms": [[n, i, v] for (n, i), v in V.items()],
                                    "cfg": [[cf[0], cf[1], v] for cf, v in C.items()]}))
            expect.append(([list(x) for x in t], sorted([cf[0], cf[1], v] for cf, v in c.items() if cf in C)))
            k += 1
            if k >= 3:
                break
    return reqs, expect


def sample_trace_judge(ctx, reqs, expect, answers):
    bad = 0
    for a, (t, c), rq in zip(answers, expect, reqs):
        a = json.loads(a)
        if not a.get("ok"):
            raise InfraError(f"trace request failed: {a}")
        ctx.count("lean-trace:compared")
        if a["trace"] != t or sorted(a["cfg"]) != c:
            bad += 1
            if bad == 1:
                ctx.violation("simplify:lean-semantics-vs-python", "Lean execB and the python evaluator disagree",
                              {"request": json.loads(rq), "lean": a, "python": {"trace": t, "cfg": c}}, no_input=True)
    ctx.evaluated(n=len(reqs))
