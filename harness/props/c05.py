"""C05 — `replace` only substitutes true instances of the callee.

Obligations: lean/ExoModel/Props/C05.lean (validator soundness, inline correctness).
Tie (certificate check): every call a REAL `replace` / `replace_all` / `call_site_mem_aware_replace`
produces (recorded by wrapping `DoReplace` in this process) is exported — block before, call after,
callee — and must pass the verified validator `checkReplace` (lean/Drivers/C05.lean).  The
instantiated obligations (sizes positive, window extents = declared extents, the callee's
assertions) are evaluated on all valuations of a small box satisfying the caller's context.
Also: the model of `DoInline` is compared (up to the names of bound symbols) with what the real
`DoInline` makes of the new call.
Search (always): differential execution of the procedure before / after `replace` (and after
inlining the call again) in the Lean reference interpreter, the callee executed from its body with
the assertion / shape / alias / bounds monitors on.
"""
from __future__ import annotations

import hashlib
import itertools
import json
import sys
import os
import traceback

from common import InfraError, LeanDriver

import exo_build
import export_ir
import interp

# --------------------------------------------------------------------------------------------
# candidate sub-procedures (besides every instruction of exo.platforms.x86)

SUBSRC = '''
@config
class CfgLd:
    scale: f32
    k: index

@config
class CfgSt:
    scale: f32
    k: index

@proc
def cfg_scale(n: size, dst: [f32][n]):
    for i in seq(0, n):
        dst[i] = CfgLd.scale * dst[i]

@proc
def inner_neg(n: size, dst: [R][n], src: [R][n]):
    for i in seq(0, n):
        dst[i] = -src[i]

@proc
def cp8(n: size, dst: [f32][n], src: [f32][n]):
    assert n == 8
    assert stride(dst, 0) == 1
    for i in seq(0, n):
        dst[i] = src[i]

@proc
def cpn(n: size, dst: [f32][n], src: [f32][n]):
    for i in seq(0, n):
        dst[i] = src[i]

@proc
def cp_mod4(n: size, dst: [R][n], src: [R][n]):
    assert n % 4 == 0
    for i in seq(0, n):
        dst[i] = src[i]

@proc
def shifted(n: size, off: index, dst: [R][n], src: [R][n + 4]):
    assert off >= 0
    assert off <= 4
    for i in seq(0, n):
        dst[i] = src[i + off]

@proc
def tile_acc(n: size, m: size, C: [R][n, m], A: [R][n, m]):
    for i in seq(0, n):
        for j in seq(0, m):
            C[i, j] += A[i, j]

@proc
def transp(n: size, m: size, dst: [R][n, m], src: [R][m, n]):
    for i in seq(0, n):
        for j in seq(0, m):
            dst[i, j] = src[j, i]

@proc
def guarded_cp(n: size, b: bool, dst: [R][n], src: [R][n]):
    for i in seq(0, n):
        if b:
            dst[i] = src[i]

@proc
def scale(n: size, a: R, dst: [R][n]):
    for i in seq(0, n):
        dst[i] = a * dst[i]

@proc
def two_stmts(n: size, x: [R][n], y: [R][n]):
    for i in seq(0, n):
        x[i] = 0.0
    for i in seq(0, n):
        y[i] += x[i]

@proc
def with_tmp(n: size, dst: [R][n], src: [R][n]):
    for i in seq(0, n):
        t: R
        t = src[i] * 2.0
        dst[i] = t

@proc
def strided2(n: size, dst: [R][n], src: [R][2 * n]):
    for i in seq(0, n):
        dst[i] = src[2 * i]

@proc
def dense_arg(n: size, dst: f32[n], src: [f32][n]):
    for i in seq(0, n):
        dst[i] = src[i]

@proc
def tail(n: size, m: size, dst: [R][n], src: [R][n]):
    assert m <= n
    for i in seq(0, n):
        if i < m:
            dst[i] = src[i]

@proc
def dot(n: size, x: [R][n], y: [R][n], acc: R):
    for i in seq(0, n):
        acc += x[i] * y[i]

@proc
def upper(n: size, A: [R][n, n]):
    for i in seq(0, n):
        for j in seq(i, n):
            A[i, j] = 0.0

@proc
def inner_cp(n: size, dst: [R][n], src: [R][n]):
    for i in seq(0, n):
        dst[i] = src[i]

@proc
def outer_rows(n: size, m: size, D: R[n, m], S: R[n, m]):
    for i in seq(0, n):
        inner_cp(m, D[i, 0:m], S[i, 0:m])

@proc
def outer_cols(n: size, D: R[n, 8], S: R[n, 8]):
    for j in seq(0, 8):
        inner_cp(n, D[0:n, j], S[0:n, j])

@proc
def outer_half(n: size, D: R[2 * n], S: R[2 * n]):
    inner_cp(n, D[0:n], S[n:2 * n])
    inner_cp(n, D[n:2 * n], S[0:n])

@proc
def row_bcast(n: size, m: size, dst: [R][n, m], v: [R][m]):
    assert n >= 2
    for i in seq(0, n):
        for j in seq(0, m):
            dst[i, j] = v[j]

# a DIFFERENT procedure that is also called `inner_cp` (same-name near miss for calls inside a callee body)
inner_cp_alt = rename(inner_neg, "inner_cp")
'''

MUTS = ["hi+1", "hi-1", "lo1", "scale2", "swapkind", "extra", "swapops", "const", "alias",
        "iter", "leq", "negate", "off1", "drop", "op", "addelse", "cfgswap", "callswap"]


class Skip(Exception):
    pass


# --------------------------------------------------------------------------------------------
# kernels: an instance of the callee's body over the caller's buffers (or a near miss)

class KGen:
    """prints the callee's body over caller buffers: every tensor formal becomes an access pattern
    into a caller buffer (offsets, extra point dimensions, permuted dimensions), every control
    formal a caller expression; `mut` turns the instance into a near miss"""

    def __init__(self, exo, callee_ir, rng, mut, kname):
        from exo.core.LoopIR import LoopIR, T
        self.L, self.T = LoopIR, T
        self.f = callee_ir
        self.rng = rng
        self.mut = mut
        self.kname = kname
        self.mut_done = False
        self.ctrl = {}      # Sym -> text
        self.tens = {}      # Sym -> (bufname, [("pt", text) | ("iv", formal_dim, off_text, scale)])
        self.scal = {}      # Sym -> text
        self.local = {}     # Sym -> name of callee-local allocation
        self.iters = {}     # Sym -> text
        self.args_src = []  # caller argument declarations
        self.n_assign = 0
        self.n_binop = 0
        self.n_read = 0
        self.depth = 0

    # ---- expressions over the formals, printed for the caller
    def ce(self, e, top=False):
        L = self.L
        if isinstance(e, L.Read):
            if e.name in self.ctrl:
                t = self.ctrl[e.name]
                return t if (top or t.isalnum()) else f"({t})"
            if e.name in self.iters:
                return self.iters[e.name]
            raise Skip(f"control name {e.name}")
        if isinstance(e, L.Const):
            if isinstance(e.val, bool):
                return "True" if e.val else "False"
            return str(e.val)
        if isinstance(e, L.USub):
            return f"-{self.ce(e.arg)}"
        if isinstance(e, L.BinOp):
            op = e.op
            if self.mut == "leq" and op == "<" and not self.mut_done:
                self.mut_done = True
                op = "<="
            s = f"{self.ce(e.lhs)} {op} {self.ce(e.rhs)}"
            return s if top else f"({s})"
        if isinstance(e, L.StrideExpr):
            if e.name in self.tens:
                b, pat = self.tens[e.name]
                ivs = [k for k, p in enumerate(pat) if p[0] == "iv"]
                for k, p in enumerate(pat):
                    if p[0] == "iv" and p[1] == e.dim:
                        return f"stride({b}, {k})"
            raise Skip("stride of non-tensor")
        raise Skip(f"control expr {type(e).__name__}")

    def compose(self, off, sc, e):
        if sc != 1:
            e = f"{sc} * ({e})" if not e.isalnum() else f"{sc} * {e}"
        if off == "0":
            return e if self.rng.random() < 0.7 else f"{e} + 0"
        return f"{e} + {off}" if self.rng.random() < 0.5 else f"{off} + {e}"

    def access(self, name, idx, is_read):
        if name in self.local:
            return self.local[name] + (f"[{', '.join(self.ce(i, True) for i in idx)}]" if idx else "")
        if name in self.scal:
            return self.scal[name]
        if name not in self.tens:
            raise Skip(f"buffer {name}")
        b, pat = self.tens[name]
        out = []
        for p in pat:
            if p[0] == "pt":
                out.append(p[1])
            else:
                _, d, off, sc = p
                e = self.ce(idx[d], True)
                if self.mut == "iter" and is_read and not self.mut_done and self.outer:
                    self.mut_done = True
                    e = self.outer[-1][0]
                if self.mut == "off1" and is_read and not self.mut_done:
                    self.mut_done = True
                    e = f"{e} + 1" if e.isalnum() else f"({e}) + 1"
                out.append(self.compose(off, sc, e))
        return f"{b}[{', '.join(out)}]"

    def ve(self, e):
        """a numeric call argument: a window of a formal, over the caller's buffer"""
        L = self.L
        if isinstance(e, L.Read) and e.idx:
            return self.access(e.name, e.idx, True)
        if isinstance(e, L.Read) and e.name in self.scal:
            return self.scal[e.name]
        if isinstance(e, L.WindowExpr) and e.name in self.tens:
            b, pat = self.tens[e.name]
            out = []
            for p in pat:
                if p[0] == "pt":
                    out.append(p[1])
                    continue
                _, d, off, sc = p
                if sc != 1:
                    raise Skip("scaled window")
                w = e.idx[d]
                if isinstance(w, L.Point):
                    out.append(self.compose(off, 1, self.ce(w.pt, True)))
                else:
                    out.append(f"{self.compose(off, 1, self.ce(w.lo, True))}:{self.compose(off, 1, self.ce(w.hi, True))}")
            return f"{b}[{', '.join(out)}]"
        raise Skip(f"view argument {type(e).__name__}")

    def de(self, e):
        L = self.L
        if isinstance(e, L.Read):
            self.n_read += 1
            return self.access(e.name, e.idx, True)
        if isinstance(e, L.Const):
            v = e.val
            if self.mut == "const" and not self.mut_done:
                self.mut_done = True
                v = v + 1
            return repr(float(v))
        if isinstance(e, L.USub):
            return f"-{self.de(e.arg)}"
        if isinstance(e, L.BinOp):
            a, b = self.de(e.lhs), self.de(e.rhs)
            op = e.op
            if self.mut == "swapops" and not self.mut_done:
                self.mut_done = True
                a, b = b, a
            if self.mut == "op" and not self.mut_done:
                self.mut_done = True
                op = {"+": "-", "-": "+", "*": "/", "/": "*"}.get(op, op)
            return f"({a} {op} {b})"
        if isinstance(e, L.Extern):
            return f"{e.f.name()}({', '.join(self.de(a) for a in e.args)})"
        if isinstance(e, L.ReadConfig):
            cn = e.config.name()
            if self.mut == "cfgswap" and not self.mut_done:
                # near miss: the block reads the same field of ANOTHER configuration struct
                self.mut_done = True
                cn = {"CfgLd": "CfgSt", "CfgSt": "CfgLd"}.get(cn, cn)
            return f"{cn}.{e.field}"
        raise Skip(f"data expr {type(e).__name__}")

    def stmts(self, ss, ind, top=False):
        L = self.L
        out = []
        for k, s in enumerate(ss):
            pad = "    " * ind
            if isinstance(s, (L.Assign, L.Reduce)):
                op = "=" if isinstance(s, L.Assign) else "+="
                if self.mut == "swapkind" and not self.mut_done:
                    self.mut_done = True
                    op = "+=" if op == "=" else "="
                rhs = self.de(s.rhs)
                if self.mut == "negate" and not self.mut_done:
                    self.mut_done = True
                    rhs = f"-{rhs}" if rhs.startswith("(") or rhs[0].isalpha() else f"-({rhs})"
                lhs = self.access(s.name, s.idx, False)
                out.append(f"{pad}{lhs} {op} {rhs}")
                if self.mut == "extra" and not self.mut_done:
                    self.mut_done = True
                    out.append(f"{pad}{lhs} += 1.0")
                if self.mut == "drop" and not self.mut_done and len(ss) > 1:
                    self.mut_done = True
                    out.pop()
            elif isinstance(s, L.For):
                nm = f"i{len(self.iters)}"
                lo, hi = self.ce(s.lo, True), self.ce(s.hi, True)
                if top and not self.mut_done:
                    if self.mut == "hi+1":
                        self.mut_done = True
                        hi = f"{hi} + 1"
                    elif self.mut == "hi-1":
                        self.mut_done = True
                        hi = f"{hi} - 1" if not hi.isdigit() else str(max(1, int(hi) - 1))
                    elif self.mut == "lo1":
                        self.mut_done = True
                        lo = "1" if lo == "0" else f"{lo} + 1"
                self.iters[s.iter] = nm
                out.append(f"{pad}for {nm} in seq({lo}, {hi}):")
                out += self.stmts(s.body, ind + 1)
            elif isinstance(s, L.If):
                out.append(f"{pad}if {self.ce(s.cond, True)}:")
                out += self.stmts(s.body, ind + 1)
                if s.orelse:
                    out.append(f"{pad}else:")
                    out += self.stmts(s.orelse, ind + 1)
                elif self.mut == "addelse" and not self.mut_done:
                    # near miss: the block has an else branch (a copy of the then branch) where the callee has none
                    # (seeded change C05_1: the unifier skipped the block's else branch in that case)
                    self.mut_done = True
                    out.append(f"{pad}else:")
                    out += self.stmts(s.body, ind + 1)
            elif isinstance(s, L.Pass):
                out.append(f"{pad}pass")
            elif isinstance(s, L.Call):
                args = []
                for fa, a in zip(s.f.args, s.args):
                    args.append(self.ve(a) if fa.type.is_numeric() else self.ce(a, True))
                fn = str(s.f.name)
                if self.mut == "callswap" and not self.mut_done and fn == "inner_cp":
                    # near miss: a call to a different procedure that is also named `inner_cp`
                    self.mut_done = True
                    fn = "inner_cp_alt"
                out.append(f"{pad}{fn}({', '.join(args)})")
            elif isinstance(s, L.Alloc):
                nm = f"t{len(self.local)}"
                self.local[s.name] = nm
                sh = s.type.shape()
                ty = "f32" if not sh else f"f32[{', '.join(self.ce(h, True) for h in sh)}]"
                out.append(f"{pad}{nm}: {ty}")
            else:
                raise Skip(f"stmt {type(s).__name__}")
        return out

    # ---- the caller
    def build(self):
        L, T, rng = self.L, self.T, self.rng
        n_outer = rng.choice([0, 1, 1, 2])
        if self.mut == "iter":
            n_outer = max(n_outer, 1)
        self.outer = [("io", "N"), ("ko", "3")][:n_outer]
        ctrl_vars = [o[0] for o in self.outer]
        # control formals
        for fa in self.f.args:
            t = fa.type
            if isinstance(t, T.Size):
                self.ctrl[fa.name] = rng.choice(["8", "8", "4", "16", "M", "M", "2", "3", "M - 1"])
            elif isinstance(t, (T.Index, T.Int)):
                self.ctrl[fa.name] = rng.choice(ctrl_vars + ["1", "2"] + ([f"{ctrl_vars[0]} + 1"] if ctrl_vars else []))
            elif isinstance(t, T.Bool):
                self.ctrl[fa.name] = rng.choice(([f"{ctrl_vars[0]} < 2"] if ctrl_vars else []) + ["N > 2", "M == 4"])
            elif isinstance(t, T.Stride):
                raise Skip("stride formal")
        # offsets: (text, bound text) with offset < bound
        offs = [("0", "0"), ("0", "0"), ("2", "2"), ("8", "8")]
        if n_outer >= 1:
            offs += [("io", "N"), ("8 * io", "8 * N"), ("io + 1", "N + 1"), ("2 * io", "2 * N")]
        if n_outer >= 2:
            offs += [("ko", "3"), ("io + ko", "N + 3"), ("4 * ko", "12")]
        pts = [("0", "1"), ("1", "2")] + [(o[0], o[1]) for o in self.outer]
        names = iter("ABCDEFGH")
        first_tensor = None
        for fa in self.f.args:
            t = fa.type
            if not t.is_numeric():
                continue
            base = str(t.basetype())
            if base == "R":
                base = "f32"
            mem = ""
            if fa.mem is not None and fa.mem.name() in ("AVX2", "AVX512") and rng.random() < 0.5:
                mem = f" @ {fa.mem.name()}"
            if not isinstance(t, T.Tensor):
                nm = f"s{len(self.scal)}"
                self.scal[fa.name] = nm
                self.args_src.append(f"{nm}: {base}")
                continue
            k = len(t.hi)
            exts = [self.ce(h, True) for h in t.hi]
            nm = next(names)
            if self.mut == "alias" and first_tensor is not None and not self.mut_done and \
                    len([q for q in first_tensor[1] if q[0] == "iv"]) == k and t.is_window:
                # a second formal over the same caller buffer, shifted by one
                self.mut_done = True
                b0, pat0 = first_tensor
                pat = [p if p[0] == "pt" else ("iv", p[1], (p[2] + " + 1") if p[2] != "0" else "1", p[3]) for p in pat0]
                self.tens[fa.name] = (b0, pat)
                continue
            if not t.is_window:
                # a dense tensor formal takes a whole caller buffer of exactly that shape
                pat = [("iv", d, "0", 1) for d in range(k)]
                self.tens[fa.name] = (nm, pat)
                self.args_src.append(f"{nm}: {base}[{', '.join(exts)}]{mem}")
                first_tensor = first_tensor or (nm, pat)
                continue
            extra = rng.choice([0, 0, 1, 1, 2]) if k <= 2 else 0
            order = list(range(k))
            if k >= 2 and rng.random() < 0.5:
                rng.shuffle(order)
            slots = ["iv"] * k + ["pt"] * extra
            rng.shuffle(slots)
            pat, dims, oi = [], [], 0
            for sl in slots:
                if sl == "pt":
                    ptxt, pb = rng.choice(pts)
                    pat.append(("pt", ptxt))
                    dims.append(pb if pb not in ("0",) else "1")
                else:
                    d = order[oi]
                    oi += 1
                    off, ob = rng.choice(offs)
                    sc = 2 if (self.mut == "scale2" and not self.mut_done) else 1
                    if sc == 2:
                        self.mut_done = True
                    pat.append(("iv", d, off, sc))
                    ext = exts[d] if sc == 1 else f"2 * ({exts[d]})"
                    slack = rng.choice(["", "", " + 2"])
                    dims.append(f"{ext} + 2{slack}" if ob == "0" else f"{ob} + {ext} + 2{slack}")
            self.tens[fa.name] = (nm, pat)
            win = rng.random() < 0.3
            shape = ", ".join(dims)
            self.args_src.append(f"{nm}: [{base}][{shape}]{mem}" if win else f"{nm}: {base}[{shape}]{mem}")
            first_tensor = first_tensor or (nm, pat)
        ind = 1 + n_outer
        body = self.stmts(self.f.body, ind, top=True)
        lines = ["@proc", f"def {self.kname}(N: size, M: size, {', '.join(self.args_src)}):"]
        for d, (it, hi) in enumerate(self.outer):
            lines.append("    " * (d + 1) + f"for {it} in seq(0, {hi}):")
        pre = 0
        lines += body
        src = "\n".join(lines)
        return {"src": src, "n_outer": n_outer, "pre": pre, "mut": self.mut if self.mut_done else None}


# --------------------------------------------------------------------------------------------
# recording every DoReplace of the process

class Recorder:
    def __init__(self):
        import exo.API_scheduling as A
        self.A = A
        self.orig = A.DoReplace
        self.records = []
        rec = self

        def wrapped(subproc, block_cursor):
            n = len(subproc.body)
            try:
                stmts = [c._node for c in block_cursor[:n]]
                root = block_cursor.get_root()
                path = list(block_cursor._anchor._path) + [(block_cursor._attr, block_cursor._range.start)]
            except Exception:
                stmts, root, path = None, None, None
            ir, fwd = rec.orig(subproc, block_cursor)
            if stmts is not None and len(stmts) == n:
                rec.records.append({"before": root, "after": ir, "path": path, "stmts": stmts,
                                    "callee": subproc})
            return ir, fwd

        A.DoReplace = wrapped

    def close(self):
        self.A.DoReplace = self.orig


def node_at(root, path):
    node = root
    for attr, idx in path:
        node = getattr(node, attr)[idx]
    return node


def block_at(root, path, n):
    node = root
    for attr, idx in path[:-1]:
        node = getattr(node, attr)[idx]
    attr, idx = path[-1]
    return getattr(node, attr)[idx: idx + n]


# --------------------------------------------------------------------------------------------
# the caller's context at the call site, valuations, obligations

def eval_e(e, env, strides):
    t = e[0]
    if t == "stride":
        k = tuple(e[1])
        if k not in strides or e[2] >= len(strides[k]):
            raise interp.EvalError("unknown stride")
        return strides[k][e[2]]
    if t == "usub":
        return -eval_e(e[1], env, strides)
    if t == "binop":
        a, b = eval_e(e[2], env, strides), eval_e(e[3], env, strides)
        return interp.eval_ctrl(["binop", e[1], ["int", a], ["int", b]], {})
    return interp.eval_ctrl(e, env)


def has_stride(e):
    if not isinstance(e, list):
        return False
    if e and e[0] == "stride":
        return True
    return any(has_stride(x) for x in e)


def site_context(exo, root, path):
    """control arguments, tensor arguments, assertions, enclosing loops / conditions, allocations
    in scope at `path` of LoopIR procedure `root` (all as export_ir JSON)"""
    from exo.core.LoopIR import LoopIR, T
    cx = {"ctrl": [], "tens": [], "preds": [export_ir.exp_expr(p) for p in root.preds],
          "frames": [], "decl": []}
    for a in root.args:
        ty = export_ir.exp_argty(a.type)
        if ty[0] == "ctrl":
            cx["ctrl"].append((export_ir.sym(a.name), ty[1]))
        elif ty[0] == "tensor":
            cx["tens"].append((export_ir.sym(a.name), ty[1], ty[2]))
            cx["decl"].append([export_ir.sym(a.name), ty[1]])
        else:
            cx["decl"].append([export_ir.sym(a.name), []])
    node = root
    for d, (attr, idx) in enumerate(path):
        cont = getattr(node, attr)
        for s in cont[:idx]:
            if isinstance(s, LoopIR.Alloc):
                sh = [export_ir.exp_expr(h) for h in s.type.shape()]
                cx["decl"].append([export_ir.sym(s.name), sh])
                cx["frames"].append(("alloc", export_ir.sym(s.name), sh))
        node = cont[idx]
        if d + 1 < len(path):
            if isinstance(node, LoopIR.For):
                cx["frames"].append(("for", export_ir.sym(node.iter), export_ir.exp_expr(node.lo),
                                     export_ir.exp_expr(node.hi)))
            elif isinstance(node, LoopIR.If):
                cx["frames"].append(("if", export_ir.exp_expr(node.cond), path[d + 1][0] == "body"))
    return cx


def dense(shape):
    st, acc = [], 1
    for d in reversed(shape):
        st.insert(0, acc)
        acc *= d
    return st


def frames_valuations(frames, env, strides, cap=6):
    """all valuations of the enclosing loop variables (at most `cap` values per loop: both ends and
    the middle) under which the enclosing conditions hold"""
    if not frames:
        yield env, strides
        return
    fr, rest = frames[0], frames[1:]
    try:
        if fr[0] == "for":
            lo, hi = eval_e(fr[2], env, strides), eval_e(fr[3], env, strides)
            vals = list(range(lo, hi))
            if len(vals) > cap:
                vals = sorted(set(vals[:2] + [vals[len(vals) // 2]] + vals[-2:]))
            for v in vals:
                e2 = dict(env)
                e2[tuple(fr[1])] = v
                yield from frames_valuations(rest, e2, strides, cap)
        elif fr[0] == "if":
            if bool(eval_e(fr[1], env, strides)) == fr[2]:
                yield from frames_valuations(rest, env, strides, cap)
        else:  # alloc: dense strides
            sh = [eval_e(h, env, strides) for h in fr[2]]
            s2 = dict(strides)
            s2[tuple(fr[1])] = dense(sh)
            yield from frames_valuations(rest, env, s2, cap)
    except interp.EvalError:
        return


def box_valuations(cx, rng, limit):
    doms = []
    for s, k in cx["ctrl"]:
        if k == "size":
            doms.append([1, 2, 3, 4, 5, 8, 9])
        elif k == "bool":
            doms.append([0, 1])
        else:
            doms.append([-1, 0, 1, 2, 5])
    wins = [t for t in cx["tens"] if t[2]]
    modes = list(itertools.product([1, 2], repeat=min(len(wins), 3))) or [()]
    combos = list(itertools.product(*doms)) if doms else [()]
    rng.shuffle(combos)
    n = 0
    for combo in combos:
        env = {tuple(s): v for (s, _), v in zip(cx["ctrl"], combo)}
        for mode in modes:
            strides = {}
            ok = True
            for j, (s, sh, isw) in enumerate(cx["tens"]):
                try:
                    shape = [eval_e(h, env, {}) for h in sh]
                except interp.EvalError:
                    ok = False
                    break
                if any(d < 1 for d in shape):
                    ok = False
                    break
                st = dense(shape)
                if isw and s in [w[0] for w in wins[:3]]:
                    st = [x * mode[[w[0] for w in wins[:3]].index(s)] for x in st]
                strides[tuple(s)] = st
            if not ok:
                continue
            try:
                if not all(eval_e(p, env, strides) for p in cx["preds"]):
                    continue
            except interp.EvalError:
                continue
            for e2, s2 in frames_valuations(cx["frames"], env, strides):
                yield e2, s2
                n += 1
                if n >= limit:
                    return


def input_valuations(cx, pj, inp):
    """the valuations reached when the procedure runs on interpreter input `inp`"""
    env, strides = {}, {}
    for (s, ty), a in zip(pj["args"], inp["args"]):
        if "c" in a:
            env[tuple(s)] = a["c"]
        else:
            strides[tuple(s)] = [d[1] for d in a["v"]["dims"]]
    yield from frames_valuations(cx["frames"], env, strides, cap=40)


KIND_KEY = {
    "size": "replace:size-argument-positivity-not-checked",
    "shape": "replace:window-extent-differs-from-declared-shape",
    "bounds": "replace:inferred-window-exceeds-caller-buffer",
    "pred": "replace:callee-assertion-not-checked",
    "stride": "replace:stride-assertion-not-checked",
}


def falsified(ans, valuations):
    """{kind: (obligation, valuation)} for obligations some valuation makes false"""
    bad = {}
    groups = [("size", o) for o in ans["size"]] + [("bounds", o) for o in ans["bounds"]] + \
             [("shape", o) for o in ans["shape"]] + \
             [("stride" if has_stride(o) else "pred", o) for o in ans["preds"]]
    n = 0
    for env, strides in valuations:
        n += 1
        for kind, o in groups:
            if kind in bad:
                continue
            try:
                v = eval_e(o, env, strides)
            except interp.EvalError:
                continue
            if not v:
                bad[kind] = (o, {f"{k[0]}_{k[1]}": v for k, v in env.items()},
                             {f"{k[0]}_{k[1]}": v for k, v in strides.items()})
    return bad, n


# --------------------------------------------------------------------------------------------
# comparison of the model of DoInline with the real one, up to the names of bound symbols

def alpha_eq(a, b, m):
    """a: model JSON, b: real JSON; m maps bound symbols of b to those of a"""
    if isinstance(a, list) and isinstance(b, list):
        if len(a) == 2 and isinstance(a[0], str) and isinstance(a[1], int) and \
                len(b) == 2 and isinstance(b[0], str) and isinstance(b[1], int) and not isinstance(a[1], bool):
            return m.get(tuple(b), tuple(b)) == tuple(a)
        if a and b and a[0] == b[0] and a[0] in ("for", "alloc", "window") and isinstance(a[1], list):
            if a[0] == "for":
                if not (alpha_eq(a[2], b[2], m) and alpha_eq(a[3], b[3], m)):
                    return False
                m2 = dict(m)
                m2[tuple(b[1])] = tuple(a[1])
                return alpha_stmts(a[4], b[4], m2)
            # alloc / window bind for the rest of the block: handled by alpha_stmts
        if len(a) != len(b):
            return False
        return all(alpha_eq(x, y, m) for x, y in zip(a, b))
    return a == b


def alpha_stmts(sa, sb, m):
    if len(sa) != len(sb):
        return False
    m = dict(m)
    for x, y in zip(sa, sb):
        if x[0] != y[0]:
            return False
        if x[0] in ("alloc", "window"):
            if not alpha_eq(x[2], y[2], m):
                return False
            m[tuple(y[1])] = tuple(x[1])
        elif not alpha_eq(x, y, m):
            return False
    return True


# --------------------------------------------------------------------------------------------

def fmt_exc(e):
    return type(e).__name__


class Checker:
    def __init__(self, ctx, exo):
        self.ctx = ctx
        self.exo = exo
        self.drv = LeanDriver("Drivers/C05.lean")
        self.itp = interp.Interp()
        self.rec = Recorder()

    def close(self):
        self.rec.close()
        self.drv.close()
        self.itp.close()

    # one recorded DoReplace
    def check_record(self, r, info):
        ctx = self.ctx
        from exo.core.LoopIR import LoopIR
        import exo.rewrite.LoopIR_scheduling as S
        from exo.core.internal_cursors import Cursor
        n = len(r["stmts"])
        call = node_at(r["after"], r["path"])
        if not isinstance(call, LoopIR.Call):
            ctx.violation("replace:no-call-at-block-position", "replace did not leave a call where the block was",
                          dict(info, path=r["path"]))
            return
        callee_name = str(call.f.name)
        try:
            blk_j = export_ir.exp_stmts(r["stmts"])
            callee_j = export_ir.exp_proc(call.f)
            args_j = [export_ir.exp_expr(a) for a in call.args]
            cx = site_context(self.exo, r["before"], r["path"])
            pj_b, cfg_b = export_ir.export(r["before"])
            pj_a, cfg_a = export_ir.export(r["after"])
        except export_ir.ExportError as e:
            ctx.count("export-error")
            return
        req = {"blk": blk_j, "callee": callee_j, "args": args_j, "decl": cx["decl"]}
        ans = json.loads(self.drv.ask(json.dumps(req, separators=(",", ":"))))
        if "bad" in ans:
            raise InfraError(f"C05 driver: {ans['bad']}")
        key = (callee_name, json.dumps(blk_j, sort_keys=True), json.dumps(args_j, sort_keys=True))
        ctx.evaluated(hashlib.md5(json.dumps(key).encode()).hexdigest()[:12], nontrivial=True)
        ctx.count("replace-accepted")
        ctx.count(f"accepted:{callee_name}")
        if info.get("mut"):
            ctx.count(f"accepted-mutated:{info['mut']}")
        args_txt = ", ".join(str(a) for a in call.args)
        replay = dict(info, callee=callee_name, call=f"{callee_name}({args_txt})", path=[list(p) for p in r["path"]],
                      block=[str(s) for s in r["stmts"]])
        ctx.sample({"callee": callee_name, "call": replay["call"], "block": replay["block"],
                    "check": ans["check"], "mut": info.get("mut")}, limit=8)

        # --- search: differential execution before / after (callee run from its body, monitors on)
        cfgs = dict(cfg_b)
        cfgs.update(cfg_a)
        n_in = ctx.scale(3, 6)
        inputs, res_b = self.itp.gen_inputs(pj_b, cfgs, ctx.rng, n_in, tries=6)
        res_a = self.itp.run(pj_a, inputs) if inputs else []
        ctx.count("differential-inputs", len(inputs))
        found_input = False
        found_unexplained = False
        agree = []
        for inp, rb, ra in zip(inputs, res_b, res_a):
            why = interp.compare(rb, ra)
            if why is None:
                agree.append((inp, rb))
                continue
            found_input = True
            err = ra.get("err")
            if os.environ.get("C05_DEBUG") and info.get("mut"):
                print("C05DEBUG", info.get("mut"), replay["call"], "|", replay["block"], "| why:", why, "| err:", err, file=sys.stderr)
            k2 = None
            if err in ("assertFail", "nonPosSize", "oob"):
                bad, _ = falsified(ans, input_valuations(cx, pj_b, inp))
                want = {"assertFail": ("pred", "stride"), "nonPosSize": ("size",), "oob": ("bounds",)}[err]
                kinds = [k for k in bad if k in want]
                if kinds:
                    for k in kinds:
                        ctx.violation(KIND_KEY[k], f"{replay['call']}: the call trips {err} where the block runs ({k} "
                                      f"obligation {bad[k][0]} false)", dict(replay, input=inp, why=why))
                    continue
                k2 = f"replace:call-trips-{err}-unexplained"
                found_unexplained = True
            elif err:
                k2 = f"replace:call-trips-{err}"
            else:
                k2 = "replace:result-differs"
            found_unexplained = True
            ctx.violation(k2, f"{replay['call']} in place of {replay['block']}: {why}",
                          dict(replay, input=inp, why=why, validator=ans["check"], diff=ans["diff"]))

        # --- the certificate
        if info.get("mut"):
            ctx.count(f"validator-{'accepted' if ans['check'] else 'rejected'}-mutated:{info['mut']}")
        if not ans["check"]:
            ctx.count("validator-rejected")
            # a failing input that is fully explained by a recorded finding (callee assertion not established) says
            # nothing about WHY the validator rejects: the certificate rejection is reported on its own
            if not found_unexplained:
                ctx.violation("replace:certificate-rejected:" + (ans["diff"] or "?").split(":")[-1].strip()[:40],
                              f"checkReplace rejects {replay['call']} for {replay['block']}: {ans['diff']}",
                              dict(replay, diff=ans["diff"]), no_input=True)
            return
        ctx.count("validator-accepted")

        # --- instantiated obligations on the box
        bad, nv = falsified(ans, box_valuations(cx, ctx.rng, ctx.scale(150, 600)))
        ctx.count("obligation-valuations", nv)
        for k, (o, env, strides) in bad.items():
            ctx.count(f"obligation-falsifiable:{k}")
            ctx.violation(KIND_KEY[k], f"{replay['call']}: instantiated {k} obligation {o} is false for {env}"
                          + (f" strides {strides}" if k == "stride" else ""),
                          dict(replay, obligation=o, valuation=env, strides=strides))

        # --- the model of DoInline against the real DoInline on the new call
        try:
            cur = Cursor.create(r["after"])
            for attr, idx in r["path"]:
                cur = cur._child_node(attr, idx)
            ir3, _ = S.DoInline(cur)
        except Exception as e:
            ctx.count(f"real-inline-raises:{fmt_exc(e)}")
            return
        if ans["inline"] is None:
            ctx.count("model-inline-unsupported")
            return
        k = len(ans["inline"])
        try:
            real_j = export_ir.exp_stmts(block_at(ir3, r["path"], k))
        except export_ir.ExportError:
            return
        ctx.count("inline-compared")
        if not alpha_stmts(ans["inline"], real_j, {}):
            ctx.violation("inline:model-differs-from-DoInline",
                          f"model of DoInline and real DoInline differ on {replay['call']}",
                          dict(replay, model=ans["inline"], real=real_j), no_input=True)
        if not ans["inlineWf"]:
            ctx.violation("inline:wf-hypothesis-false",
                          f"hypothesis inlineWf of inline_correct_partial is false on {replay['call']}",
                          replay, no_input=True)
        # inlining the call gives back an equivalent program
        try:
            pj_c, _ = export_ir.export(ir3)
        except export_ir.ExportError:
            return
        agree = agree[:2]
        res_c = self.itp.run(pj_c, [a[0] for a in agree]) if agree else []
        ctx.count("inline-differential-inputs", len(res_c))
        for (inp, rb), rc in zip(agree, res_c):
            why = interp.compare(rb, rc)
            if why is not None:
                ctx.violation("inline:after-replace-not-equivalent",
                              f"inlining {replay['call']} again does not give back the block: {why}",
                              dict(replay, input=inp, why=why))


def candidates(exo):
    from exo import Procedure
    from exo.platforms import x86
    cands = {}
    for k, v in sorted(vars(x86).items()):
        if isinstance(v, Procedure):
            cands["x86." + k] = v
    mod = exo_build.build_module(SUBSRC)
    for k, v in sorted(exo_build.procs_of(mod).items()):
        cands["sub." + k] = v
    global KERNEL_HEADER
    KERNEL_HEADER = exo_build.HEADER + f"from {mod.__name__} import *\n"
    return cands


KERNEL_HEADER = exo_build.HEADER


def run_case(chk, ctx, exo, cands, cname, mut, idx, replay_src=None):
    import exo.stdlib.scheduling as SS
    import exo.API_scheduling as A
    rng = ctx.rng
    callee = cands[cname]
    kname = f"kern{idx}"
    if replay_src is None:
        try:
            k = KGen(exo, callee._loopir_proc, rng, mut, kname).build()
        except Skip as e:
            ctx.count("kernel-skipped")
            return
    else:
        k = replay_src
    try:
        mod = exo_build.build_module(k["src"], KERNEL_HEADER)
        p = exo_build.procs_of(mod)[kname]
    except BaseException as e:
        if isinstance(e, (KeyboardInterrupt, SystemExit, MemoryError)):
            raise
        ctx.count(f"kernel-rejected:{fmt_exc(e)}")
        return
    ctx.count("kernels")
    if k["mut"]:
        ctx.count(f"kernel-mutation:{k['mut']}")
    nbody = len(callee._loopir_proc.body)

    def block_of(p):
        blk = p.body()
        for _ in range(k["n_outer"]):
            blk = blk[0].body()
        c = blk[k["pre"]]
        return c.as_block() if nbody == 1 else c.expand(0, nbody - 1)

    others = [c for c in cands if c != cname]
    tries = [("replace", cname)]
    for c in rng.sample(others, ctx.scale(1, 2)):
        tries.append(("replace", c))
    tries.append((rng.choice(["replace_all", "replace_all_mem", "mem_aware"]), cname))
    for op, cn in tries:
        chk.rec.records.clear()
        info = {"kernel": k["src"], "kname": kname, "op": op, "candidate": cn, "mut": k["mut"],
                "n_outer": k["n_outer"], "pre": k["pre"]}
        try:
            if op == "replace":
                A.replace(p, block_of(p), cands[cn], quiet=True)
            elif op == "mem_aware":
                SS.call_site_mem_aware_replace(p, block_of(p), cands[cn], quiet=True)
            else:
                SS.replace_all(p, [cands[cn]], mem_aware=(op == "replace_all_mem"))
            ctx.count(f"{op}:returned")
        except BaseException as e:
            if isinstance(e, (KeyboardInterrupt, SystemExit, MemoryError)):
                raise
            ctx.count(f"{op}:rejected:{fmt_exc(e)}")
            if k["mut"] and cn == cname:
                ctx.count(f"near-miss-rejected:{k['mut']}")
        ctx.evaluated(None, nontrivial=False)
        for r in list(chk.rec.records):
            try:
                chk.check_record(r, info)
            except InfraError:
                raise
            except Exception as e:
                raise InfraError("check_record crashed: " + traceback.format_exc()[-1500:])


def applicable(exo, ir):
    """mutations that change something in a kernel printed from this callee"""
    from exo.core.LoopIR import LoopIR, T
    has = {"const": False, "lt": False, "binop": False, "multi": False, "read": False, "for": False, "if_noelse": False, "cfgread": False, "call_inner_cp": False}

    def ex(e, data):
        if isinstance(e, LoopIR.Const) and data:
            has["const"] = True
        if isinstance(e, LoopIR.BinOp):
            if data:
                has["binop"] = True
            elif e.op == "<":
                has["lt"] = True
            ex(e.lhs, data)
            ex(e.rhs, data)
        if isinstance(e, LoopIR.USub):
            ex(e.arg, data)
        if isinstance(e, LoopIR.Read) and data:
            has["read"] = True
        if isinstance(e, LoopIR.ReadConfig) and data and e.config.name() in ("CfgLd", "CfgSt"):
            has["cfgread"] = True
        if isinstance(e, LoopIR.Extern):
            for a in e.args:
                ex(a, data)

    def st(ss):
        if len(ss) > 1:
            has["multi"] = True
        for s in ss:
            if isinstance(s, (LoopIR.Assign, LoopIR.Reduce)):
                ex(s.rhs, True)
            elif isinstance(s, LoopIR.Call):
                if str(s.f.name) == "inner_cp":
                    has["call_inner_cp"] = True
            elif isinstance(s, LoopIR.For):
                has["for"] = True
                st(s.body)
            elif isinstance(s, LoopIR.If):
                ex(s.cond, False)
                if not s.orelse:
                    has["if_noelse"] = True
                st(s.body)
                st(s.orelse)

    st(ir.body)
    ranks = [len(a.type.hi) for a in ir.args if isinstance(a.type, T.Tensor) and a.type.is_window]
    out = ["swapkind", "extra", "negate", "iter"]
    if has["for"]:
        out += ["hi+1", "hi-1", "lo1"]
    if ranks:
        out += ["scale2"]
    if has["read"]:
        out += ["off1"]
    if has["const"]:
        out += ["const"]
    if has["lt"]:
        out += ["leq"]
    if has["binop"]:
        out += ["swapops", "op"]
    if has["multi"]:
        out += ["drop"]
    if has["if_noelse"]:
        out += ["addelse"]
    if has["cfgread"]:
        out += ["cfgswap"]
    if has["call_inner_cp"]:
        out += ["callswap"]
    if len(ranks) >= 2 and len(set(ranks)) < len(ranks):
        out += ["alias"]
    return out


def first_data_op(ir):
    """operator of the first binary operation on data the printer meets (what mutation `op` changes)"""
    from exo.core.LoopIR import LoopIR
    found = []

    def ex(e):
        if isinstance(e, LoopIR.BinOp):
            ex(e.lhs)
            ex(e.rhs)
            found.append(e.op)
        elif isinstance(e, LoopIR.USub):
            ex(e.arg)
        elif isinstance(e, LoopIR.Extern):
            for a in e.args:
                ex(a)

    def st(ss):
        for s in ss:
            if isinstance(s, (LoopIR.Assign, LoopIR.Reduce)):
                ex(s.rhs)
            elif isinstance(s, LoopIR.For):
                st(s.body)
            elif isinstance(s, LoopIR.If):
                st(s.body)
                st(s.orelse)

    st(ir.body)
    return found[0] if found else None


def make_jobs(ctx, exo, cands, names):
    """one plain instance per candidate, and every mutation kind on `k` candidates it applies to"""
    rng = ctx.rng
    app = {c: applicable(exo, cands[c]._loopir_proc) for c in names}
    jobs = [(c, None) for c in names] * ctx.scale(1, 3)
    # formals of rank 2 are where dimensions can be permuted: more plain instances of those
    from exo.core.LoopIR import T
    rank2 = [c for c in names if any(isinstance(a.type, T.Tensor) and len(a.type.hi) >= 2
                                     for a in cands[c]._loopir_proc.args)]
    jobs += [(c, None) for c in rank2] * ctx.scale(2, 4)
    k = ctx.scale(2, 8)
    for m in MUTS:
        pool = [c for c in names if m in app[c]]
        rng.shuffle(pool)
        if m == "op":
            # one candidate per operator, so that `+`/`-` and `*`/`/` confusions are both tried
            seen, pick = set(), []
            for c in pool:
                o = first_data_op(cands[c]._loopir_proc)
                if o not in seen:
                    seen.add(o)
                    pick.append(c)
            pool = pick + [c for c in pool if c not in pick]
            jobs += [(c, m) for c in pool[:max(k, len(pick))]]
            continue
        jobs += [(c, m) for c in pool[:k]]
    # near misses and plain instances alternate, so that a short run still sees every kind
    plain = [j for j in jobs if j[1] is None]
    muts = [j for j in jobs if j[1] is not None]
    rng.shuffle(plain)
    rng.shuffle(muts)
    out = []
    while plain or muts:
        if muts:
            out.append(muts.pop())
        if plain:
            out.append(plain.pop())
    return out


# F13 of DESIGN.md, verbatim
F13_SRC = '''
@proc
def f13(n: size, a: f32[4, n], b: f32[4]):
    for j in seq(0, n):
        for i in seq(0, 4):
            a[i, j] = b[i]
'''


def run(ctx):
    from common import import_exo
    exo = import_exo()
    ctx.rule = ("a case = (candidate callee: every instruction of exo.platforms.x86 and 20 generated sub-procedures "
                "with window / size / index / bool arguments, assertions and nested calls; a kernel printed from the callee's own "
                "body over caller buffers with random offsets, extra point dimensions, permuted dimensions, window-typed "
                "or dense caller buffers, 0-2 enclosing loops; optionally one mutation making it a near miss) x "
                "(replace with the candidate and two other candidates, replace_all / call_site_mem_aware_replace); "
                "every DoReplace that succeeds is one evaluation, distinct by (callee, block, inferred arguments)")
    ctx.assumptions += [
        "callee bodies stay inside their declared windows (hypothesis hoob of replace_sound; the front end's bounds "
        "check, property C03) — a violation would show up in the differential search as a newly tripped oob monitor",
        "the exporter (harness/export_ir.py) and Wire reader transmit block, callee and arguments faithfully",
        "obligations are evaluated on a box of small values (sizes 1..9, indices -1..5, dense or doubled strides for "
        "window arguments), not proved for all values",
    ]
    ctx.trusted += [
        "the unifier itself (LoopIR_unification.Unification, BufVar, UEq.solve) is not modelled: its results are "
        "validated per instance by the verified checkReplace",
        "Check_Aliasing (checked through the alias monitor of the reference interpreter only)",
    ]
    broken = ctx.lean_obligations(["ExoModel.Props.C05"])
    ctx.extra["t_obligations_s"] = round(ctx.elapsed(), 1)
    for b in broken:
        ctx.violation("obligation:" + b, f"proof obligation broken: {b}", {"obligation": b}, no_input=True)

    cands = candidates(exo)
    chk = Checker(ctx, exo)
    try:
        if ctx.replay:
            rp = json.loads(open(ctx.replay).read())["replay"]
            run_case(chk, ctx, exo, cands, rp["candidate"], rp.get("mut"), 0,
                     replay_src={"src": rp["kernel"].replace(rp["kname"], "kern0"), "mut": rp.get("mut"),
                                 "n_outer": rp["n_outer"], "pre": rp["pre"]})
            return
        # F13 first
        mod = exo_build.build_module(F13_SRC)
        p = exo_build.procs_of(mod)["f13"]
        import exo.API_scheduling as A
        chk.rec.records.clear()
        try:
            A.replace(p, p.find("for i in _:_").as_block(), cands["sub.cp8"], quiet=True)
        except Exception as e:
            ctx.count(f"f13:rejected:{fmt_exc(e)}")
        for r in list(chk.rec.records):
            chk.check_record(r, {"kernel": F13_SRC, "kname": "f13", "op": "replace", "candidate": "sub.cp8",
                                 "mut": None, "n_outer": 1, "pre": 0})
        names = sorted(cands)
        if ctx.quick:
            x86n = [n for n in names if n.startswith("x86.")]
            subn = [n for n in names if n.startswith("sub.")]
            ctx.rng.shuffle(x86n)
            names = x86n[:22] + subn
        t0 = ctx.elapsed()
        budget = ctx.scale(110, 780)
        jobs = make_jobs(ctx, exo, cands, names)
        ctx.extra["jobs"] = len(jobs)
        for idx, (cname, mut) in enumerate(jobs, 1):
            if ctx.elapsed() - t0 > budget:
                ctx.count("stopped-on-time-budget")
                ctx.extra["jobs_done"] = idx - 1
                break
            run_case(chk, ctx, exo, cands, cname, mut, idx)
    finally:
        chk.close()
