"""C07 — scheduling is pure: existing procedures never change (DESIGN.md section 3, C07; docs/C07.md).

  P  ExoModel/Props/C07.lean: soundness of the freshness analysis of the mini heap language
     (ExoModel/PyHeap.lean) for all programs / heaps / runs, and the per-run obligation
     `AllMutationsFresh Gen.PyMut.functions` on the table that harness/translate/pymut.py regenerates
     from the seven anchored source files on EVERY run.
  T  (gen) the translator; (corr) `Op.apply` against real Python lists; the function-level monitor of
     harness/obs_pure.py: every real activation of an analysed function leaves its list / dict / set
     arguments and the list fields of its node arguments as they were.
  X  the schedule stream with harness/obs_pure.py: deep snapshot + str + (sampled) c_code_str of every
     live Procedure and a set of cursors, before/after every attempt (accepted or rejected) and
     before/after queries; plus direct probes of caller-owned argument lists.
"""
from __future__ import annotations

import json
import multiprocessing as mp
import os
import random
import sys
from pathlib import Path

from common import import_exo, lean_batch, InfraError, LEAN, REPO, ROOT

sys.path.insert(0, str(ROOT / "harness" / "translate"))
sys.path.insert(0, str(ROOT / "harness"))

# extra programs for the mechanisms C07 anchors: dimension rewrites of buffers with >= 2 dimensions,
# windows of allocations (DoInlineWindow.calc_idx), constant dimensions (unroll_buffer / fold)
EXTRA = {
    "c07_dims3": '''
@proc
def c07_dims3(n: size, x: f32[n, 4, 2], y: f32[n, 4, 2]):
    t: f32[n, 4, 2]
    for i in seq(0, n):
        for j in seq(0, 4):
            for k in seq(0, 2):
                t[i, j, k] = x[i, j, k] + 1.0
    for i in seq(0, n):
        for j in seq(0, 4):
            for k in seq(0, 2):
                y[i, j, k] = t[i, j, k] * t[i, 3 - j, 1 - k]
''',
    "c07_win_alloc": '''
@proc
def c07_win_alloc(y: f32[8], z: f32[4]):
    t: f32[4, 8]
    for i in seq(0, 4):
        for j in seq(0, 8):
            t[i, j] = 1.0
    w = t[1, 0:8]
    for j in seq(0, 8):
        y[j] = w[j] + t[2, j]
    v = t[0:4, 3]
    for i in seq(0, 4):
        z[i] = v[i]
''',
    "c07_const_dims": '''
@proc
def c07_helper(m: size, a: [f32][m], b: [f32][m]):
    for i in seq(0, m):
        b[i] = a[i]

@proc
def c07_const_dims(x: f32[2, 8], y: f32[2, 8]):
    t: f32[2, 8]
    for i in seq(0, 2):
        for j in seq(0, 8):
            t[i, j] = x[i, j]
    for i in seq(0, 2):
        c07_helper(8, t[i, 0:8], y[i, 0:8])
''',
    "c07_fold": '''
@proc
def c07_fold(n: size, x: f32[n + 2], y: f32[n]):
    t: f32[n + 2]
    for i in seq(0, n):
        t[i] = x[i]
        t[i + 1] = x[i + 1]
        y[i] = t[i] + t[i + 1]
''',
}

KEY_FINDING_PROBES = {}


# ------------------------------------------------------------------------------------ driver encoding
def enc_var(v):
    return f"{v[0]} {v[1]}"


def enc_rhs(r):
    if r[0] == "alias":
        return "a " + enc_var(r[1])
    return {"fresh": "f", "nodeField": "n", "param": "p", "global": "g", "unknown": "u"}[r[0]]


def enc_stmt(s):
    if s[0] == "bind":
        return f"b {s[1]} {enc_var(s[2])} {enc_rhs(s[3])}"
    return f"m {s[1]} {s[2]} {enc_var(s[3])}"


def tokname(s):
    return "".join(c if not c.isspace() and c != "|" else "_" for c in s) or "_"


def enc_group(g):
    weak = [k for k, _ in sorted(g.weak.items(), key=lambda kv: kv[1])]
    funcs = [f for f in g.funcs if f.items]
    out = [tokname(g.name), tokname(g.file), str(len(weak))] + [tokname(w) for w in weak] + [str(len(funcs))]
    for f in funcs:
        strong = [k for k, _ in sorted(f.strong.items(), key=lambda kv: kv[1])]
        out += [tokname(f.name), str(f.line), str(len(strong))] + [tokname(x) for x in strong] + [str(len(f.items))]
        for it in f.items:
            if it[0] == "top":
                out.append("T " + enc_stmt(it[1]))
            else:
                out.append(f"S {len(it[1])} " + " ".join(enc_stmt(s) for s in it[1]))
    return "check|" + " ".join(out)


def driver_failures(tr, pymut):
    groups = [g for g in tr.groups if pymut.relevant(g)]
    lines = [enc_group(g) for g in groups]
    ans = lean_batch(LEAN / "Drivers" / "C07.lean", lines)
    fails = []
    nok = 0
    for g, a in zip(groups, ans):
        if a.startswith("error"):
            raise InfraError(f"C07 driver: {a} on group {g.file}::{g.name}")
        head, _, rest = a.partition("|")
        ok = head == "ok=true"
        nok += ok
        fl = [x.split() for x in rest.split(" ; ") if x.strip()]
        if ok != (not fl):
            raise InfraError(f"C07 driver: bit-mask analysis and report disagree on {g.file}::{g.name}: {a[:300]}")
        for x in fl:
            fails.append({"group": g.name, "file": g.file, "func": x[0], "line": int(x[1]), "what": x[2].replace("_", " ", 1),
                          "var": x[3], "origin": x[4]})
    return fails, nok, len(groups)


# ------------------------------------------------------------------------------------ Op.apply vs Python lists
def py_apply(cells, op):
    xs = list(cells)
    k = op[0]
    try:
        if k == "setitem":
            xs[op[1]] = op[2]
        elif k == "delitem":
            del xs[op[1]]
        elif k == "append":
            xs.append(op[1])
        elif k == "extend":
            xs.extend(op[1:])
        elif k == "insert":
            xs.insert(op[1], op[2])
        elif k == "pop":
            xs.pop(op[1])
        elif k == "remove":
            xs.remove(op[1])
        elif k == "sort":
            xs.sort()
        elif k == "reverse":
            xs.reverse()
        elif k == "iadd":
            xs += list(op[1:])
        elif k == "clear":
            xs.clear()
        return xs
    except (IndexError, ValueError):
        return None


def ops_correspondence(ctx, n):
    rng = ctx.rng
    lines, expect = [], []
    for _ in range(n):
        cells = [rng.randint(-3, 5) for _ in range(rng.randint(0, 5))]
        ops, exp = [], []
        cur = list(cells)
        for _ in range(rng.randint(1, 6)):
            k = rng.choice(["setitem", "delitem", "append", "extend", "insert", "pop", "remove", "sort", "reverse", "iadd", "clear"])
            i = rng.randint(-7, 7)
            v = rng.randint(-3, 5)
            if k in ("setitem", "insert"):
                op = (k, i, v)
            elif k in ("delitem", "pop"):
                op = (k, i)
            elif k in ("append", "remove"):
                op = (k, v)
            elif k in ("extend", "iadd"):
                op = (k,) + tuple(rng.randint(-3, 5) for _ in range(rng.randint(0, 3)))
            else:
                op = (k,)
            r = py_apply(cur, op)
            ops.append(" ".join(str(x) for x in op))
            if r is None:
                exp.append("R")
            else:
                cur = r
                exp.append(" ".join(str(x) for x in cur))
        lines.append("ops|" + " ".join(str(c) for c in cells) + "|" + " ; ".join(ops))
        expect.append(exp)
    ans = lean_batch(LEAN / "Drivers" / "C07.lean", lines)
    for ln, a, e in zip(lines, ans, expect):
        got = [x.strip() for x in a.split(";")]
        ctx.evaluated(ln, nontrivial=True)
        ctx.count("ops-correspondence")
        if got != e:
            ctx.violation("model:Op.apply-differs-from-python-list", f"{ln}: model {got} python {e}",
                          {"request": ln, "model": got, "python": e}, no_input=True)


# ------------------------------------------------------------------------------------ probes
def probe_caller_list(exo):
    """a list of cursors owned by the caller, passed to an operation, must still hold the same cursors"""
    import exo_build
    out = []
    src = '''
@proc
def c07_probe(n: size, x: f32[n], y: f32[n]):
    for i in seq(0, n):
        y[i] = x[i] * 2.0 + x[i] * 3.0
'''
    mod = exo_build.build_module(src)
    p = exo_build.procs_of(mod)["c07_probe"]
    import exo.stdlib.scheduling as S
    p2 = S.divide_loop(p, "i", 4, ["io", "ii"], tail="cut")
    for opname, call in [("commute_expr", lambda q, cs: S.commute_expr(q, cs)),
                         ("bind_expr", lambda q, cs: S.bind_expr(q, cs, "t"))]:
        for target, tn in [(p, "same-proc"), (p2, "derived-proc")]:
            cs = [p.find("x[i] * 2.0")]
            before = list(cs)
            try:
                call(target, cs)
                outcome = "accepted"
            except BaseException as e:
                outcome = type(e).__name__
            changed = len(cs) != len(before) or any(a is not b for a, b in zip(cs, before))
            out.append({"op": opname, "on": tn, "outcome": outcome, "changed": changed, "src": src,
                        "steps": f"cs=[p.find('x[i] * 2.0')]; p2=divide_loop(p,'i',4,['io','ii'],tail='cut'); {opname}({'p' if target is p else 'p2'}, cs); cs[0] is no longer the cursor that was put in"})
    return out


# ------------------------------------------------------------------------------------ stream
def run_stream(ctx, monitor):
    import pool
    import sched_run

    names = None
    if ctx.quick:
        # quick tier: the programs with buffers / windows / calls (where the anchored rewrites apply) plus a
        # seed-dependent sample of the rest
        must = {"buffer_dims", "two_allocs", "stage_candidate"}
        allk = sorted(pool.POOL)
        r = random.Random(f"C07:pool:{ctx.seed}")
        rest = [k for k in allk if k not in must]
        r.shuffle(rest)
        names = set(k for k in allk if k in must) | set(rest[:ctx.scale(14, 30)])
    cap = os.environ.get("VERIF_C07_PROGRAMS")      # debugging knob: run on at most N pool programs
    if cap:
        allk = sorted(names if names is not None else pool.POOL)
        random.Random(f"C07:cap:{ctx.seed}").shuffle(allk)
        names = set(allk[:int(cap)])
    opts = {"depth": ctx.scale(1, 2), "depth2_attempts": 30, "depth2_procs": 5,
            "pure_sample": ctx.scale(3, 5), "pure_ccode": ctx.scale(2, 5), "pure_query_every": ctx.scale(60, 40),
            "pure_monitor_every": ctx.scale(5, 4), "pure_cursors": 16, "pure_ccode_queries": 1,
            "pure_monitor": monitor, "pure_caches": monitor.get("caches", [])}
    jobs = []
    rng = random.Random(f"stream:{ctx.seed}")
    items = [(k, v) for k, v in sorted(pool.POOL.items()) if names is None or k in names]
    for (k, src) in items:
        for vi, s in enumerate(sched_run.variants(src, rng, 1)):
            jobs.append((k if vi == 0 else f"{k}~{vi}", s, ctx.seed, ["obs_pure"], opts))
    for k, src in sorted(EXTRA.items()):
        jobs.append((k, src, ctx.seed, ["obs_pure"], opts))
    nproc = min(16, os.cpu_count() or 4)
    with mp.get_context("spawn").Pool(nproc) as pl:
        res = pl.map(sched_run._worker, jobs, chunksize=1)
    return res


# ------------------------------------------------------------------------------------ replay
def replay(ctx, exo):
    import exo_build
    import stream
    import obs_pure
    from exo.core.configs import Config
    data = json.loads(Path(ctx.replay).read_text())
    r = data.get("replay") or {}
    src, att, hist = r.get("src"), r.get("att"), r.get("hist") or []
    if not src or not att:
        print("replay file carries no (program, attempt): nothing to re-run")
        return
    mod = exo_build.build_module(src)
    procs = exo_build.procs_of(mod)
    names = list(procs)
    p = procs[names[-1]]
    env = {"callees": {k: procs[k] for k in names[:-1]},
           "configs": {k: v for k, v in vars(mod).items() if isinstance(v, Config)}}
    chain = [p]
    for h in hist:
        p = stream.apply_attempt(p, h, env)
        chain.append(p)
    snaps = [(obs_pure.proc_snapshot(q), str(q)) for q in chain + list(env["callees"].values())]
    try:
        stream.apply_attempt(p, att, env)
        outcome = "accepted"
    except stream.Rejected as e:
        outcome = f"rejected {e.cls}"
    for q, (sn, st) in zip(chain + list(env["callees"].values()), snaps):
        now = obs_pure.proc_snapshot(q)
        if now != sn or str(q) != st:
            d = obs_pure.first_diff(sn, now) or "str"
            ctx.violation(data["key"], f"replayed: {att['op']} ({outcome}) changed an existing procedure: {d}", r)
            return
    print(f"replay: {att['op']} ({outcome}) changed nothing")


# ------------------------------------------------------------------------------------ run
def run(ctx):
    exo = import_exo()
    import pymut

    if ctx.replay:
        replay(ctx, exo)
        return
    ctx.rule = ("X: (pool or C07 program) x every (primitive, cursor, args) attempt of harness/stream.py, accepted or "
                "rejected; an evaluation = one attempt after which the attempted-on procedure, the original, the callees "
                "and a rotating sample of all other live procedures + tracked cursors were re-snapshotted and compared "
                "(final sweep compares everything); distinct = (program, attempt); non-trivial = at least one other live "
                "procedure besides the one operated on.  T: one evaluation per monitored activation of an analysed "
                "function / per random list-operation sequence (Op.apply vs Python).")
    ctx.assumptions += [
        "the translator's structural abstraction (harness/translate/pymut.py: scoping, top/soup items, classification of "
        "right-hand sides and mutator names) over-approximates the Python code; validated by the function-level monitor",
        "functions outside the seven translated files (and C-level builtins) do not edit lists reachable from IR nodes",
        "classes listed as ephemeral are not kept alive across operations (checked syntactically: never instantiated at module level)",
        "whitelisted sites (Gen.PyMut.whitelist, each with its reason) do not touch pre-existing IR lists",
    ]
    ctx.trusted += ["harness/translate/pymut.py (Python ast -> mini heap language)",
                    "CPython list/dict/set semantics as modelled by Exo.PyHeap.Op.apply (sampled against real lists)"]

    # ---- 1. regenerate the table
    tr = pymut.translate()
    text = pymut.write(tr)
    ngroups = sum(1 for g in tr.groups if pymut.relevant(g))
    nfuncs = sum(1 for g in tr.groups for f in g.funcs if f.items)
    ctx.count("translated-groups", ngroups)
    ctx.count("translated-functions", nfuncs)
    ctx.count("mutation-sites", tr.nsites)
    seen = set()
    wl = []
    for w in tr.whitelisted:
        k = (w["file"], w["func"], w["line"], w["site"])
        if k not in seen:
            seen.add(k)
            wl.append(w)
    ctx.extra["whitelisted_sites"] = [{k: w[k] for k in ("file", "func", "line", "site", "reason", "finding")} for w in wl]
    ctx.extra["ephemeral_classes"] = {g.name: g.ephemeral for g in tr.groups if getattr(g, "ephemeral", None)}
    ctx.extra["not_a_mutation_rules"] = sorted({s["rule"] for s in tr.skipped})
    ctx.extra["import_errors"] = {rel: getattr(m, "import_error", None) for rel, m in tr.mods.items() if getattr(m, "import_error", None)}
    stale = [list(r[:3]) for i, r in enumerate(pymut.WHITELIST) if i not in tr.used_wl]
    ctx.extra["stale_whitelist_rules"] = stale

    # ---- 2. proof obligations (soundness theorems + `decide` over the regenerated table)
    broken = ctx.lean_obligations(["ExoModel.Props.C07"])

    # ---- 3. name the failing sites with the model itself (driver), cross-check the Python mirror
    fails, nok, ntot = driver_failures(tr, pymut)
    ctx.count("groups-ok", nok)
    mirror = pymut.mirror_failures(tr)
    key = lambda f: (f["file"], f["group"], f["func"], f["line"], f["var"])
    if sorted(map(key, mirror)) != sorted(map(key, fails)):
        ctx.extra["mirror_mismatch"] = {"lean": sorted(map(key, fails))[:20], "python": sorted(map(key, mirror))[:20]}
        ctx.count("mirror-disagrees")
    ops_correspondence(ctx, ctx.scale(150, 600))

    # ---- 4. dynamic search (always)
    base = REPO / "src" / "exo"
    exempt = []
    func_line = {}
    for g in tr.groups:
        for f in g.funcs:
            func_line[(g.file, f.name)] = f.line
    for w in wl:
        if w["reason"].startswith("accumulator parameter"):
            for rel in pymut.FILES:
                ln = func_line.get((rel, w["func"]))
                if ln:
                    exempt.append((rel, ln, "*"))
    import re as _re
    caches = []
    for w in wl:
        m = _re.match(r"add-only cache: `(\w+)`", w["reason"])
        if m:
            caches.append(("exo." + w["file"][:-3].replace("/", "."), m.group(1)))
    monitor = {"files": {str((base / rel).resolve()): rel for rel in pymut.FILES} | {str(base / rel): rel for rel in pymut.FILES},
               "exempt": sorted(set(exempt)), "caches": sorted(set(caches))}
    ctx.extra["tracked_caches"] = [f"{a}.{b}" for a, b in sorted(set(caches))]
    recs = run_stream(ctx, monitor)
    dyn = []          # concrete violations found dynamically
    mon_calls = {}
    op_funcs = {}     # op -> analysed functions (file:line) it was seen to run under the monitor
    for r in recs:
        if r["error"]:
            if r["error"].startswith("infra"):
                raise InfraError(r["error"])
            if r["error"].startswith("front end rejected"):
                ctx.count("program-rejected-by-front-end")
                continue
            ctx.violation(f"stream:{r['name'].split('~')[0]}:worker-error", r["error"][:300],
                          {"program": r["name"], "src": r["src"], "error": r["error"]}, no_input=True)
            continue
        for k, v in r["counts"].items():
            ctx.count(k, v)
        for k, v in r.get("monitor_calls", {}).items():
            mon_calls[k] = mon_calls.get(k, 0) + v
        for op, ks in r.get("monitor_ops", {}).items():
            op_funcs.setdefault(op, set()).update(ks)
        for x in r["records"]:
            if x["kind"] in ("impure", "impure-cursor", "func-impure"):
                if x["kind"] == "impure" and "diff_class" not in x:
                    # sched_run's own str() comparison
                    x["diff_class"] = "str"
                    x["what"] = f"str() of the procedure {x['att']['op']} was applied to changed"
                dyn.append(x)
            elif x["kind"] == "observer-exception":
                ctx.violation(f"observer-exception:{x['att']['op']}", x["exc"], x, no_input=True)
    # coverage of the monitor: which analysed functions with mutation sites actually ran
    site_funcs = set()
    for g in tr.groups:
        for f in g.funcs:
            if any((it[0] == "top" and it[1][0] == "mut") or (it[0] == "soup" and any(s[0] == "mut" for s in it[1])) for it in f.items):
                site_funcs.add(f"{g.file}:{f.line}")
    ran = {k for k in mon_calls if k in site_funcs}
    ctx.extra["monitor"] = {"activations": sum(mon_calls.values()), "functions_run": len(mon_calls),
                            "functions_with_mutation_sites": len(site_funcs), "of_which_run": len(ran)}
    for k in sorted(ran)[:5]:
        ctx.sample({"monitored-function": k, "activations": mon_calls[k]})

    # ---- 5. probes of caller-owned argument lists
    probes = []
    try:
        probes = probe_caller_list(exo)
    except BaseException as e:
        ctx.count(f"probe-error:{type(e).__name__}")
    for pr in probes:
        ctx.count("probe:caller-list")
        ctx.evaluated(("probe", pr["op"], pr["on"]))
        if pr["changed"]:
            ctx.violation("CursorArgumentProcessor.__call__:caller-list-forwarded-in-place",
                          f"{pr['op']}(p, cursors): the caller's list `cursors` was overwritten with forwarded cursors", pr)

    # ---- 6. verdicts
    for x in dyn:
        op = (x.get("att") or {}).get("op", "?")
        if x["kind"] == "func-impure":
            k = f"func:{x['diff_class']}"
            fn = x["detail"]["func"].replace(".<locals>", "")
            for w in wl:
                if w.get("finding") and w["func"] == fn:
                    k = w["finding"]     # the dynamic face of a recorded finding
        elif x["kind"] == "impure-cursor":
            k = f"{op}:cursor-changed"
        elif str(x.get("diff_class", "")).startswith("cache:"):
            k = f"cache-entry-edited:{x['diff_class'][6:]}"
        else:
            k = f"{op}:existing-proc-changed:{x.get('diff_class', '?')}"
        ctx.violation(k, x["what"], x)
    finding_keys = {w["finding"] for w in wl if w.get("finding")}
    if broken or fails:
        ctx.extra["failing_sites"] = fails[:50]
        ctx.extra["broken"] = broken
        reported = set()
        for f in fails:
            sk = f"site:{f['file']}:{f['func']}:{f['what'].replace(' ', '-')}:{f['var']}"
            if sk in reported:
                continue
            reported.add(sk)
            srcline = ""
            try:
                srcline = tr.mods[f["file"]].src.splitlines()[f["line"] - 1].strip()
            except Exception:
                pass
            # attribute dynamic records to the site: the function monitor saw this very function edit an
            # argument, or an existing object changed during an operation that is known to run the function
            fkey = f"{f['file']}:{func_line.get((f['file'], f['func']), -1)}"
            ops = sorted(op for op, ks in op_funcs.items() if fkey in ks)
            hit = [x for x in dyn if x["kind"] == "func-impure" and x["detail"]["func"].replace(".<locals>", "") == f["func"]]
            hit += [x for x in dyn if x["kind"] != "func-impure" and (x.get("att") or {}).get("op") in ops]
            what = (f"obligation AllMutationsFresh broken at {f['file']}:{f['line']} in {f['func']}: {f['what']} on `{f['var']}` "
                    f"whose origin is {f['origin']}: `{srcline}`")
            if hit:
                # the concrete VIOLATION lines of this run are the failing inputs; name the site as well
                ctx.violation(sk, what + f"  (reproduced dynamically by {sorted({(x.get('att') or {}).get('op', '?') for x in hit})[:4]})",
                              {"site": f, "source": srcline, "operations_that_run_the_function": ops, "dynamic": hit[0]})
            else:
                ctx.violation(sk, what + f"  (operations seen to run the function: {ops[:6] or 'none'})",
                              {"site": f, "source": srcline, "operations_that_run_the_function": ops}, no_input=True)
        if broken and not fails:
            ctx.violation("obligation:build-broken", f"Lean obligations broken: {broken}",
                          {"broken": broken, "log": ctx.extra.get("build_log_tail", "")[-1500:]}, no_input=True)

    ctx.evaluations += ctx.counts.get("pure:accepted-checked", 0) + ctx.counts.get("pure:rejected-checked", 0) \
        + ctx.counts.get("pure:monitored-attempts", 0)
    n = ctx.counts.get("pure:accepted-checked", 0) + ctx.counts.get("pure:rejected-checked", 0)
    ctx.distinct |= {("attempt", i) for i in range(n)}
