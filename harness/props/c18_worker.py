"""Worker of the C18 search: executes scripted sessions in THIS (fresh) interpreter.

    PYTHONHASHSEED=<s> python c18_worker.py <spec.json>     ->  one JSON document on stdout

spec = {"repo": path, "env": {"sym_offset": n, "proc_offset": n, "pad": n, "perm_seed": n,
                               "fv_order": null | "asc" | "desc"},
        "sessions": [ {"kind": "scripted", "name": ...} |
                      {"kind": "pool", "name": ..., "programs": [...], "unrelated": [...],
                       "ops": [...], "seed": n, "steps": n} ]}

The environment part is what the property quantifies over: hash seed (set by the parent through
PYTHONHASHSEED), number of `Sym`s / procedures created before the session, padding allocations that
move `id()` addresses, definition order of unrelated procedures.  `fv_order` is used only by the
demonstration of the known finding F17: it wraps (from outside, nothing in the tree is edited)
`LoopIR_unification.FreeVars` so that the set of free variables is iterated in a FIXED order.

Output: {"sessions": {name: [[label, text], ...]}, "detail": {...}, "hashseed": ...}.
Exceptions of the real code are data: they are recorded as text `EXC:<class name>`.
"""
from __future__ import annotations

import json
import os
import random
import sys

_PAD = []
_KEEP = []
_CUR = {"out": None}


def exc_class(e_cls, msg):
    """class name of an exception of the real code; Z3 answering `unknown` gets its own name (it is
    raised as a plain TypeError)"""
    return "Z3Unknown" if "unknown result from z3" in (msg or "") else e_cls


def rec(label, obj):
    """record str(obj) under label (called by the scripted sessions)"""
    try:
        txt = obj if isinstance(obj, str) else str(obj)
    except BaseException as e:  # printing is real code too
        if isinstance(e, (KeyboardInterrupt, SystemExit, MemoryError)):
            raise
        txt = "EXC:" + exc_class(type(e).__name__, str(e))
    _CUR["out"].append([label, txt])


def compile_unit(label, procs):
    from exo.API import compile_procs_to_strings

    try:
        c, h = compile_procs_to_strings(list(procs), "h.h")
    except BaseException as e:
        if isinstance(e, (KeyboardInterrupt, SystemExit, MemoryError)):
            raise
        _CUR["out"].append([label, "EXC:" + exc_class(type(e).__name__, str(e))])
        _CUR["detail"].append(f"{label}: {type(e).__name__}: {str(e)[:200]}")
        return
    _CUR["out"].append([label + ":c", c])
    _CUR["out"].append([label + ":h", h])


def _setup(env, repo):
    # 1. padding allocations BEFORE anything else is imported: moves the addresses of everything
    #    allocated later (and with them every id()-based hash)
    n = int(env.get("pad", 0))
    for i in range(n):
        _PAD.append(bytearray(61 + 37 * (i % 53)))
        if i % 3 == 0:
            _PAD.append({i: object()})
        if i % 5 == 0:
            _PAD.append([object() for _ in range(i % 17)])
    os.environ["EXO_REPO"] = repo
    here = os.path.dirname(os.path.abspath(__file__))
    sys.path.insert(0, os.path.dirname(here))
    sys.path.insert(0, here)
    import common

    common.import_exo()
    # 2. symbols created earlier in the process
    from exo.core.prelude import Sym

    for i in range(int(env.get("sym_offset", 0))):
        _KEEP.append(Sym("dummy"))
    # 3. procedures created earlier in the process
    k = int(env.get("proc_offset", 0))
    if k:
        import exo_build

        src = "\n".join(
            f"@proc\ndef dummy_{i}(n: size, x: f32[n]):\n    for i in seq(0, n):\n        x[i] = {float(i)}\n"
            for i in range(k)
        )
        _KEEP.append(exo_build.build_module(src))
    # 4. (demonstration only) fixed iteration order of the unifier's free-variable set
    mode = env.get("fv_order")
    if mode:
        import exo.rewrite.LoopIR_unification as U

        orig = U.FreeVars

        class FixedOrderFreeVars:
            def __init__(self, stmts):
                self._r = orig(stmts).result()

            def result(self):
                l = sorted(self._r, key=lambda s: (s._nm, s._id))
                return l if mode == "asc" else list(reversed(l))

        U.FreeVars = FixedOrderFreeVars


def _run_scripted(sess):
    import exo_build
    from props.c18_sessions import SCRIPTED, X86_HEADER

    exo_build.build_module(SCRIPTED[sess["name"]]["src"], header=X86_HEADER)


def _run_pool(sess, env):
    import exo_build
    import export_ir
    import stream
    from exo.core.configs import Config
    from pool import POOL

    names = list(sess["programs"]) + list(sess["unrelated"])
    order = list(names)
    random.Random(f"perm:{env.get('perm_seed', 0)}:{sess['name']}").shuffle(order)
    if not env.get("perm_seed"):
        order = list(names)
    mods = {}
    for nm in order:  # definition order of the (mutually unrelated) programs is part of the environment
        mods[nm] = exo_build.build_module(POOL[nm])
    finals = []
    for nm in sess["programs"]:
        procs = exo_build.procs_of(mods[nm])
        pn = list(procs)
        p = procs[pn[-1]]
        callees = {k: procs[k] for k in pn[:-1]}
        configs = {k: v for k, v in vars(mods[nm]).items() if isinstance(v, Config)}
        cfg_list = []
        for cn, cfg in configs.items():
            for (fn, _t) in cfg.fields():
                cfg_list.append((cn, fn, not export_ir.is_ctrl_type(cfg.lookup_type(fn))))
        senv = {"callees": callees, "configs": configs}
        rng = random.Random(f"sched:{sess['seed']}:{nm}")
        rec(f"print:{nm}", p)
        for k, op in enumerate(sess["ops"][: sess["steps"]]):
            try:
                atts = stream.attempts(p, callees=list(callees), configs=cfg_list)
            except BaseException as e:
                if isinstance(e, (KeyboardInterrupt, SystemExit, MemoryError)):
                    raise
                rec(f"{op}:{nm}:{k}:enumerate", "EXC:" + type(e).__name__)
                break
            cands = [a for a in atts if a["op"] == op]
            if not cands:
                cands = list(atts)
            rng.shuffle(cands)
            trace = []
            done = False
            for a in cands[:8]:
                try:
                    p2 = stream.apply_attempt(p, a, senv)
                except stream.Rejected as r:
                    trace.append(a["op"] + ":" + exc_class(r.cls, r.msg))
                    continue
                trace.append(a["op"] + ":ok")
                p = p2
                done = True
                rec(f"{a['op']}:{nm}:{k}", json.dumps(a, sort_keys=True) + "\n" + " ".join(trace) + "\n" + str(p))
                break
            if not done:
                rec(f"{op}:{nm}:{k}", "none accepted: " + " ".join(trace))
        finals.append(p)
        compile_unit(f"compile:{nm}", [p])
    compile_unit("compile", finals)


def main():
    spec = json.load(open(sys.argv[1]))
    env = spec["env"]
    sys.modules["c18_worker"] = sys.modules[__name__]
    _setup(env, spec["repo"])
    res = {"sessions": {}, "detail": {}, "hashseed": os.environ.get("PYTHONHASHSEED")}
    for sess in spec["sessions"]:
        _CUR["out"] = []
        _CUR["detail"] = []
        try:
            if sess["kind"] == "scripted":
                _run_scripted(sess)
            else:
                _run_pool(sess, env)
        except BaseException as e:  # the real code may raise anything anywhere
            if isinstance(e, (KeyboardInterrupt, SystemExit, MemoryError)):
                raise
            _CUR["out"].append(["session-aborted", "EXC:" + exc_class(type(e).__name__, str(e))])
            _CUR["detail"].append(f"{type(e).__name__}: {str(e)[:300]}")
        res["sessions"][sess["name"]] = _CUR["out"]
        res["detail"][sess["name"]] = _CUR["detail"]
    sys.stdout.write("\n@@C18RESULT@@" + json.dumps(res) + "\n")


if __name__ == "__main__":
    main()
