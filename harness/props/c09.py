"""C09 — parallel loops that compile are race-free.

Parts
  0. obligations: lake build + axiom audit of ExoModel.Props.C09 (event model: every interleaving of
     a race-free loop gives the sequential result; traversal model of ParallelAnalysis).
  1. correspondence A: programs with `par` loops at every position (top level, in seq / par loops,
     in if / else branches, in callees, callees called at depth, after parallelize_loop, in
     instruction procedures) x racy / non-racy bodies are compiled by the REAL code
     (compile_procs_to_strings / Procedure.c_code_str) with Check_ParallelizeLoop wrapped: the set
     of (procedure, loop) handed to it is compared with the model's `checked` (literal model of
     ParallelAnalysis, through lean/Drivers/C09.lean); the complete set `par` is accepted as well
     (a repaired traversal must not be reported).  Also: compile fails  <=>  a handed loop was
     rejected; number of emitted pragmas = number of Par loops of the compiled procedures.
  2. correspondence B + search: every program is run by the footprint interpreter
     (props/c09_interp.py; cross-checked against the Lean reference interpreter on every input) on
     valid inputs; for every dynamic instance of every Par loop that is emitted with
     `#pragma omp parallel for` the per-iteration read / write / reduce footprints must be pairwise
     conflict-free (hypothesis of Props.C09.interleaving_eq_sequential; decided both here and by
     the Lean function `conflict`, Props.C09.footprint_check_correct).  A compiled loop with a
     conflicting pair of iterations is a concrete violation; its key says which part let it
     through.  A failed compilation must be the documented TypeError, and the same program
     with every `par` replaced by `seq` must compile.
A replay file holds the source text, the input, the loop, the two iterations and the cell.
"""
from __future__ import annotations

import json
import re
import traceback

from common import InfraError, LeanDriver, import_exo, lean_batch

DRIVER = "Drivers/C09.lean"
DOC_MSG = "parallel loop's body is not parallelizable because of potential data races"
KEY_NESTED = "ParallelAnalysis:nested-par-loop-not-visited"

# ----------------------------------------------------------------------------- program generator
# placeholders: {s} item suffix, {i} loop variable, {n} extent, {K} leading index ("k, " or ""),
# {KD} leading dimension ("2, " or "")
X = "x{s}: f32[{KD}{n}]"
Y = "y{s}: f32[{KD}{n}]"
Y1 = "y{s}: f32[{KD}{n} + 1]"
SC = "c{s}: f32[{KD}1]"
SUB_PT = ["@proc", "def pt{s}(a: [f32][1], b: [f32][1]):", "    a[0] = b[0]"]
CFG = ["@config", "class CFG{s}:", "    f: f32"]

BODIES = {
    # ---- no two iterations conflict
    "disjoint": dict(args=[X, Y], body=["y{s}[{K}{i}] = x{s}[{K}{i}] + 1.0"], racy=False),
    "disjoint_reduce": dict(args=[X, Y], body=["y{s}[{K}{i}] += x{s}[{K}{i}]"], racy=False),
    "shared_reads": dict(args=[X, Y, SC], body=["y{s}[{K}{i}] = x{s}[{K}0] * c{s}[{K}0]"], racy=False),
    "reads_only": dict(args=[X], body=["t{s}: f32", "t{s} = x{s}[{K}{i}]"], racy=False),
    "local_alloc": dict(args=[X, Y], body=["t{s}: f32", "t{s} = x{s}[{K}{i}]", "y{s}[{K}{i}] = t{s} * 2.0"],
                        racy=False),
    "inner_reduce": dict(args=[Y, "z{s}: f32[{KD}{n}, 3]"],
                         body=["y{s}[{K}{i}] = 0.0", "for j{s} in seq(0, 3):",
                               "    y{s}[{K}{i}] += z{s}[{K}{i}, j{s}]"], racy=False),
    "strided": dict(args=["y{s}: f32[{KD}2 * {n}]"],
                    body=["y{s}[{K}2 * {i}] = 1.0", "y{s}[{K}2 * {i} + 1] = y{s}[{K}2 * {i}]"], racy=False),
    "reversed": dict(args=[X, Y], body=["y{s}[{K}{n} - 1 - {i}] = x{s}[{K}{i}]"], racy=False),
    "call_point": dict(args=[X, Y], pre=SUB_PT,
                       body=["pt{s}(y{s}[{K}{i}:{i} + 1], x{s}[{K}{i}:{i} + 1])"], racy=False),
    "window_own": dict(args=[X, Y1], body=["w{s} = y{s}[{K}{i}:{i} + 2]", "w{s}[0] = x{s}[{K}{i}]"], racy=False),
    "guard_first": dict(args=[SC], body=["if {i} == 0:", "    c{s}[{K}0] = 1.0"], racy=False),
    "cfg_read": dict(args=[Y], pre=CFG, body=["y{s}[{K}{i}] = CFG{s}.f"], racy=False),
    "row": dict(args=["z{s}: f32[{KD}{n}, 3]"],
                body=["for j{s} in seq(0, 2):", "    z{s}[{K}{i}, j{s} + 1] = z{s}[{K}{i}, j{s}]"], racy=False),
    # ---- some pair of different iterations conflicts (for extent >= 2, "far" ones for >= 3)
    "ww_same_cell": dict(args=[X, SC], body=["c{s}[{K}0] = x{s}[{K}{i}]"], racy=True),
    "ww_const": dict(args=[SC], body=["c{s}[{K}0] = 1.0"], racy=True),
    "carried": dict(args=[Y1], body=["y{s}[{K}{i} + 1] = y{s}[{K}{i}] + 1.0"], racy=True),
    "carried_back": dict(args=[Y1], body=["y{s}[{K}{i}] = y{s}[{K}{i} + 1]"], racy=True),
    "reduce_shared": dict(args=[X, SC], body=["c{s}[{K}0] += x{s}[{K}{i}]"], racy=True),
    "div2": dict(args=[X, Y], body=["y{s}[{K}{i} / 2] = x{s}[{K}{i}]"], racy=True),
    "read_of_written": dict(args=[Y], body=["y{s}[{K}{i}] = y{s}[{K}0] + 1.0"], racy=True),
    "call_shared": dict(args=[X, SC], pre=SUB_PT, body=["pt{s}(c{s}[{K}0:1], x{s}[{K}{i}:{i} + 1])"], racy=True),
    "window_overlap": dict(args=[X, Y1], body=["w{s} = y{s}[{K}{i}:{i} + 2]", "w{s}[1] = x{s}[{K}{i}]",
                                               "w{s}[0] = x{s}[{K}{i}]"], racy=True),
    "guard_else_read": dict(args=[Y, SC], body=["if {i} == 0:", "    c{s}[{K}0] = 1.0", "else:",
                                                "    y{s}[{K}{i}] = c{s}[{K}0]"], racy=True),
    "cfg_write": dict(args=[], pre=CFG, body=["CFG{s}.f = 1.0"], racy=True, glob=True),
    "far_pair": dict(args=[Y], body=["if {i} == 0:", "    y{s}[{K}{n} - 1] = 2.0", "y{s}[{K}{i}] += 1.0"], racy=True),
    "inner_seq_shared": dict(args=[X, SC], body=["for j{s} in seq(0, 2):", "    c{s}[{K}0] += x{s}[{K}{i}]"], racy=True),
}

# position -> how the par loop is wrapped.  `callee`: the loop lives in a sub-procedure;
# `sched`: written with seq and turned into par by parallelize_loop; K: a leading index exists
POSITIONS = {
    "top": dict(wrap=[], k=False),
    "in_seq": dict(wrap=["for k{s} in seq(0, 2):"], k=True),
    "in_seq_shared": dict(wrap=["for k{s} in seq(0, 2):"], k=False),
    "in_if": dict(wrap=["if m{s} > 1:"], k=False, m=True),
    "in_else": dict(wrap=["if m{s} > 2:", "    pass", "else:"], k=False, m=True),
    "in_par": dict(wrap=["for k{s} in par(0, 2):"], k=True),
    "deep": dict(wrap=["for k{s} in seq(0, 2):", "    if m{s} > 1:", "        for q{s} in seq(0, 1):"], k=True, m=True,
                 depth=3),
    "callee_top": dict(wrap=[], k=False, callee=True),
    "callee_nested": dict(wrap=["for k{s} in seq(0, 2):"], k=True, callee=True),
    "callee_called_deep": dict(wrap=[], k=False, callee=True, call_wrap=["for r{s} in seq(0, 2):", "    if m{s} > 0:"],
                               m_main=True),
    "sched_top": dict(wrap=[], k=False, sched=True),
    "sched_nested": dict(wrap=["for k{s} in seq(0, 2):"], k=True, sched=True),
    "sched_in_if": dict(wrap=["if m{s} > 1:"], k=False, m=True, sched=True),
    "callee_sched": dict(wrap=[], k=False, callee=True, sched=True),
    "instr_body": dict(wrap=[], k=False, callee=True, instr=True),
}


def fmt(lines, **kw):
    return [ln.format(**kw) for ln in lines]


def indent(lines, n=1):
    return ["    " * n + ln for ln in lines]


def random_body(rng):
    """a body with random access patterns over one buffer y (4*n + 8 cells), a read-only x and a
    square z: 1-3 statements `y[e] (=|+=) y[e'] (+ x[e''])`, e = a*i + b | i / 2 | i % 2 | n - 1 - i,
    optionally guarded by a condition on i or inside a short inner seq loop; or a statement on
    z[i, j] / z[j, i].  Whether it is racy is decided by the measured footprints only."""
    def idx(inner):
        k = rng.random()
        if k < 0.55:
            a, b = rng.choice([0, 1, 1, 1, 2, 3]), rng.randint(0, 3)
            e = (f"{a} * {{i}}" if a != 1 else "{i}") if a else ""
            if inner and rng.random() < 0.6:
                e = (e + " + " if e else "") + "j{s}"
            if b or not e:
                e = (e + " + " if e else "") + str(b)
            return e
        if k < 0.7:
            return "{i} / 2"
        if k < 0.8:
            return "{i} % 2"
        if k < 0.9:
            return "{n} - 1 - {i}"
        return str(rng.randint(0, 2))

    lines = []
    for _ in range(rng.choice([1, 1, 2, 3])):
        inner = rng.random() < 0.25
        k = rng.random()
        if k < 0.2:
            a, b = rng.choice([("{i}", "j{s}"), ("j{s}", "{i}")]), rng.choice([("{i}", "j{s}"), ("j{s}", "{i}"), ("{i}", "{i}")])
            hi = rng.choice(["{n}", "{i}", "{i} + 1"])
            st = [f"for j{{s}} in seq(0, {hi}):",
                  f"    z{{s}}[{{K}}{a[0]}, {a[1]}] {rng.choice(['=', '+='])} z{{s}}[{{K}}{b[0]}, {b[1]}] + 1.0"]
        else:
            lhs = f"y{{s}}[{{K}}{idx(inner)}]"
            rhs = rng.choice([f"y{{s}}[{{K}}{idx(inner)}]", f"x{{s}}[{{K}}{{i}}]", "1.0",
                              f"y{{s}}[{{K}}{idx(inner)}] + x{{s}}[{{K}}{{i}}]"])
            st = [f"{lhs} {rng.choice(['=', '=', '+='])} {rhs}"]
            if inner:
                st = ["for j{s} in seq(0, 2):"] + indent(st)
            g = rng.random()
            if g < 0.15:
                st = [f"if {{i}} == {rng.randint(0, 2)}:"] + indent(st)
            elif g < 0.3:
                st = [f"if {{i}} < {rng.randint(1, 2)}:"] + indent(st)
        lines += st
    return dict(args=[X, "y{s}: f32[{KD}4 * {n} + 8]", "z{s}: f32[{KD}{n}, {n}]"], body=lines, racy=None)


def make_item(pos, body, s, n):
    """-> dict(pre=[lines before main], args=[main args], stmts=[main body lines], post=[lines after main])"""
    P, B = POSITIONS[pos], (body if isinstance(body, dict) else BODIES[body])
    use_k = P["k"] and not B.get("glob")
    kw = dict(s=s, i=f"i{s}", n=n, K=(f"k{s}, " if use_k else ""), KD=("2, " if use_k else ""))
    args = fmt(B["args"], **kw)
    mode = "seq" if P.get("sched") else "par"
    loop = [f"for i{s} in {mode}(0, {n}):"] + indent(fmt(B["body"], **kw))
    wrap = fmt(P["wrap"], **kw)
    depth = P.get("depth", 1 if wrap else 0)
    block = wrap + indent(loop, depth)
    pre = fmt(B.get("pre", []), **kw)
    post = []
    need_m = P.get("m")
    if P.get("callee"):
        cargs = (["n: size"] if n == "n" else []) + ([f"m{s}: size"] if need_m else []) + args
        names = [a.split(":")[0] for a in cargs]
        head = ["@instr(\"/* c09 */\")"] if P.get("instr") else ["@proc"]
        pre = pre + ["", *head, f"def sub{s}({', '.join(cargs)}):"] + indent(block)
        if P.get("sched"):
            pre += [f"sub{s} = parallelize_loop(sub{s}, sub{s}.find_loop(\"i{s}\"))"]
        call = [f"sub{s}({', '.join(names)})"]
        cw = fmt(P.get("call_wrap", []), **kw)
        stmts = cw + indent(call, len(cw))
        margs = args + ([f"m{s}: size"] if (need_m or P.get("m_main")) else [])
    else:
        stmts = block
        margs = args + ([f"m{s}: size"] if need_m else [])
        if P.get("sched"):
            post = [f"main = parallelize_loop(main, main.find_loop(\"i{s}\"))"]
    return dict(pre=pre, args=margs, stmts=stmts, post=post)


def make_program(items, n):
    """items: [(position, body)]; n: "n" (a size argument) or a constant"""
    pre, args, stmts, post = [], (["n: size"] if n == "n" else []), [], []
    for idx, (pos, body) in enumerate(items):
        it = make_item(pos, body, str(idx), n)
        pre += it["pre"] + [""]
        args += it["args"]
        stmts += it["stmts"]
        post += it["post"]
    if not args:
        args = ["dummy: f32[1]"]
    src = "\n".join(pre + ["@proc", f"def main({', '.join(args)}):"] + indent(stmts) + [""] + post) + "\n"
    return src


def seq_twin(src):
    """same program with every loop sequential (and no parallelize_loop)"""
    out = []
    for ln in src.splitlines():
        if "parallelize_loop(" in ln:
            continue
        out.append(re.sub(r"\bpar\(", "seq(", ln))
    return "\n".join(out) + "\n"


# ----------------------------------------------------------------------------- real code
def memoize_pysmt_probe():
    """exo builds a fresh pysmt Factory for every solver it creates, and every Factory re-imports the
    seven solver back-ends that are not installed (about 50 ms each time, most of this check's wall
    time).  Which back-ends are installed cannot change during the run: probe once, copy afterwards.
    Nothing of exo is touched."""
    try:
        import pysmt.factory as F
    except Exception:  # noqa
        return
    if getattr(F.Factory, "_verif_memo", None) is not None:
        return
    cache = F.Factory._verif_memo = {}
    for meth, attrs in (("_get_available_solvers", ("_all_solvers", "_all_unsat_core_solvers")),
                        ("_get_available_qe", ("_all_qelims",)),
                        ("_get_available_interpolators", ("_all_interpolators",))):
        orig = getattr(F.Factory, meth)

        def wrapped(self, _orig=orig, _attrs=attrs, _m=meth):
            if _m not in cache:
                _orig(self)
                cache[_m] = {a: dict(getattr(self, a)) for a in _attrs}
            else:
                for a in _attrs:
                    setattr(self, a, dict(cache[_m][a]))

        setattr(F.Factory, meth, wrapped)


class Real:
    def __init__(self):
        self.exo = import_exo()
        memoize_pysmt_probe()
        import exo_build
        import export_ir
        import exo.backend.parallel_analysis as pa
        from exo import compile_procs_to_strings
        from exo.core.LoopIR import LoopIR

        self.exo_build, self.export_ir, self.pa, self.LoopIR = exo_build, export_ir, pa, LoopIR
        self.compile_procs_to_strings = compile_procs_to_strings
        self.calls = []
        self.orig = getattr(pa, "Check_ParallelizeLoop", None)
        real = self

        def wrapper(proc, s, *a, **k):
            try:
                real.orig(proc, s, *a, **k)
            except BaseException as e:  # noqa
                real.calls.append((proc, s, type(e).__name__))
                raise
            real.calls.append((proc, s, "ok"))

        if self.orig is not None:
            pa.Check_ParallelizeLoop = wrapper

    def restore(self):
        if self.orig is not None:
            self.pa.Check_ParallelizeLoop = self.orig

    # LoopIR -> ExoModel.Par tree
    def tree_stmts(self, ss):
        L = self.LoopIR
        out = []
        for s in ss:
            if isinstance(s, L.For):
                out.append(["loop", isinstance(s.loop_mode, L.Par), self.tree_stmts(s.body)])
            elif isinstance(s, L.If):
                out.append(["if", self.tree_stmts(s.body), self.tree_stmts(s.orelse)])
            elif isinstance(s, L.Call):
                out.append(["call", self.tree_proc(s.f)])
            else:
                out.append(["leaf"])
        return out

    def tree_proc(self, p):
        return {"name": str(p.name), "instr": p.instr is not None, "body": self.tree_stmts(p.body)}

    def path_of(self, p, target):
        L = self.LoopIR

        def go(ss, pre):
            for k, s in enumerate(ss):
                here = pre + [k]
                if s is target:
                    return here
                if isinstance(s, L.For):
                    r = go(s.body, here)
                    if r is not None:
                        return r
                elif isinstance(s, L.If):
                    r = go(s.body, here + [0])
                    if r is None:
                        r = go(s.orelse, here + [1])
                    if r is not None:
                        return r
            return None

        return go(p.body, [])

    def build(self, src):
        """-> (Procedure main | None, error class | None, message)"""
        try:
            mod = self.exo_build.build_module(src)
            procs = self.exo_build.procs_of(mod)
            return procs["main"], None, ""
        except Exception as e:  # noqa
            return None, type(e).__name__, str(e)[:300]

    def compile(self, main, via):
        """-> dict(status ok|error class, msg, c, calls=[(proc name, path, outcome)])"""
        self.calls = []
        try:
            if via == "c_code_str":
                c = main.c_code_str()
            else:
                c, _h = self.compile_procs_to_strings([main], "c09.h")
            st, msg = "ok", ""
        except Exception as e:  # noqa
            c, st, msg = "", type(e).__name__, str(e)
        calls = []
        for (p, s, out) in self.calls:
            try:
                path = self.path_of(p, s)
                name = str(p.name)
            except Exception:  # noqa
                path, name = None, "?"
            calls.append((name, path, out))
        return dict(status=st, msg=msg, c=c, calls=calls)


# ----------------------------------------------------------------------------- the check
def canon_pairs(l):
    return sorted({(str(n), tuple(p) if p is not None else None) for n, p in l}, key=repr)


def cfg_dict(cfg):
    return {(c[0], c[1]): (c[2], c[3]) for c in cfg}


def same_result(mine, lean):
    if "err" in lean:
        return "err" in mine and mine["err"] == lean["err"]
    if "ok" not in lean or "ok" not in mine:
        return False
    return mine["ok"]["heap"] == lean["ok"]["heap"] and cfg_dict(mine["ok"]["cfg"]) == cfg_dict(lean["ok"]["cfg"])


class Checker:
    def __init__(self, ctx):
        self.ctx = ctx
        self.real = Real()
        import interp
        from props import c09_interp

        self.interp_mod = interp
        self.fpi = c09_interp
        self.sem = interp.Interp()
        self.trav = LeanDriver(DRIVER)
        self.disj_requests = []  # (loops json, python verdicts, replay context)

    def close(self):
        self.real.restore()
        self.sem.close()
        self.trav.close()

    def model(self, main, rejected):
        ir = main.INTERNAL_proc()
        req = {"op": "trav", "procs": [self.real.tree_proc(ir)],
               "rejected": [[n, list(p)] for n, p in rejected if p is not None]}
        ans = json.loads(self.trav.ask(json.dumps(req, separators=(",", ":"))))
        if "bad" in ans:
            raise InfraError(f"C09 driver rejected request: {ans['bad']}")
        return ans

    def one(self, label, src, via="compile_procs_to_strings", n_inputs=4, fixed_input=None):
        ctx, real = self.ctx, self.real
        rep = {"label": label, "src": src, "via": via}
        main, ecls, emsg = real.build(src)
        if main is None:
            ctx.count(f"front-end-error:{ecls}")
            ctx.violation(f"generator:program-rejected-by-front-end:{ecls}",
                          f"a generated program that the unchanged tree accepts is rejected before compilation: {emsg[:120]}",
                          rep, no_input=True)
            return
        res = real.compile(main, via)
        rejected = [(n, tuple(p) if p is not None else None) for n, p, o in res["calls"] if o != "ok"]
        try:
            mdl = self.model(main, rejected)
        except InfraError:
            raise
        except Exception as e:  # noqa  (a mutated tree may break the IR shape)
            ctx.violation("model:cannot-translate-IR", f"{type(e).__name__}: {e}", rep, no_input=True)
            return
        m_checked = canon_pairs(mdl["checked_run"])
        m_fixed = canon_pairs(mdl["fixed_run"])
        m_par = canon_pairs(mdl["par"])
        r_checked = canon_pairs([(n, p) for n, p, _ in res["calls"]])
        ctx.count("compile:" + ("ok" if res["status"] == "ok" else "rejected" if DOC_MSG in res["msg"] else "other-error"))
        ctx.count(f"via:{via}")
        # ---- tie A: which loops are handed to the check
        if r_checked == m_checked:
            ctx.count("tieA:real=literal-model" + ("=repaired-model" if m_checked == m_fixed else ""))
        elif r_checked == m_fixed:
            ctx.count("tieA:real=repaired-model(all Par loops of the analysed procedures)")
        else:
            ctx.violation("tieA:checked-loops-differ-from-model",
                          f"Check_ParallelizeLoop was called on {r_checked}, model of ParallelAnalysis says {m_checked} "
                          f"(repaired traversal: {m_fixed})", dict(rep, real=r_checked, model=m_checked, repaired=m_fixed), no_input=True)
        # ---- compile outcome vs the verdicts of the handed loops
        if res["status"] == "ok":
            if rejected:
                ctx.violation("ParallelAnalysis:rejected-loop-but-compiled",
                              f"Check_ParallelizeLoop rejected {rejected} but compilation succeeded", rep, no_input=True)
            npragma = res["c"].count("#pragma omp parallel for")
            if npragma != len(m_par):
                ctx.violation("emission:pragma-count-differs",
                              f"{npragma} pragmas emitted, {len(m_par)} Par loops in the compiled procedures", rep,
                              no_input=True)
        else:
            documented = res["status"] == "TypeError" and DOC_MSG in res["msg"]
            if not documented:
                # the same program without par must compile, otherwise the generator is at fault
                twin, e2, _ = real.build(seq_twin(src))
                r2 = real.compile(twin, via) if twin is not None else {"status": e2}
                if r2["status"] == "ok":
                    ctx.violation(f"compile:undocumented-error:{res['status']}",
                                  f"compilation of a program with par loops fails with {res['status']}: {res['msg'][:150]} "
                                  f"(documented: TypeError '{DOC_MSG}'); the all-seq twin compiles", rep)
                else:
                    ctx.violation(f"generator:twin-does-not-compile:{r2['status']}",
                                  "generated program does not compile even without par loops", rep, no_input=True)
                return
            if not rejected:
                ctx.violation("compile:race-error-without-rejected-loop",
                              "compilation failed with the data-race error although no handed loop was rejected", rep,
                              no_input=True)
        # ---- B: dynamic footprints
        try:
            pj, cfg_types = real.export_ir.export(main)
        except Exception as e:  # noqa
            ctx.violation("model:cannot-export-IR", f"{type(e).__name__}: {e}", rep, no_input=True)
            return
        if fixed_input is not None:
            inputs = [fixed_input]
            lean_res = self.sem.run(pj, inputs)
        else:
            inputs, lean_res = self.sem.gen_inputs(pj, cfg_types, ctx.rng, n_inputs, small=True)
        if not inputs:
            ctx.count("no-valid-input")
            return
        compiled = res["status"] == "ok"
        emitted = set(m_par)  # Par loops of compiled (non-instruction) procedures get the pragma
        handed = {(n, p): o for (n, p, o) in [(n, tuple(p) if p is not None else None, o) for n, p, o in res["calls"]]}
        dyn_conflict = False
        multi = False
        for inp, lr in zip(inputs, lean_res):
            mine, insts = self.fpi.run(pj, inp)
            if not same_result(mine, lr):
                raise InfraError(f"footprint interpreter disagrees with the Lean reference interpreter on {label}: "
                                 f"{json.dumps(mine)[:300]} vs {json.dumps(lr)[:300]}\n{src}\n{json.dumps(inp)}")
            ctx.count("inputs-cross-checked-with-Sem")
            if "ok" not in mine:
                ctx.count(f"input-trips-monitor:{mine.get('err')}")
                continue
            loops_json, verdicts, ctxs = [], [], []
            for inst in insts:
                name, path = inst["loop"]
                lid = (name, tuple(path))
                if len(inst["iters"]) >= 2:
                    multi = True
                cf = self.fpi.conflicts(inst)
                # cells -> naturals for the Lean check
                num = {}
                fps = []
                for it in inst["iters"]:
                    fps.append([[num.setdefault(c, len(num)) for c in sorted(cells, key=repr)]
                                for cells in (it.rd, it.wr, it.red)])
                loops_json.append(fps)
                verdicts.append(cf is not None)
                ctxs.append(lid)
                ctx.count("par-loop-instances")
                if cf is None:
                    continue
                dyn_conflict = True
                i, j, cell, kind = cf
                if lid not in emitted:
                    ctx.count("conflict-in-loop-without-pragma(instr body)")
                    continue
                if not compiled:
                    ctx.count("racy-loop:compilation-rejected")
                    continue
                what_loop = f"loop {name}{list(path)} iterations {inst['lo'] + i} and {inst['lo'] + j} ({kind}) on cell {cell}"
                replay = dict(rep, input=inp, loop=[name, list(path)], iterations=[inst["lo"] + i, inst["lo"] + j],
                              cell=list(cell), kind=kind)
                if lid not in handed:
                    if len(path) > 1:
                        ctx.count("racy-loop-compiled:nested-not-visited")
                        ctx.violation(KEY_NESTED, "compiles with '#pragma omp parallel for' although " + what_loop +
                                      " conflict; the loop was never handed to Check_ParallelizeLoop", replay)
                    else:
                        ctx.violation("ParallelAnalysis:top-level-par-loop-not-checked",
                                      "compiles with the pragma although " + what_loop + " conflict; top-level loop never checked",
                                      replay)
                elif handed[lid] == "ok":
                    ctx.violation(f"Check_ParallelizeLoop:accepted-racy-loop:{kind}",
                                  "Check_ParallelizeLoop accepted a loop whose " + what_loop + " conflict", replay)
                else:
                    ctx.violation("ParallelAnalysis:rejected-loop-but-compiled:racy",
                                  "rejected by the check but compiled, and " + what_loop + " conflict", replay)
            if loops_json:
                self.disj_requests.append((loops_json, verdicts, dict(rep, input=inp, loops=[list(map(str, c)) for c in ctxs])))
        if not compiled and not dyn_conflict:
            ctx.count("rejected-but-no-dynamic-conflict(conservative or small input)")
        if compiled and not dyn_conflict:
            ctx.count("compiled-and-conflict-free-on-all-inputs")
        return dict(multi=multi, compiled=compiled, dyn_conflict=dyn_conflict, res=res, mdl=mdl)

    def flush_disjoint(self):
        """the Lean function `conflict` on the same footprints must agree with the Python verdicts"""
        ctx = self.ctx
        if not self.disj_requests:
            return
        lines = [json.dumps({"op": "disjoint", "loops": lj}, separators=(",", ":")) for lj, _, _ in self.disj_requests]
        answers = lean_batch(DRIVER, lines)
        for (lj, verdicts, rep), a in zip(self.disj_requests, answers):
            a = json.loads(a)
            if "bad" in a:
                raise InfraError(f"C09 driver: {a['bad']}")
            for fps, v, c in zip(lj, verdicts, a["conflicts"]):
                ctx.count("footprint-sets-decided-by-Lean")
                ok = (c is not None) == v
                if ok and c is not None:
                    i, j, cell = c
                    ok = i != j and (cell in fps[i][1] or cell in fps[i][2]) and any(cell in fps[j][t] for t in range(3))
                if not ok:
                    raise InfraError(f"Lean `conflict` = {c}, python verdict = {v} on {json.dumps(fps)[:400]}")
        self.disj_requests = []


FIXED = {
    # the witness of Props.C09.traversal_complete_false / finding F8, verbatim
    "F8-witness": '''
@proc
def main(y: f32[1]):
    for j in seq(0, 4):
        for i in par(0, 4):
            y[0] = 1.0
''',
    # the three procedures of tests/test_parallel.py
    "test_parallel:ok": '''
@proc
def main(x: i8[10]):
    for i in par(0, 10):
        x[i] = 1.0
''',
    "test_parallel:fail": '''
@proc
def main(A: i8[10]):
    total: i8
    for i in par(0, 10):
        total += A[i]
''',
    "test_parallel:fail2": '''
@proc
def main(A: i8[10]):
    total: i8
    for i in par(0, 10):
        total = A[i]
''',
    # callee with its own par loop called from a par loop; outer window aliasing
    "par-calls-par": '''
@proc
def sub(n: size, a: [f32][n]):
    for j in par(0, n):
        a[j] = 1.0

@proc
def main(n: size, y: f32[n, n]):
    for i in par(0, n):
        sub(n, y[i, :])
''',
    "outer-window-alias": '''
@proc
def main(n: size, y: f32[n + 1]):
    w = y[1:n + 1]
    for i in par(0, n):
        w[i] = y[i]
''',
    "outer-window-ok": '''
@proc
def main(n: size, y: f32[n + 1]):
    w = y[1:n + 1]
    for i in par(0, n):
        w[i] = y[i + 1] + 1.0
''',
    "triangular": '''
@proc
def main(n: size, y: f32[n, n]):
    for i in par(0, n):
        for j in seq(0, i + 1):
            y[i, j] = y[j, i]
''',
    "alloc-outside-nested": '''
@proc
def main(n: size, x: f32[n], y: f32[2]):
    for k in seq(0, 2):
        t: f32
        for i in par(0, n):
            t = x[i]
        y[k] = t
''',
}


def run(ctx):
    ctx.rule = ("a program = 1..3 items, each a (position of the par loop, body shape) pair from "
                f"{len(POSITIONS)} positions x {len(BODIES)} bodies, extent a size argument or a constant, compiled through "
                "compile_procs_to_strings or Procedure.c_code_str; an evaluation = one program compiled by the real code "
                "with Check_ParallelizeLoop wrapped and executed on valid inputs with per-iteration footprints; distinct = "
                "(positions, bodies, extent, entry point); non-trivial = some Par loop instance ran >= 2 iterations")
    ctx.assumptions += [
        "event model: an iteration's event sequence (which cells) does not depend on values read; OpenMP executes "
        "iterations as interleavings of atomic reads/writes (no weak-memory effects modelled)",
        "dynamic footprints are measured on sampled valid inputs (sizes 1..4) — disjointness for all inputs is "
        "Check_ParallelizeLoop's SMT verdict, tied by B, not proved",
        "a loop gets '#pragma omp parallel for' iff it is a Par loop of a compiled (non-instruction) procedure "
        "(checked by counting pragmas)",
    ]
    ctx.trusted += [
        "harness/props/c09_interp.py attribution of accesses to iterations (its results are cross-checked against "
        "Drivers/Sem.lean on every input)",
        "Check_ParallelizeLoop / SMT (modelled as an oracle; its verdicts are tested by B)",
    ]
    broken = ctx.lean_obligations(["ExoModel.Props.C09", "ExoModel.Props.C09Sem"])
    for b in broken:
        ctx.violation(f"obligation:{b}", f"proof obligation broken: {b}", {"obligation": b}, no_input=True)

    ck = Checker(ctx)
    try:
        if ctx.replay:
            rp = json.loads(open(ctx.replay).read())["replay"]
            ck.one(rp.get("label", "replay"), rp["src"], rp.get("via", "compile_procs_to_strings"),
                   fixed_input=rp.get("input"))
            ck.flush_disjoint()
            return
        rng = ctx.rng
        n_inputs = ctx.scale(4, 8)

        def do(label, src, via, key):
            try:
                r = ck.one(label, src, via, n_inputs=n_inputs)
            except InfraError:
                raise
            except Exception as e:  # noqa  a mutated tree may raise anything anywhere
                ctx.violation(f"harness:unexpected-exception:{type(e).__name__}",
                              f"{type(e).__name__}: {e} while checking {label}", {"label": label, "src": src,
                                                                                 "trace": traceback.format_exc()[-1500:]},
                              no_input=True)
                return
            ctx.evaluated(key, nontrivial=bool(r and r["multi"]))
            if r is not None and key[0] == "random-body":
                ctx.count("random-body:" + ("compiled" if r["compiled"] else "rejected") + ":"
                          + ("dynamic conflict" if r["dyn_conflict"] else "no dynamic conflict"))
            if r is not None and key[0] in POSITIONS:
                handed = bool(r["res"]["calls"])
                ctx.count("single-item:" + ("loop handed to check" if handed else "loop NOT handed to check") + ":"
                          + ("racy body" if BODIES[key[1]]["racy"] else "race-free body") + ":"
                          + ("compiled" if r["compiled"] else "rejected"))
            if r is not None:
                ctx.sample({"label": label, "compiled": r["compiled"], "dynamic_conflict": r["dyn_conflict"],
                            "handed_to_check": [[n, p, o] for n, p, o in r["res"]["calls"]],
                            "model_checked": r["mdl"]["checked_run"], "all_par_loops": r["mdl"]["par"]}, limit=8)

        for name, src in FIXED.items():
            do(f"fixed|{name}", src, "compile_procs_to_strings", ("fixed", name))
        # systematic: every position x every body
        for pos in POSITIONS:
            for body in BODIES:
                exts = ["n", "4"] if not ctx.quick else [rng.choice(["n", "4", "3"])]
                for n in exts:
                    via = rng.choice(["compile_procs_to_strings", "c_code_str"])
                    do(f"{pos}|{body}|{n}", make_program([(pos, body)], n), via, (pos, body, n, via))
                    ctx.count(f"position:{pos}")
                    ctx.count("body:" + ("racy" if BODIES[body]["racy"] else "race-free"))
        # random multi-item programs
        for _ in range(ctx.scale(50, 900)):
            k = rng.choice([2, 2, 3])
            items = [(rng.choice(list(POSITIONS)), rng.choice(list(BODIES))) for _ in range(k)]
            n = rng.choice(["n", "2", "3", "4", "5"])
            via = rng.choice(["compile_procs_to_strings", "c_code_str"])
            label = "multi|" + "+".join(f"{p}:{b}" for p, b in items) + f"|{n}"
            do(label, make_program(items, n), via, (tuple(items), n, via))
            ctx.count("multi-item-programs")
        ck.flush_disjoint()
        # random access patterns (search for a loop that Check_ParallelizeLoop accepts although two of its
        # iterations conflict): mostly at handed positions
        for t in range(ctx.scale(70, 1200)):
            body = random_body(rng)
            pos = rng.choice(["top", "top", "top", "callee_top", "sched_top", "callee_sched", "in_seq", "in_if", "in_par"])
            n = rng.choice(["n", "n", "2", "3", "4", "6"])
            via = rng.choice(["compile_procs_to_strings", "c_code_str"])
            src = make_program([(pos, body)], n)
            do(f"random-body|{pos}|{n}|{t}", src, via, ("random-body", src))
            ctx.count("random-body-programs")
        ck.flush_disjoint()
    finally:
        ck.close()
    ctx.extra["known_finding_note"] = (
        "F8: the literal model's `checked` omits nested Par loops (Props.C09.traversal_complete_false); every racy nested "
        f"loop that compiles is reported under the single key {KEY_NESTED}")
