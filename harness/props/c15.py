"""C15 — compile output is valid C; inconsistent annotations are rejected.

Parts
  0. tables        : harness/translate/tables.py regenerates lean/ExoModel/Gen/Tables15.lean from the live
                     Memory classes / precision objects of the tree under test (every run)
  1. obligations   : lake build + axiom audit of ExoModel.Props.C15
  2. correspondence: EXHAUSTIVE assignment spaces of small caller/callee skeletons (c15_lib.skeletons):
                     precision x memory x window-ness on arguments and allocations, applied with the REAL
                     set_precision / set_memory / set_window / call_eqv; the annotated LoopIR is exported and
                     the verdict of Drivers/C15.lean (overall first error: procedure, class, count; and the
                     four stage verdicts + precision error kinds of EVERY procedure) is compared with the real
                     `compile_procs_to_strings` exception and with the real analysis classes run one by one.
                     A sample of the assignments is also written as SOURCE annotations (fresh front end).
  3. search X      : (i) every distinct accepted C text -> gcc -fsyntax-only -Wall -Werror=…;  (ii) every
                     assignment the real compiler accepts although the independent python spec
                     `consistent` says it is inconsistent;  (iii) fixed probes F9/F10/F11;  (iv) gcc over
                     the compiled pool programs.
"""
from __future__ import annotations

import concurrent.futures as cf
import json
import multiprocessing as mp
import os
import tempfile
import threading
import time
from pathlib import Path

from common import import_exo, lean_batch, InfraError, LEAN, REPO, ROOT

DRIVER = "Drivers/C15.lean"

KEY_TIE = "tie:model-verdict-differs-from-real-compiler"
KEY_SPEC = "tie:python-spec-disagrees-with-model"
KEY_F9 = "codegen:window-variable-const-struct-mismatch-at-call"
KEY_F10 = "codegen:index-constant-folded-with-float-division"
KEY_F11 = "codegen:c-keyword-identifier-emitted-verbatim"
KEY_STALE = "set_window:stale-read-type:window-passed-as-dense-tensor"

PROBES = {
    KEY_F9: ("f9", '''
@proc
def rd(n: size, x: [f32][n], y: f32[n]):
    for i in seq(0, n):
        y[i] = x[i]

@proc
def f9(n: size, w: [f32][n], y: f32[n]):
    for i in seq(0, n):
        w[i] = 1.0
    rd(n, w, y)
'''),
    KEY_F10: ("f10", '''
@proc
def f10(x: f32[8]):
    x[4 / 2] = 1.0
'''),
    KEY_F11: ("f11", '''
@proc
def f11(n: size, x: f32[n]):
    for int in seq(0, n):
        x[int] = 1.0
'''),
}


def _lean_parallel(lines, nproc):
    """run the driver over `lines` in `nproc` processes; answers in order"""
    if not lines:
        return []
    nproc = max(1, min(nproc, (len(lines) + 499) // 500))
    chunks = [lines[i::nproc] for i in range(nproc)]
    res = [None] * nproc
    errs = []

    def go(i):
        try:
            res[i] = lean_batch(DRIVER, chunks[i], timeout=3000)
        except BaseException as e:  # noqa
            errs.append(e)

    ths = [threading.Thread(target=go, args=(i,)) for i in range(nproc)]
    for t in ths:
        t.start()
    for t in ths:
        t.join()
    if errs:
        raise errs[0] if isinstance(errs[0], InfraError) else InfraError(str(errs[0]))
    out = [None] * len(lines)
    for i in range(nproc):
        for j, a in enumerate(res[i]):
            out[i + j * nproc] = a
    return out


def _compare(rec, ans):
    """-> list of difference descriptions between the model answer and the real verdicts"""
    diffs = []
    mv, rv = ans["verdict"], rec["real"]
    if rv[0] == "err" and rv[2] == "memwindow-assert":
        # AssertionError inside AVX2/AVX512 `.window` (strides[-1] == "1"): not modelled; the model must
        # have let that procedure reach code generation
        per = {p["name"]: p for p in ans["per"]}
        st = per.get(rv[1], {}).get("stages")
        if not st or st[:3] != ["ok", "ok", "ok"]:
            diffs.append(f"real asserts in Memory.window of {rv[1]} but model stages {st}")
        return diffs, True
    if mv != rv:
        diffs.append(f"overall verdict model={mv} real={rv}")
    for mp_, rp in zip(ans["per"], rec["per"]):
        if rp is None or mp_.get("instr"):
            continue
        if rp["stages"] != mp_["stages"]:
            if "memwindow-assert" in rp["stages"]:
                i = rp["stages"].index("memwindow-assert")
                if mp_["stages"][:i] == rp["stages"][:i]:
                    continue
            diffs.append(f"stages of {rp['name']}: model={mp_['stages']} real={rp['stages']}")
        elif rp["stages"][0] == "precision" and rp["prec"] != mp_["prec"]:
            diffs.append(f"precision errors of {rp['name']}: model={mp_['prec']} real={rp['prec']}")
    return diffs, False


def _src_case(args):
    """worker: build a source text, compile, export -> record"""
    from props import c15_lib as L
    from exo_build import build_module, procs_of, HEADER
    from translate.c15_mems import HEADER_EXTRA

    name, src, top, mem_names = args
    rec = {"sk": name, "src": src, "top": top}
    try:
        try:
            mod = build_module(src, header=HEADER + HEADER_EXTRA)
            procs = procs_of(mod)
        except BaseException as e:  # noqa
            if isinstance(e, (KeyboardInterrupt, SystemExit)):
                raise
            rec["front_exc"] = type(e).__name__ + ": " + str(e)[:300]
            return rec
        roots = [procs[top]] if top else list(procs.values())
        try:
            rec["prog"] = L.Exporter(mem_names).program([p._loopir_proc for p in roots])
        except L.Unsupported as u:
            rec["unsupported"] = str(u)
        v, c, h = L.real_compile(roots)
        rec["real"] = v
        if "prog" in rec:
            from exo.backend.LoopIR_compiler import find_all_subprocs

            by = {}
            for p in find_all_subprocs([p._loopir_proc for p in roots]):
                by.setdefault(p.name, []).append(p)
            rec["per"] = [
                L.real_stages(by[pj["name"]][0]) if len(by.get(pj["name"], [])) == 1 and not pj["instr"] else None
                for pj in rec["prog"]["procs"]
            ]
        if c is not None:
            rec["hash"] = L.text_hash(c, h)
            rec["c"], rec["h"] = c, h
        return rec
    except BaseException as e:  # noqa
        if isinstance(e, (KeyboardInterrupt, SystemExit)):
            raise
        import traceback

        rec["worker_exc"] = traceback.format_exc()[-2000:]
        return rec


def run(ctx):
    exo = import_exo()
    from translate import tables
    from props import c15_lib as L

    ctx.rule = (
        "one case = one skeleton (caller/callee program, call depth <= 2) with one assignment of "
        "(precision in {R,f16,f32,f64,i8,i32}) x (memory in {DRAM,DRAM_STACK,DRAM_STATIC,AVX2,AVX512,T_WO,T_RO}) "
        "x window-ness to each annotation site (arguments and allocations); the product of the site domains of "
        "every skeleton is enumerated exhaustively (quick uses smaller domains on the variant skeletons); applied "
        "with the real set_precision/set_memory/set_window/call_eqv, plus a sample written as source annotations; "
        "distinct = (skeleton, assignment); non-trivial = the real compiler reached the analyses"
    )
    ctx.assumptions += [
        "the exporter (harness/props/c15_lib.Exporter) reads names, declared types, node type annotations, memories "
        "and callee signatures off the real LoopIR faithfully",
        "index / size / bool sub-expressions are irrelevant to the four decisions (single leaf `ctrl` in the model)",
        "gcc 12 -fsyntax-only with -Werror=incompatible-pointer-types/int-conversion/implicit-function-declaration "
        "stands for `a standard C compiler accepts`",
        "T_WO / T_RO (harness/translate/c15_mems.py) are test memories defined by the harness",
        "an AssertionError raised inside AVX2/AVX512 `.window` (stride assertion) counts as a rejection and is not "
        "predicted by the model",
    ]
    ctx.trusted += [
        "harness/translate/tables.py (introspection of Memory classes, precision objects; probing write/reduce/alloc by calling them)",
        "part (a) beyond the window-struct fragment (C typing of the whole backend output) is covered by gcc only",
    ]

    # ---------------------------------------------------------------- 0. tables
    tab, changed = tables.regenerate()
    ctx.extra["tables"] = {
        "regenerated_changed": changed, "precisions": tab["precs"], "default": tab["default"],
        "memories": tab["mems"], "caps": tab["caps"], "alloc_fail_rows": len(tab["alloc_fail"]),
    }

    # ---------------------------------------------------------------- 1. obligations
    broken = ctx.lean_obligations(["ExoModel.Props.C15", "ExoModel.Props.C15Stmt"])
    ctx.extra["broken_obligations"] = broken

    if ctx.replay:
        return _replay(ctx, tab, L)

    quick = ctx.quick
    sks = L.skeletons(quick)
    ncpu = max(2, min(16, (os.cpu_count() or 4)))
    if os.environ.get("C15_WORKERS"):
        ncpu = max(2, int(os.environ["C15_WORKERS"]))
    mpctx = mp.get_context("fork")
    tmp = tempfile.TemporaryDirectory(prefix="c15_")
    t0 = time.time()

    # ---------------------------------------------------------------- 2. real side, in parallel
    tasks = []
    only = [x for x in os.environ.get("C15_ONLY", "").split(",") if x]   # developer knob: skeleton name prefixes
    if only:
        ctx.extra["restricted_to_skeletons"] = only
    for si, sk in enumerate(sks):
        if only and not any(sk["name"].startswith(x) for x in only):
            continue
        n = L.n_assignments(sk)
        ks = list(range(n))
        step = 250
        for i in range(0, n, step):
            tasks.append((si, quick, ks[i:i + step], tab["mems"]))
    ctx.rng.shuffle(tasks)
    recs = []
    with cf.ProcessPoolExecutor(max_workers=ncpu, mp_context=mpctx) as ex:
        for out in ex.map(L.worker_chunk, tasks, chunksize=1):
            for r in out:
                if "worker_exc" in r:
                    raise InfraError("c15 worker failed:\n" + r["worker_exc"])
                recs.append(r)
        # source-annotation stream (fresh front end) : a sample of every skeleton
        per_sk = ctx.scale(12, 120)
        src_tasks = []
        for sk in sks:
            if only and not any(sk["name"].startswith(x) for x in only):
                continue
            n = L.n_assignments(sk)
            for k in sorted(ctx.rng.sample(range(n), min(per_sk, n))):
                asg = L.assignment_at(sk, k)
                try:
                    src = L.source_with_annotations(sk, asg)
                except L.Unsupported:
                    ctx.count("src:unsupported-site")
                    continue
                src_tasks.append(("src:" + sk["name"], src, sk["top"], tab["mems"]))
        # pool programs
        import pool as pool_mod

        for name, src in sorted(pool_mod.POOL.items()):
            src_tasks.append(("pool:" + name, src, None, tab["mems"]))
        for key, (top, src) in PROBES.items():
            src_tasks.append(("probe:" + key, src, top, tab["mems"]))
        src_recs = list(ex.map(_src_case, src_tasks, chunksize=4))
    recs.sort(key=lambda r: (r["sk"], r["k"]))
    ctx.extra["t_real_s"] = round(time.time() - t0, 1)

    # ---------------------------------------------------------------- model side
    t1 = time.time()
    with_prog = [r for r in recs if "prog" in r] + [r for r in src_recs if "prog" in r and "real" in r]
    lines = [json.dumps(r["prog"], separators=(",", ":")) for r in with_prog]
    answers = _lean_parallel(lines, ncpu // 2)
    ctx.extra["t_model_s"] = round(time.time() - t1, 1)

    texts = {}        # hash -> (c, h, first record)
    mismatches = []
    spec_mismatch = []
    accepted_inconsistent = {}
    for r in recs + src_recs:
        if "worker_exc" in r:
            raise InfraError("c15 worker failed:\n" + r["worker_exc"])
        if "sched_exc" in r:
            ctx.count("sched-api-raised:" + r["sched_exc"].split(":")[0])
        if "front_exc" in r:
            ctx.count("front-end-rejected:" + r["sk"].split(":")[0])
            if r["sk"].startswith(("pool:", "probe:")):
                raise InfraError(f"{r['sk']} does not build: {r['front_exc']}")
        if "unsupported" in r:
            ctx.count("export-unsupported")
        if "c" in r:
            texts.setdefault(r["hash"], (r["c"], r["h"], r))
    for r, a in zip(with_prog, answers):
        ans = json.loads(a)
        if not ans.get("ok"):
            raise InfraError(f"driver rejected a request: {ans} for {r['sk']}")
        kind = r["sk"].split("/")[0]
        is_src = "src" in r
        key = (r["sk"], r["k"]) if not is_src else (r["sk"], r["src"])
        ctx.evaluated(json.dumps(key), nontrivial=True)
        rv = r["real"]
        ctx.count(("src-" if is_src else "") + "real:" + (rv[0] if rv[0] == "ok" else rv[2]))
        diffs, was_assert = _compare(r, ans)
        if was_assert:
            ctx.count("real:AssertionError-in-Memory.window(unmodelled)")
        if diffs:
            mismatches.append((r, ans, diffs))
        # python spec
        bad = L.consistent(r["prog"], tab)
        for b in bad:
            ctx.count("spec-inconsistent:" + b)
        if not bad:
            ctx.count("spec-consistent")
        if ans["verdict"] == ["ok"] and bad and bad != ["window:stale"]:
            spec_mismatch.append((r, bad))
        if rv == ["ok"] and bad:
            for b in bad:
                accepted_inconsistent.setdefault(b, []).append(r)
        if len(ctx.samples) < 6 and (rv == ["ok"] or len(ctx.samples) < 3):
            ctx.sample({"skeleton": r["sk"], "assignment": r.get("asg"), "real": rv, "model": ans["verdict"],
                        "consistent_violations": bad})

    # ---------------------------------------------------------------- 3. search X : gcc
    t2 = time.time()
    items = sorted(texts.items())
    cap = ctx.scale(2500, 10 ** 9)
    if len(items) > cap:
        # keep every probe/pool/source text, sample the rest
        keep = [it for it in items if "src" in it[1][2]]
        rest = [it for it in items if "src" not in it[1][2]]
        ctx.rng.shuffle(rest)
        items = keep + rest[:cap - len(keep)]
        ctx.count("gcc:texts-not-checked(quick cap)", len(texts) - len(items))

    def one(it):
        hh, (c, h, r) = it
        return hh, L.gcc_check(c, h, tmp.name, hh)

    gcc_fail = {}
    with cf.ThreadPoolExecutor(max_workers=ncpu) as tp:
        for hh, (ok, first, err) in tp.map(one, items):
            if ok is None:
                ctx.count("gcc:timeout(not checked)")
                continue
            ctx.count("gcc:ok" if ok else "gcc:error")
            if not ok:
                c, h, r = texts[hh]
                k = L.classify_gcc(first, err, c, r.get("prog"))
                if k.startswith("gcc:") and "src" in r and (L.exo_bound_names(r["src"]) & L.C_KEYWORDS):
                    k = KEY_F11       # gcc's message for a keyword used as identifier varies
                gcc_fail.setdefault(k, []).append((r, first, err, c, h))
    ctx.extra["t_gcc_s"] = round(time.time() - t2, 1)
    gcc_timeouts = ctx.counts.get("gcc:timeout(not checked)", 0)
    ctx.extra["distinct_accepted_texts"] = len(texts)

    # identifiers that are C keywords (F11): gcc's message varies, classify by the program
    def replay_of(r, **kw):
        d = {"kind": "source", "name": r["sk"], "src": r["src"], "top": r["top"]} if "src" in r else \
            {"kind": "assignment", "skeleton": r["sk"], "k": r["k"], "assignment": r["asg"], "quick_domains": quick}
        d.update(kw)
        return d

    for k, lst in sorted(gcc_fail.items()):
        r, first, err, c, h = lst[0]
        key = k
        ctx.count("gcc-fail:" + key, len(lst))
        ctx.violation(
            key,
            f"the real compiler accepts but gcc rejects the C text ({len(lst)} distinct texts this run): {first}",
            replay_of(r, gcc_first_error=first, gcc_stderr=err, c=c, h=h),
        )
    # every fixed probe must still fail in gcc (otherwise the finding is stale: report as info)
    for key in PROBES:
        hit = any(r["sk"] == "probe:" + key for lst in gcc_fail.values() for (r, *_rest) in lst)
        ctx.extra.setdefault("probes", {})[key] = "gcc rejects" if hit else "gcc accepts / not compiled"

    # accepted although inconsistent
    for b, lst in sorted(accepted_inconsistent.items()):
        r = lst[0]
        key = KEY_STALE if b == "window:stale" else "accepts-inconsistent:" + b
        ctx.count("accepted-inconsistent:" + b, len(lst))
        ctx.violation(
            key,
            f"compile_procs_to_strings accepts an assignment that is inconsistent ({b}); {len(lst)} assignments this run",
            replay_of(r, inconsistent=b),
        )

    # correspondence / spec failures without a concrete property violation of their own
    if mismatches:
        r, ans, diffs = mismatches[0]
        ctx.count("tie-mismatch", len(mismatches))
        concrete = bool(gcc_fail.keys() - _known_keys(ctx)) or bool(accepted_inconsistent.keys() - {"window:stale"})
        ctx.violation(
            KEY_TIE,
            f"model and real compiler disagree on {len(mismatches)} cases; first: {diffs[0]}",
            replay_of(r, model=ans, diffs=diffs), no_input=not concrete,
        )
    if spec_mismatch:
        r, bad = spec_mismatch[0]
        ctx.violation(KEY_SPEC, f"model accepts but python `consistent` reports {bad} ({len(spec_mismatch)} cases)",
                      replay_of(r, inconsistent=bad), no_input=True)
    if broken:
        ctx.violation("obligations:" + broken[0].split(":")[0],
                      f"Lean obligations broken: {broken[:4]}", {"broken": broken}, no_input=True)
    tmp.cleanup()
    if gcc_timeouts * 10 > max(1, len(items)) and not ctx.violations:
        raise InfraError(f"gcc timed out on {gcc_timeouts} of {len(items)} texts (machine overloaded?)")


def _known_keys(ctx):
    return {f["key"] for f in ctx.known.get("findings", []) if f["property"] == ctx.prop_id}


def _replay(ctx, tab, L):
    d = json.loads(Path(ctx.replay).read_text())
    rp = d.get("replay") or {}
    if rp.get("kind") == "assignment":
        sks = {s["name"]: (i, s) for i, s in enumerate(L.skeletons(rp.get("quick_domains", True)))}
        si, sk = sks[rp["skeleton"]]
        recs = L.worker_chunk((si, rp.get("quick_domains", True), [rp["k"]], tab["mems"]))
    elif rp.get("kind") == "source":
        recs = [_src_case((rp["name"], rp["src"], rp["top"], tab["mems"]))]
    else:
        raise InfraError("replay file has no replayable case")
    with tempfile.TemporaryDirectory(prefix="c15r_") as td:
        for r in recs:
            print("case     :", r.get("sk"), r.get("asg", ""))
            print("real     :", r.get("real"))
            if "prog" in r:
                ans = json.loads(lean_batch(DRIVER, [json.dumps(r["prog"])])[0])
                print("model    :", ans.get("verdict"))
                print("spec     :", L.consistent(r["prog"], tab) or "consistent")
            if "c" in r:
                ok, first, err = L.gcc_check(r["c"], r["h"], td, "replay")
                print("gcc      :", "ok" if ok else first)
                if not ok:
                    ctx.violation(d["key"], d["what"], rp)
            elif r.get("real") == ["ok"]:
                pass
            if r.get("real") == ["ok"] and "prog" in r and L.consistent(r["prog"], tab):
                ctx.violation(d["key"], d["what"], rp)
