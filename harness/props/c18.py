"""C18 — scheduling and compilation are deterministic (DESIGN.md section 3, C18; docs/C18.md).

run(ctx):
  1. T-gen   regenerate lean/ExoModel/Gen/SortSites.lean from the tree under test
             (harness/translate/sort_sites.py)
  2. proofs  ExoModel.Props.C18 (permutation / renumbering invariance, `decide` over the table)
  3. T-corr  the Lean model against the real code through Drivers/C18.lean: `sorted`, Sym order,
             `Compiler.new_varname`, `PrintEnv.get_name`, and the assembly of whole compilation units
             (collections captured at the real sort sites, model text == real text, also after
             shuffling every captured collection)
  4. X       the same scripted sessions in FRESH interpreters that differ in PYTHONHASHSEED, number of
             Syms / procedures created earlier, padding allocations, definition order of unrelated
             procedures; every output compared byte for byte
"""
from __future__ import annotations

import difflib
import json
import os
import re
import subprocess
import sys
import tempfile
import time
from pathlib import Path

from common import InfraError, LEAN, LeanDriver, REPO, ROOT, import_exo

HERE = Path(__file__).resolve().parent
WORKER = HERE / "c18_worker.py"
PY = "/venv/bin/python"

K_WINDOW = "replace:window-placement-choice-nondeterministic"
K_MEMS = "compile:memories-same-name-order"
K_EXTS = "compile:externs-same-key-order"
K_Z3 = "smt:z3-unknown-depends-on-sym-numbering"


# ====================================================================== table mirror (messages only)
def _card1(s):
    return s["max_card"] is not None and s["max_card"] <= 1


def _sorts(s):
    return s["role"] == "sorted" and s["sorted"] and s["key_kind"] not in ("other", "none")


def _consumer_ok(sites, c):
    return _sorts(c) or (bool(c["origins"]) and all(any(r["id"] == o and _card1(r) for r in sites) for o in c["origins"]))


def site_ok(sites, s):
    """Python mirror of Exo.Order.Site.ok (the Lean `decide` is the obligation; this names the rows)"""
    if s["role"] == "sorted":
        return _sorts(s)
    if s["role"] == "producer":
        return _card1(s) or s["insensitive"] or (
            s["contained"] and all(_consumer_ok(sites, c) for c in sites if s["id"] in c["origins"]))
    if s["role"] == "consumer":
        return _consumer_ok(sites, s)
    return False


# ====================================================================== workers
def env_for(i, seed):
    """the i-th process environment; env 0 is the plain one"""
    sym = [0, 3, 1000, 17, 1, 250, 7, 4096, 2, 33, 5, 999]
    prc = [0, 2, 5, 1, 0, 3, 7, 0, 4, 1, 6, 2]
    pad = [0, 1500, 20000, 300, 7, 5000, 90, 12000, 1, 800, 40, 3000]
    return {"hashseed": i + 12 * seed, "sym_offset": sym[i % 12], "proc_offset": prc[i % 12],
            "pad": pad[i % 12], "perm_seed": i, "fv_order": None}


def spawn(spec, hashseed, tmpdir, tag):
    path = Path(tmpdir) / f"spec_{tag}.json"
    path.write_text(json.dumps(spec))
    e = dict(os.environ)
    e["PYTHONHASHSEED"] = str(hashseed)
    e["PYTHONDONTWRITEBYTECODE"] = "1"
    e.pop("PYTHONPATH", None)
    return subprocess.Popen([PY, str(WORKER), str(path)], stdout=subprocess.PIPE, stderr=subprocess.PIPE,
                            text=True, env=e, cwd=str(ROOT))


def collect(proc, tag, timeout):
    try:
        out, err = proc.communicate(timeout=timeout)
    except subprocess.TimeoutExpired:
        proc.kill()
        raise InfraError(f"C18 worker {tag} timed out after {timeout}s")
    if "@@C18RESULT@@" not in out:
        # a tree that cannot even be imported is data about the tree, not an infrastructure failure
        return {"sessions": {}, "detail": {}, "crash": (err or out)[-1500:], "rc": proc.returncode}
    return json.loads(out.split("@@C18RESULT@@", 1)[1])


def run_envs(specs, tmpdir, par, timeout):
    """specs: list of (tag, hashseed, spec) -> {tag: result}; at most `par` processes at a time"""
    res, todo, running = {}, list(specs), []
    while todo or running:
        while todo and len(running) < par:
            tag, hs, spec = todo.pop(0)
            running.append((tag, spawn(spec, hs, tmpdir, tag), time.time()))
        tag, p, t0 = running.pop(0)
        res[tag] = collect(p, tag, timeout)
    return res


# ====================================================================== classification of a difference
_SAFE = re.compile(r"^[\w\s+\-*/%()]+$")


def _affine_diff_is_one(lo, hi):
    """hi - lo == 1 for three valuations of the identifiers (index expressions: + - * / % over names)"""
    if not (_SAFE.match(lo) and _SAFE.match(hi)):
        return False
    names = sorted(set(re.findall(r"[A-Za-z_]\w*", lo + " " + hi)))
    try:
        for vals in ((3, 7, 11, 13, 17, 19, 23, 29), (5, 2, 31, 8, 4, 9, 6, 10), (40, 41, 43, 47, 53, 59, 61, 67)):
            env = {n: vals[i % len(vals)] + i for i, n in enumerate(names)}
            if eval(hi.replace("/", "//"), {"__builtins__": {}}, env) - eval(lo.replace("/", "//"), {"__builtins__": {}}, env) != 1:
                return False
    except Exception:
        return False
    return True


def _norm_window_component(comp):
    if ":" not in comp:
        return comp
    lo, hi = comp.split(":", 1)
    if _affine_diff_is_one(lo.strip(), hi.strip()):
        return lo.strip()
    return comp


def norm_windows(text):
    """rewrite every window component `e:e + 1` to the point `e` (so that the two placements of a
    size-1 window that the unifier may choose print the same)"""

    def one(m):
        parts = m.group(1).split(", ")
        return "[" + ", ".join(_norm_window_component(p) for p in parts) + "]"

    return re.sub(r"\[([^\[\]]*)\]", one, text)


def first_diff(a, b):
    """a, b: lists of [label, text]; index of the first entry that differs, or None"""
    for k in range(max(len(a), len(b))):
        if k >= len(a) or k >= len(b) or a[k] != b[k]:
            return k
    return None


def udiff(x, y, n=40):
    return "\n".join(list(difflib.unified_diff(x.splitlines(), y.splitlines(), "env A", "env B", lineterm=""))[:n])


def classify(sess_name, tags, a, b):
    """-> list of (key, label, what, diff) for the differences between two runs of one session"""
    k = first_diff(a, b)
    if k is None:
        return []
    la = a[k][0] if k < len(a) else "<missing>"
    ta = a[k][1] if k < len(a) else ""
    tb = b[k][1] if k < len(b) else ""
    op = la.split(":")[0]
    known = [t[len("known:"):] for t in tags if t.startswith("known:")]
    if "Z3Unknown" in ta or "Z3Unknown" in tb:
        return [(K_Z3, la, f"session {sess_name}: at `{la}` Z3 answered `unknown` in one environment only", udiff(ta, tb))]
    if known and k < len(a) and k < len(b) and sorted(ta.splitlines()) == sorted(tb.splitlines()):
        return [(known[0], la, f"session {sess_name}: `{la}` differs only in the order of emitted blocks", udiff(ta, tb))]
    if op in ("replace", "replace_all") and k < len(a) and k < len(b) and a[k][0] == b[k][0] \
            and norm_windows(ta) == norm_windows(tb):
        out = [(K_WINDOW, la, f"session {sess_name}: `{la}` chose a different placement of a size-1 window", udiff(ta, tb))]
        # later printed steps must agree up to that choice; C text cannot be normalised and is skipped
        for j in range(k + 1, max(len(a), len(b))):
            if j >= len(a) or j >= len(b) or a[j][0] != b[j][0]:
                out.append((f"nondeterminism:{op}", la, f"session {sess_name}: outputs diverge after `{la}`", ""))
                break
            if a[j][0].endswith(":c") or a[j][0].endswith(":h"):
                continue
            if norm_windows(a[j][1]) != norm_windows(b[j][1]):
                o2 = a[j][0].split(":")[0]
                out.append((f"nondeterminism:{o2}", a[j][0],
                            f"session {sess_name}: `{a[j][0]}` differs beyond the window placement", udiff(a[j][1], b[j][1])))
                break
        return out
    return [(f"nondeterminism:{op}", la, f"session {sess_name}: `{la}` differs between two process environments", udiff(ta, tb))]


# ====================================================================== correspondence (driver)
class Model:
    def __init__(self):
        self.d = LeanDriver(LEAN / "Drivers" / "C18.lean")

    def ask(self, obj):
        r = json.loads(self.d.ask(json.dumps(obj, ensure_ascii=False)))
        if "error" in r:
            raise InfraError(f"C18 driver: {r['error']} on {str(obj)[:200]}")
        return r

    def close(self):
        self.d.close()


_SYMS = {}


def mk_sym(name, ident):
    """one real Sym object per (name, id) (hash is id(): equal-but-distinct objects never occur)"""
    from exo.core.prelude import Sym

    if (name, ident) not in _SYMS:
        s = Sym.__new__(Sym)
        s._nm, s._id = name, ident
        _SYMS[(name, ident)] = s
    return _SYMS[(name, ident)]


NAME_POOL = ["x", "x_1", "x_2", "y", "x_", "a_b", "x_1_1", "x_01", "x_9", "y_1", "ctxt", "x__2"]


def real_cname(evs):
    import types
    from collections import ChainMap

    from exo.backend.LoopIR_compiler import Compiler

    fake = types.SimpleNamespace(names=ChainMap(), env=ChainMap(), envtyp={}, mems={})
    out = []
    for ev in evs:
        if ev[0] == "b":
            try:
                out.append(Compiler.new_varname(fake, mk_sym(ev[1], ev[2]), None))
            except ValueError:
                out.append(None)
        elif ev[0] == "u":
            try:
                out.append(fake.env[mk_sym(ev[1], ev[2])])
            except KeyError:
                out.append(None)
        elif ev[0] == "+":
            fake.env, fake.names = fake.env.new_child(), fake.names.new_child()
            out.append(None)
        else:
            fake.env, fake.names = fake.env.parents, fake.names.parents
            out.append(None)
    return out


def real_pname(evs):
    from exo.core.LoopIR_pprint import PrintEnv

    stack = [PrintEnv()]
    out = []
    for ev in evs:
        if ev[0] == "u":
            out.append(stack[-1].get_name(mk_sym(ev[1], ev[2])))
        elif ev[0] == "+":
            stack.append(stack[-1].push())
            out.append(None)
        else:
            stack.pop()
            out.append(None)
    return out


def gen_events(rng, n, binds):
    evs, depth, seen = [], 0, []
    for _ in range(n):
        r = rng.random()
        if r < 0.12:
            evs.append(["+"])
            depth += 1
        elif r < 0.22 and depth > 0:
            evs.append(["-"])
            depth -= 1
        else:
            if seen and rng.random() < 0.45:
                nm, i = rng.choice(seen)
            else:
                nm, i = rng.choice(NAME_POOL), rng.randint(1, 6)
                seen.append((nm, i))
            kind = "b" if binds and rng.random() < 0.55 else "u"
            evs.append([kind, nm, i])
    return evs


def rand_key(rng):
    alpha = ["a", "b", "A", "Z", "_", "0", "9", "é", "ß", "漢", "😀", "z"]
    return "".join(rng.choice(alpha) for _ in range(rng.randint(0, 4)))


def correspondence(ctx, exo):
    """returns list of (what, replay) mismatches between the Lean model and the real code"""
    bad = []
    m = Model()
    rng = ctx.rng
    try:
        # (a) sorted(): stability and str order
        for _ in range(ctx.scale(150, 1500)):
            keys = [rand_key(rng) for _ in range(rng.randint(0, 9))]
            want = sorted(range(len(keys)), key=lambda i: keys[i])
            got = m.ask({"op": "sort", "keys": keys})["order"]
            ctx.count("corr:sort")
            if got != want:
                bad.append(("model of sorted() differs from Python", {"keys": keys, "model": got, "python": want}))
        # (b) Sym order
        for _ in range(ctx.scale(80, 600)):
            syms = [[rng.choice(["x", "y", "x_1", "xx", "X"]), rng.randint(1, 9)] for _ in range(rng.randint(0, 8))]
            want = [[s._nm, s._id] for s in sorted(mk_sym(*s) for s in syms)]
            got = m.ask({"op": "symsort", "syms": syms})["syms"]
            ctx.count("corr:symsort")
            if got != want:
                bad.append(("model of sorted(Syms) differs", {"syms": syms, "model": got, "python": want}))
            terms = [[rng.randint(-3, 3), rng.choice(["x", "y", "xx"]), rng.randint(1, 5)] for _ in range(rng.randint(0, 7))]
            want = [[c, s._nm, s._id] for c, s in sorted((t[0], mk_sym(t[1], t[2])) for t in terms)]
            got = m.ask({"op": "termsort", "terms": terms})["terms"]
            ctx.count("corr:termsort")
            if got != want:
                bad.append(("model of sorted(normalization_list) differs", {"terms": terms, "model": got, "python": want}))
        # (c) naming machines
        for _ in range(ctx.scale(150, 1500)):
            evs = gen_events(rng, rng.randint(1, 14), binds=True)
            try:
                want = real_cname(evs)
            except BaseException as e:  # mutated trees may raise anything
                if isinstance(e, (KeyboardInterrupt, SystemExit, MemoryError)):
                    raise
                want = "EXC:" + type(e).__name__
            got = m.ask({"op": "cname", "fuel": 60, "evs": evs})["out"]
            ctx.count("corr:new_varname")
            if got != want:
                bad.append(("model of Compiler.new_varname differs", {"evs": evs, "model": got, "real": want}))
            evs = gen_events(rng, rng.randint(1, 14), binds=False)
            try:
                want = real_pname(evs)
            except BaseException as e:
                if isinstance(e, (KeyboardInterrupt, SystemExit, MemoryError)):
                    raise
                want = "EXC:" + type(e).__name__
            got = m.ask({"op": "pname", "fuel": 60, "evs": evs})["out"]
            ctx.count("corr:get_name")
            if got != want:
                bad.append(("model of PrintEnv.get_name differs", {"evs": evs, "model": got, "real": want}))
        # (d) frozen dataclass tie: WindowStruct.definition is a function of WindowStruct.name
        bad += window_struct_tie(ctx)
        # (e) whole compilation units, collections captured at the real sites
        bad += unit_correspondence(ctx, m)
    finally:
        m.close()
    return bad


def window_struct_tie(ctx):
    bad = []
    try:
        from exo.backend.LoopIR_compiler import window_struct
        from exo.core.LoopIR import T

        by_name, objs = {}, set()
        for bt in (T.f16, T.f32, T.f64, T.i8, T.ui8, T.ui16, T.i32):
            for n in range(1, 13):
                for c in (False, True):
                    w = window_struct(bt, n, c)
                    w2 = window_struct(bt, n, c)
                    objs.add(w)
                    objs.add(w2)
                    ctx.count("corr:window_struct")
                    if by_name.setdefault(w.name, w.definition) != w.definition:
                        bad.append(("two WindowStruct values with one name and different definitions",
                                    {"name": w.name}))
        if len(objs) != len(by_name):
            bad.append(("WindowStruct set has several elements per name", {"objects": len(objs), "names": len(by_name)}))
    except BaseException as e:
        if isinstance(e, (KeyboardInterrupt, SystemExit, MemoryError)):
            raise
        bad.append((f"window_struct tie raised {type(e).__name__}", {"exc": str(e)[:200]}))
    return bad


def capture_unit(loopir_procs, lib="h"):
    """run the REAL compile_to_strings on the procs with the inputs of every sort site captured.
    Returns (request for the model, real result)"""
    import exo.backend.LoopIR_compiler as LC

    cap = {"comp": {}, "structs": [], "helpers": []}
    orig = {k: getattr(LC, k) for k in ("_compile_context_struct", "_compile_memories", "_compile_externs",
                                        "find_all_subprocs", "Compiler")}

    def w_ctx(configs, lib_name):
        cap["cfgs"] = list(configs)
        return orig["_compile_context_struct"](configs, lib_name)

    def w_mem(mems):
        cap["mems"] = list(mems)
        return orig["_compile_memories"](mems)

    def w_ext(externs):
        cap["exts"] = list(externs)
        return orig["_compile_externs"](externs)

    def w_sub(proc_list):
        r = orig["find_all_subprocs"](proc_list)
        cap["procs"] = list(r)
        return r

    class CapCompiler(orig["Compiler"]):
        def __init__(self, proc, ctxt_name, *, is_public_decl):
            super().__init__(proc, ctxt_name, is_public_decl=is_public_decl)
            self._cap_public = is_public_decl

        def comp_top(self):
            d, b = super().comp_top()
            cap["comp"][self.proc.name] = (self._cap_public, d, b)
            return d, b

        def struct_defns(self):
            r = super().struct_defns()
            cap["structs"] += [w for w in r if w not in cap["structs"]]
            return r

        def needed_helpers(self):
            r = super().needed_helpers()
            cap["helpers"] += [h for h in r if h not in cap["helpers"]]
            return r

    empty_header, _ = orig_compile_empty(LC, lib)
    LC._compile_context_struct, LC._compile_memories, LC._compile_externs = w_ctx, w_mem, w_ext
    LC.find_all_subprocs, LC.Compiler = w_sub, CapCompiler
    try:
        try:
            real = {"ok": list(LC.compile_to_strings(lib, list(loopir_procs)))}
        except TypeError as e:
            real = {"err": str(e)}
    finally:
        for k, v in orig.items():
            setattr(LC, k, v)
    procs = []
    for p in cap.get("procs", []):
        if p.instr is not None:
            argstr = ",".join([str(a.name) for a in p.args])
            body = "\n".join(["", '/* relying on the following instruction..."', f"{p.name}({argstr})", p.instr.c_instr, "*/"])
            procs.append([p.name, True, False, "", body, p.instr.c_global or None])
        else:
            pub, d, b = cap["comp"].get(p.name, (False, "", ""))
            procs.append([p.name, False, bool(pub), d, b, None])
    cfgs = []
    for c in cap.get("cfgs", []):
        if c.is_allow_rw():
            lines = [f"    {line}" for line in c.c_struct_def()] + [""]
        else:
            lines = [f"// config '{c.name()}' not materialized", ""]
        cfgs.append([c.name(), lines])
    req = {
        "op": "unit", "prelude": empty_header[:-3], "lib": lib, "procs": procs,
        "mems": [[mm.name(), mm.global_()] for mm in cap.get("mems", [])],
        "exts": [[f.name(), t, f.globl(t) or ""] for f, t in cap.get("exts", [])],
        "cfgs": cfgs,
        "structs": [[w.name, w.definition] for w in cap["structs"]],
        "helpers": [__import__("exo.backend.LoopIR_compiler", fromlist=["x"])._static_helpers[h] for h in cap["helpers"]],
    }
    return req, real


def orig_compile_empty(LC, lib):
    return LC.compile_to_strings(lib, [])


def unit_correspondence(ctx, m):
    import exo_build
    import props.c18_worker as W
    from props.c18_sessions import SCRIPTED, X86_HEADER

    bad = []
    units = []

    def cap_rec(label, obj):
        pass

    def cap_unit(label, procs):
        units.append((label, [p._loopir_proc for p in procs], list(procs)))

    sys.modules["c18_worker"] = W
    old = (W.rec, W.compile_unit)
    W.rec, W.compile_unit = cap_rec, cap_unit
    try:
        for name in ("big_unit", "x86_simple_math", "replace_subproc", "unroll_buffer"):
            try:
                exo_build.build_module(SCRIPTED[name]["src"], header=X86_HEADER)
            except BaseException as e:
                if isinstance(e, (KeyboardInterrupt, SystemExit, MemoryError)):
                    raise
                ctx.count("corr:unit-session-raised:" + type(e).__name__)
    finally:
        W.rec, W.compile_unit = old
    # a unit with two procedures of one name (the duplicate check must fire, with the same message)
    if units:
        try:
            from exo.stdlib.scheduling import rename

            lbl, _, ps = units[0]
            if len(ps) >= 1:
                twin = rename(ps[0], ps[0].name())
                units.append(("dup-proc-names", [ps[0]._loopir_proc, twin._loopir_proc], None))
        except BaseException as e:
            if isinstance(e, (KeyboardInterrupt, SystemExit, MemoryError)):
                raise
    for label, lps, _ in units:
        try:
            req, real = capture_unit(lps)
        except BaseException as e:
            if isinstance(e, (KeyboardInterrupt, SystemExit, MemoryError)):
                raise
            ctx.count("corr:unit-capture-raised:" + type(e).__name__)
            continue
        got = m.ask(req)
        ctx.count("corr:unit")
        ctx.evaluated(("unit", label), nontrivial=True)
        if got != real:
            what = "model of compile_to_strings differs from the real header/body"
            d = ""
            if "ok" in got and "ok" in real:
                d = udiff(real["ok"][0], got["ok"][0], 30) + "\n" + udiff(real["ok"][1], got["ok"][1], 30)
            bad.append((what, {"unit": label, "diff(real,model)": d, "real_err": real.get("err"), "model_err": got.get("err")}))
            continue
        # the model's answer must not depend on the captured iteration order
        for _ in range(ctx.scale(3, 10)):
            sh = dict(req)
            for k in ("procs", "mems", "exts", "cfgs", "structs"):
                v = list(req[k])
                ctx.rng.shuffle(v)
                sh[k] = v
            got2 = m.ask(sh)
            ctx.count("corr:unit-shuffled")
            if got2 != real:
                bad.append(("model output changes when the captured sets are permuted",
                            {"unit": label, "sizes": {k: len(req[k]) for k in ("procs", "mems", "exts", "cfgs", "structs")}}))
                break
    return bad


# ====================================================================== the search
def make_sessions(ctx):
    from pool import POOL
    from props.c18_sessions import POOL_OPS, SCRIPTED

    sessions = [{"kind": "scripted", "name": n} for n in SCRIPTED]
    names = sorted(POOL)
    npool = ctx.scale(5, 24)
    for k in range(npool):
        progs = ctx.rng.sample(names, 2)
        rest = [n for n in names if n not in progs]
        sessions.append({"kind": "pool", "name": f"pool{k}", "programs": progs,
                         "unrelated": ctx.rng.sample(rest, 2), "ops": POOL_OPS[k % len(POOL_OPS)],
                         "seed": ctx.rng.randint(0, 10 ** 6), "steps": 5})
    return sessions


class Search:
    """the worker processes run in the background while the main process does proofs + correspondence"""

    def __init__(self, ctx, tmpdir):
        import threading

        self.ctx, self.tmpdir = ctx, tmpdir
        self.err = None
        self.plan()
        self.t0 = time.time()
        self.thread = threading.Thread(target=self._go, daemon=True)
        self.thread.start()

    def _go(self):
        try:
            self.res = run_envs(self.specs, self.tmpdir, par=self.ctx.scale(8, 6), timeout=self.ctx.scale(900, 2400))
        except BaseException as e:  # re-raised in the main thread
            self.err = e
        self.wall = round(time.time() - self.t0, 1)

    def plan(self):
        ctx = self.ctx
        self.sessions = sessions = make_sessions(ctx)
        nenv = ctx.scale(4, 12)
        self.envs = envs = [env_for(i, ctx.seed) for i in range(nenv)]
        specs = []
        for i, e in enumerate(envs):
            specs.append((f"env{i}", e["hashseed"], {"repo": str(REPO), "env": e, "sessions": sessions}))
        # identical twin of env 0 (F17 varies between identical invocations) in the thorough tier
        if not ctx.quick:
            specs.append(("env0-again", envs[0]["hashseed"], {"repo": str(REPO), "env": envs[0], "sessions": sessions}))
        # deterministic demonstration of F17: the unifier's free-variable set iterated in two FIXED orders
        # (with the order fixed the outcome is a function of the order and of the Sym ids only: both are varied)
        demo_sess = [{"kind": "scripted", "name": "x86_sgemm_6x16"}]
        self.demo_tags = []
        for off in ctx.scale((0, 2), (0, 1, 2, 3)):
            for mode in ("asc", "desc"):
                e = {"hashseed": 0, "sym_offset": off, "proc_offset": 0, "pad": 0, "perm_seed": 0, "fv_order": mode}
                self.demo_tags.append(f"f17-{mode}-{off}")
                specs.append((self.demo_tags[-1], 0, {"repo": str(REPO), "env": e, "sessions": demo_sess}))
        self.specs = specs

    def finish(self):
        self.thread.join()
        if self.err is not None:
            raise self.err
        search_report(self.ctx, self)


def search_report(ctx, S):
    from props.c18_sessions import SCRIPTED

    sessions, envs, specs, res, demo_tags = S.sessions, S.envs, S.specs, S.res, S.demo_tags
    ctx.extra["search_wall_s"] = S.wall
    ctx.extra["environments"] = {tag: spec["env"] for tag, _, spec in specs}
    crashed = {t: r["crash"] for t, r in res.items() if "crash" in r}
    if crashed:
        ctx.extra["worker_crashes"] = crashed
        if len(crashed) == len(res):
            # nothing ran at all: the tree cannot be imported / every worker died
            t, c = next(iter(crashed.items()))
            ctx.violation("worker:crash", f"every session worker died ({t}): {c[-300:]}", {"stderr": c}, no_input=True)
            return
    spec_of = {tag: spec for tag, _, spec in specs}
    tags_of = {n: SCRIPTED[n]["tags"] for n in SCRIPTED}

    def compare(tag_a, tag_b, sess_names):
        ra, rb = res.get(tag_a), res.get(tag_b)
        if ra is None or rb is None or "crash" in ra or "crash" in rb:
            if (ra is None or "crash" in ra) != (rb is None or "crash" in rb):
                ctx.violation("nondeterminism:worker-crash", f"worker {tag_a} / {tag_b}: one crashed, the other did not",
                              {"a": spec_of[tag_a]["env"], "b": spec_of[tag_b]["env"], "crash": crashed})
            return
        for sn in sess_names:
            a, b = ra["sessions"].get(sn, []), rb["sessions"].get(sn, [])
            nontrivial = len(a) >= 2 and not any(l == "session-aborted" for l, _ in a)
            ctx.evaluated((sn, tag_a, tag_b), nontrivial=nontrivial)
            ctx.count("compared:outputs", min(len(a), len(b)))
            if not nontrivial:
                ctx.count("session-trivial:" + sn)
            for key, label, what, diff in classify(sn, tags_of.get(sn, []), a, b):
                ctx.count("difference:" + key)
                sess = [s for s in spec_of[tag_a]["sessions"] if s["name"] == sn]
                replay = {
                    "how": f"write each spec to a file and run: PYTHONHASHSEED=<hashseed> {PY} harness/props/c18_worker.py <spec.json>; "
                           f"compare the texts recorded under the label (flaky differences may need several runs)",
                    "label": label,
                    "spec_a": {"repo": str(REPO), "env": spec_of[tag_a]["env"], "sessions": sess},
                    "spec_b": {"repo": str(REPO), "env": spec_of[tag_b]["env"], "sessions": sess},
                    "session_source": SCRIPTED[sn]["src"] if sn in SCRIPTED else "pool programs, see spec",
                    "diff": diff,
                }
                ctx.violation(key, what + f" [{tag_a} vs {tag_b}]", replay)

    all_names = [s["name"] for s in sessions]
    for tag in [t for t, _, _ in specs if t.startswith("env") and t != "env0"]:
        compare("env0", tag, all_names)
    for tag in demo_tags[1:]:
        compare(demo_tags[0], tag, ["x86_sgemm_6x16"])
    # what the sessions exercised
    r0 = res.get("env0", {})
    ops = {}
    for sn, outs in r0.get("sessions", {}).items():
        for l, t in outs:
            ops[l.split(":")[0]] = ops.get(l.split(":")[0], 0) + 1
            if t.startswith("EXC:"):
                ctx.count("session-exception:" + t[4:])
    for k, v in sorted(ops.items()):
        ctx.count("op:" + k, v)
    ctx.sample({"env0": envs[0], "env1": envs[1] if len(envs) > 1 else None,
                "sessions": [s["name"] for s in sessions]})
    for sn in ("x86_sgemm_6x16", "big_unit"):
        outs = r0.get("sessions", {}).get(sn, [])
        ctx.sample({"session": sn, "labels": [l for l, _ in outs]})


def replay(ctx, tmpdir):
    obj = json.loads(Path(ctx.replay).read_text())
    rp = obj.get("replay") or {}
    if "spec_a" not in rp:
        raise InfraError("replay file has no spec_a/spec_b (not a search finding)")
    hits = 0
    for k in range(6):
        specs = [("a", rp["spec_a"]["env"].get("hashseed", 0), rp["spec_a"]),
                 ("b", rp["spec_b"]["env"].get("hashseed", 0), rp["spec_b"])]
        res = run_envs(specs, tmpdir, 2, 1800)
        for sn in res["a"]["sessions"]:
            for key, label, what, diff in classify(sn, [], res["a"]["sessions"][sn], res["b"]["sessions"].get(sn, [])):
                hits += 1
                ctx.violation(obj["key"], what + " [replay]", rp)
        ctx.evaluated(("replay", k))
        if hits:
            break
    ctx.extra["replay_hits"] = hits


# ====================================================================== entry
def run(ctx):
    exo = import_exo()
    sys.path.insert(0, str(ROOT / "harness"))
    from translate import sort_sites

    ctx.rule = ("search: one evaluation = one scripted session (define procedures, apply a schedule of several "
                "primitives incl. replace/replace_all with x86 instructions, unroll_buffer, stage_mem, bind_expr, "
                "divide_loop+simplify, then str(p) after every step and compile_procs_to_strings) executed in two "
                "fresh interpreters that differ in PYTHONHASHSEED, Sym/procedure counter offsets, padding "
                "allocations and definition order of unrelated procedures, all recorded outputs compared byte for "
                "byte; distinct = (session, environment pair); non-trivial = the session ran to the end and "
                "recorded >= 2 outputs.  correspondence: model vs real sorted / Sym order / new_varname / get_name / "
                "whole compilation units with the inputs of the real sort sites captured")
    ctx.assumptions += [
        "CPython's sorted() is a stable comparison sort that uses only `<` on the keys (modelled by List.mergeSort)",
        "a Python set is a duplicate-free collection whose iteration order is arbitrary (any permutation); "
        "dicts iterate in insertion order",
        "for sets of small ints (used_allocs in DoUnrollBuffer) CPython's iteration order is a function of the "
        "insertion sequence, independent of PYTHONHASHSEED",
        "values that reach LoopIR_compiler.py from outside the scanned files (IR node fields such as proc.args, "
        "results of get_writes_of_stmts) are ordered sequences (listed in Gen.SortSites.externalIterables)",
        "the environments explored by the search are a sample: hash seeds, counter offsets, paddings and "
        "definition orders as listed under coverage.environments",
    ]
    ctx.trusted += [
        "harness/translate/sort_sites.py (data-flow analysis that produces Gen/SortSites.lean)",
        "unmodelled, observed only: the unifier / SMT model choice in replace, the bodies of the scheduling "
        "rewrites, the front end, Compiler.comp_s/comp_e and the printer beyond the choice of names",
    ]

    # ---- 1. T-gen
    try:
        sites, changed = sort_sites.generate()
    except (SyntaxError, OSError, RuntimeError) as e:
        raise InfraError(f"sort_sites translator failed: {type(e).__name__}: {e}")
    bad_sites = [s for s in sites if not site_ok(sites, s)]
    unenforced = [s for s in sites if s["role"] == "sorted" and s["distinct"] == "unenforced"]
    ctx.extra["sort_sites"] = [
        {k: s[k] for k in ("id", "src", "kind", "role", "sorted", "key", "distinct", "max_card", "origins")} for s in sites]
    ctx.extra["sort_sites_regenerated_changed"] = changed
    ctx.extra["sort_sites_not_ok"] = [s["id"] for s in bad_sites]
    ctx.count("sites", len(sites))
    ctx.count("sites:sorted", sum(1 for s in sites if s["role"] == "sorted"))

    # ---- 2. proofs
    t1 = time.time()
    broken = ctx.lean_obligations(["ExoModel.Props.C18"])
    ctx.extra["proofs_wall_s"] = round(time.time() - t1, 1)

    with tempfile.TemporaryDirectory(prefix="c18_") as tmpdir:
        if ctx.replay:
            replay(ctx, tmpdir)
            return
        search = Search(ctx, tmpdir)      # workers start now, results are collected in step 4
        # ---- 3. correspondence (needs the Lean project to build; Order.lean does not depend on Gen)
        corr_bad = []
        if not any(b.startswith("build:") and "Order" in b for b in broken):
            try:
                t2 = time.time()
                corr_bad = correspondence(ctx, exo)
                ctx.extra["correspondence_wall_s"] = round(time.time() - t2, 1)
            except InfraError:
                if not broken:
                    raise
                ctx.extra["correspondence_skipped"] = "driver unavailable while the build is broken"
        # ---- 4. search
        search.finish()

    # ---- 5. verdicts for what has no concrete differing run
    concrete = any(not v["no_input"] for v in ctx.violations) or bool(ctx.known_hits)
    for what, rp in corr_bad[:5]:
        ctx.violation("correspondence:" + re.sub(r"\W+", "-", what)[:50], what, rp, no_input=True)
    if broken:
        new_unsorted = [s for s in bad_sites]
        detail = {"broken": broken, "sites_not_ok": [
            {k: s[k] for k in ("id", "func", "line", "src", "kind", "role", "how", "origins")} for s in new_unsorted],
            "unenforced_sorted_sites": [s["func"] for s in unenforced],
            "build_log_tail": ctx.extra.get("build_log_tail", "")[-1200:]}
        what = "obligation broken: " + "; ".join(broken)[:200]
        if new_unsorted:
            what += " — iteration order of " + ", ".join(f"`{s['src']}` in {s['func']} (line {s['line']})" for s in new_unsorted[:3]) \
                    + " reaches the emitted text unsorted"
        ctx.extra["broken_obligations"] = detail
        if not any(not v["no_input"] for v in ctx.violations):
            # no run of the search differed: the broken theorem / table row is reported on its own
            ctx.violation("obligation:" + ("sites" if new_unsorted else "proof"), what, detail, no_input=True)
