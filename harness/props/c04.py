"""C04 — scheduling never breaks safety or well-formedness (DESIGN.md section 3, C04)."""
from __future__ import annotations

from common import InfraError
import sched_run


def run(ctx):
    if ctx.replay:
        ctx.rule = "replay of one recorded case"
        sched_run.replay_stream(ctx, ctx.replay)
        return
    ctx.rule = ("pool program x every (primitive, cursor, args) attempt of harness/stream.py; an evaluation = one "
                "procedure returned by a real scheduling operation, checked by the Lean well-formedness predicate "
                "(ExoModel.Wf.wfP: scopes, kinds, ranks, arities), executed before/after in the Lean reference "
                "interpreter with all monitors on, and (sampled) compiled; distinct/non-trivial = accepted rewrites "
                "whose original runs without tripping a monitor on at least one input")
    ctx.assumptions += ["the exporter harness/export_ir.py maps LoopIR faithfully to ExoModel.Syntax",
                        "safety preservation is the error- and poison-direction of the differential comparison "
                        "(interp.compare): sampled inputs, not all inputs"]
    ctx.trusted += ["modelled, not verified: the effect analysis + z3 behind Check_Bounds / alloc_check etc. "
                    "(their verdicts are only observed through accepted/rejected rewrites)"]
    broken = ctx.lean_obligations(["ExoModel.Props.C04", "ExoModel.Props.C04Shapes", "ExoModel.Props.C04Shapes2"], build_targets=["ExoModel.Props.C04", "ExoModel.Props.C04Shapes", "ExoModel.Props.C04Shapes2", "ExoModel.WfTie"])
    recs = sched_run.run_stream(ctx, ["obs_wf", "obs_sem", "wftie"], nvariants=ctx.scale(1, 3), extra=__import__("pool").REGRESSION,
                                opts={"depth": ctx.scale(1, 2), "n_inputs": ctx.scale(2, 5),
                                      "compile_every": ctx.scale(25, 8), "safety_only": True})
    nviol = 0
    for r in recs:
        if r["error"]:
            if r["error"].startswith("infra"):
                raise InfraError(r["error"])
            if r["error"].startswith("front end rejected pool program") and "~" in r["name"]:
                # a constant-perturbed VARIANT of a pool program (thorough tier) that the front end rightly refuses
                ctx.count("perturbed-variant-rejected-by-the-front-end")
                continue
            ctx.violation(f"stream:{r['name'].split('~')[0]}:worker-error", r["error"],
                          {"program": r["name"], "src": r["src"]}, no_input=True)
            continue
        for k, v in r["counts"].items():
            ctx.count(k, v)
        for s in r.get("samples", []):
            ctx.sample({"program": r["name"], **s})
        for x in r["records"]:
            if x["kind"] == "not-wf":
                ctx.violation(x["key"], x["what"], x)
            elif x["kind"] == "compile-crash":
                ctx.violation(x["key"], x["what"], x)
            elif x["kind"] == "mismatch":
                # C04 owns the safety direction: new monitor trips and new poison
                if "fails with" in x["what"] or "derived None" in x["what"]:
                    ctx.violation(x["key"], x["what"], x)
            elif x["kind"] == "impure":
                pass  # C07
            elif x["kind"] == "shape-mismatch":
                pass  # C01
            elif x["kind"] == "wftie-broken":
                # site condition, shape match and scope check hold and the input is wf, yet the output is not:
                # contradicts Exo.C04.wf_tie_sound — exporter / driver / theorem fault
                ctx.violation(x["key"], x["what"][:300], x, no_input=True)
            elif x["kind"].startswith("wftie-"):
                pass  # counted (cond-fails-result-not-wf cases are the ill-formed outputs obs_wf reports)
            elif x["kind"] == "observer-exception":
                ctx.violation(f"observer-exception:{x['att']['op']}", x["exc"], x, no_input=True)
    ctx.evaluations = ctx.counts.get("wf-checked", 0)
    ctx.distinct = set(range(ctx.counts.get("pairs-nontrivial", 0)))
    if broken:
        ctx.violation("obligations:" + broken[0][:60], f"proof obligations broken: {broken}",
                      {"broken": broken}, no_input=not ctx.violations)
